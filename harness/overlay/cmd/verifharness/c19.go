//go:build verif

package main

import (
	"bytes"
	"encoding/binary"
	"encoding/json"
	"fmt"
	"math/rand"

	"github.com/lightninglabs/pool/sidecar"
)

func init() { props["C19"] = runC19 }

// c19Case is the shape of a corpus / replay case.
type c19Case struct {
	Kind string `json:"kind"` // tkt | str | prep | sign
	Hex  string `json:"hex,omitempty"`
	Msg  string `json:"msg,omitempty"`
	Note string `json:"note,omitempty"`
	// kind "conc": a concurrent scenario (run in a child process)
	Input *c19ConcInput `json:"input,omitempty"`
}

func c19Varint(v uint64) []byte {
	switch {
	case v < 0xfd:
		return []byte{byte(v)}
	case v <= 0xffff:
		b := []byte{0xfd, 0, 0}
		binary.BigEndian.PutUint16(b[1:], uint16(v))
		return b
	case v <= 0xffffffff:
		b := []byte{0xfe, 0, 0, 0, 0}
		binary.BigEndian.PutUint32(b[1:], uint32(v))
		return b
	}
	b := make([]byte, 9)
	b[0] = 0xff
	binary.BigEndian.PutUint64(b[1:], v)
	return b
}

func c19Rec(typ, declLen uint64, val []byte) []byte {
	return append(append(c19Varint(typ), c19Varint(declLen)...), val...)
}

// c19BombLen picks a declared record length around the interesting bounds.
// On a tree without the 65535 cap, lengths in (2^32, 2^63) would make the real
// decoder request terabytes from the OS (a fatal, unrecoverable runtime error)
// and are left out there.
func c19BombLen(rng *rand.Rand, capped bool) uint64 {
	safe := []uint64{65535, 65536, 70000, 1 << 20, 1 << 24, 1 << 63, 1<<63 + 1, 1<<64 - 1,
		1<<64 - 2, 0xffffffff00000000}
	risky := []uint64{1 << 31, 1<<32 - 1, 1 << 32, 1 << 40, 1 << 47, 1 << 48, 1<<48 + 1, 1<<63 - 1}
	if capped && rng.Intn(2) == 0 {
		return risky[rng.Intn(len(risky))]
	}
	return safe[rng.Intn(len(safe))]
}

var c19KnownTop = []uint64{1, 2, 3, 10, 20, 30, 40}
var c19KnownSub = []uint64{11, 12, 13, 14, 15, 16, 17, 18, 21, 22, 23, 31, 32, 41}

func c19RandBytes(rng *rand.Rand, n int) []byte {
	b := make([]byte, n)
	rng.Read(b)
	return b
}

// c19Mutate applies a few byte-level edits.
func c19Mutate(rng *rand.Rand, b []byte) []byte {
	b = append([]byte(nil), b...)
	for k := 1 + rng.Intn(3); k > 0; k-- {
		if len(b) == 0 {
			b = append(b, byte(rng.Intn(256)))
			continue
		}
		i := rng.Intn(len(b))
		switch rng.Intn(6) {
		case 0:
			b[i] ^= 1 << uint(rng.Intn(8))
		case 1:
			b[i] = byte(rng.Intn(256))
		case 2:
			b = append(b[:i], b[i+1:]...)
		case 3:
			b = append(b[:i], append([]byte{byte(rng.Intn(256))}, b[i:]...)...)
		case 4:
			b = b[:i]
		case 5:
			b[i] = []byte{0, 0xfc, 0xfd, 0xfe, 0xff}[rng.Intn(5)]
		}
	}
	return b
}

// c19GenTicketBytes generates one input for DeserializeTicket.
func c19GenTicketBytes(r *Run, capped bool) ([]byte, string) {
	rng := r.Rng
	valid := func() []byte {
		t, _ := decRandTicket(rng, func(string) {})
		var buf bytes.Buffer
		if err := sidecar.SerializeTicket(&buf, t); err != nil {
			panic(err)
		}
		return buf.Bytes()
	}
	switch x := rng.Intn(100); {
	case x < 20:
		return valid(), "valid"
	case x < 50:
		return c19Mutate(rng, valid()), "mutated"
	case x < 60:
		return c19RandBytes(rng, rng.Intn(80)), "random"
	case x < 80:
		// a stream assembled record by record
		var out []byte
		typ := uint64(0)
		for n := rng.Intn(7); n >= 0; n-- {
			switch rng.Intn(5) {
			case 0:
				typ = c19KnownTop[rng.Intn(len(c19KnownTop))]
			case 1:
				typ += uint64(rng.Intn(12))
			case 2:
				typ = rng.Uint64() >> uint(rng.Intn(64))
			default:
				typ += 1 + uint64(rng.Intn(10))
			}
			var val []byte
			switch rng.Intn(4) {
			case 0:
				val = c19RandBytes(rng, []int{0, 1, 4, 8, 32, 33, 64}[rng.Intn(7)])
			case 1:
				// nested stream of sub-records
				st := uint64(10 + rng.Intn(3)*10)
				for m := rng.Intn(4); m >= 0; m-- {
					st += 1 + uint64(rng.Intn(3))
					l := []int{0, 1, 4, 8, 32, 33, 64}[rng.Intn(7)]
					val = append(val, c19Rec(st, uint64(l), c19RandBytes(rng, l))...)
				}
			case 2:
				val = valid()
				if len(val) > 40 {
					val = val[12:40]
				}
			default:
				val = c19RandBytes(rng, rng.Intn(20))
			}
			decl := uint64(len(val))
			if rng.Intn(6) == 0 {
				decl += uint64(rng.Intn(3)) - 1
			}
			out = append(out, c19Rec(typ, decl, val)...)
		}
		return out, "assembled"
	default:
		// allocation bombs: a record declaring a huge length, at top level
		// or nested inside a sub-stream, for known and unknown types
		l := c19BombLen(rng, capped)
		var typ uint64
		if rng.Intn(2) == 0 {
			typ = c19KnownTop[rng.Intn(len(c19KnownTop))]
		} else {
			typ = []uint64{0, 4, 5, 9, 15, 99, 1 << 40, 1<<64 - 1}[rng.Intn(8)]
		}
		tail := c19RandBytes(rng, rng.Intn(12))
		switch rng.Intn(3) {
		case 0:
			return c19Rec(typ, l, tail), "bomb/top"
		case 1:
			// valid prefix records, then the bomb
			pre := c19Rec(1, 8, c19RandBytes(rng, 8))
			if typ <= 1 {
				typ = 99
			}
			return append(pre, c19Rec(typ, l, tail)...), "bomb/top-after-id"
		default:
			// nested in the offer / recipient / order / execution bytes
			outer := []uint64{10, 20, 30, 40}[rng.Intn(4)]
			var st uint64
			if rng.Intn(2) == 0 {
				st = c19KnownSub[rng.Intn(len(c19KnownSub))]
			} else {
				st = []uint64{0, 5, 19, 99, 1 << 33}[rng.Intn(5)]
			}
			inner := c19Rec(st, l, tail)
			if rng.Intn(2) == 0 {
				inner = append(inner, c19Rec(st+1+uint64(rng.Intn(3)), 1, []byte{1})...)
			}
			return c19Rec(outer, uint64(len(inner)), inner), "bomb/nested"
		}
	}
}

// c19GenString generates one input for DecodeString.
func c19GenString(r *Run, capped bool) (string, string) {
	rng := r.Rng
	switch x := rng.Intn(100); {
	case x < 25:
		t, _ := decRandTicket(rng, func(string) {})
		s, err := sidecar.EncodeToString(t)
		if err != nil {
			panic(err)
		}
		if x < 10 {
			return s, "valid"
		}
		return string(c19Mutate(rng, []byte(s))), "mutated"
	case x < 75:
		// correct checksum over arbitrary payload bytes, so that the
		// TLV decoder behind the checksum is reached
		payload, kind := c19GenTicketBytes(r, capped)
		return decEncodePayload(payload, rng.Intn(8) == 0, byte(rng.Intn(256))), "checksummed/" + kind
	case x < 85:
		return "sidecar" + string(c19RandBytes(rng, rng.Intn(40))), "prefix+random"
	case x < 92:
		n := rng.Intn(30)
		b := make([]byte, n)
		for i := range b {
			b[i] = b58Alphabet[rng.Intn(58)]
		}
		pre := []string{"sidecar", "sidecas", "Sidecar", "sideca", ""}[rng.Intn(5)]
		return pre + string(b), "b58-random"
	default:
		return string(c19RandBytes(rng, rng.Intn(24))), "random"
	}
}

func runC19(r *Run) {
	r.Rule = "ticket bytes: valid serialisations, 1-3 byte edits, assembled record streams, random " +
		"bytes, records declaring huge lengths (top level and nested, known and unknown types); " +
		"strings: valid, edited, correct checksum over generated payloads, random; prepare/sign " +
		"messages (wire round-tripped) with each sub-message independently absent and each key / " +
		"nonce / hex / address / tx malformed, run through the real parsers and handlers; " +
		"non-trivial = distinct input"
	capped := decCapped()
	if capped {
		r.Count("tree/ticket-decoders-capped")
	} else {
		r.Count("tree/ticket-decoders-uncapped")
	}

	runTkt := func(b []byte, kind string) {
		o := decDeserialize(b)
		if o.Class == "skipped" {
			r.Count("skipped/alloc-bomb-on-uncapped-tree")
			return
		}
		r.Emit("C19 tkt "+decHex(b), o.String())
		r.Evaluations++
		r.Distinct("tkt" + string(b))
		r.Count("tkt/" + kind)
		r.Count("tkt/out=" + o.Class + c19ErrSuffix(o))
		if o.Class == "panic" || o.Class == "timeout" {
			r.Count("oracle/violation")
			r.Violate(fmt.Sprintf("DeserializeTicket %s on %d input bytes: %s", o.Class, len(b), o.Panic),
				"C19/ticket-bytes", c19Case{Kind: "tkt", Hex: decHex(b)})
		}
	}
	runStr := func(s string, kind string) {
		o := decDecodeString(s)
		if o.Class == "skipped" {
			r.Count("skipped/alloc-bomb-on-uncapped-tree")
			return
		}
		r.Emit("C19 str "+decHex([]byte(s)), o.String())
		r.Evaluations++
		r.Distinct("str" + s)
		r.Count("str/" + kind)
		r.Count("str/out=" + o.Class + c19ErrSuffix(o))
		if o.Class == "panic" || o.Class == "timeout" {
			r.Count("oracle/violation")
			r.Violate(fmt.Sprintf("DecodeString %s on a %d character string: %s", o.Class, len(s), o.Panic),
				"C19/ticket-string", c19Case{Kind: "str", Hex: decHex([]byte(s))})
		}
	}

	for _, raw := range r.FixedCases() {
		var c c19Case
		if json.Unmarshal(raw, &c) != nil {
			continue
		}
		r.Count("case/fixed")
		switch c.Kind {
		case "tkt":
			runTkt(decUnhex(c.Hex), "fixed")
		case "str":
			runStr(string(decUnhex(c.Hex)), "fixed")
		case "prep", "sign":
			c19RunMsg(r, c)
		case "conc":
			if c.Input != nil {
				if cls := c19RunConc(r, *c.Input, "fixed"); cls != nil {
					c19EmitConc(r, *c.Input, cls)
				}
			}
		}
	}
	if r.ReplayFile != "" {
		return
	}

	for c := 0; c < r.N && len(r.Violations) < 20 && !decStalled(); c++ {
		switch c % 4 {
		case 0:
			b, kind := c19GenTicketBytes(r, capped)
			runTkt(b, kind)
		case 1:
			s, kind := c19GenString(r, capped)
			runStr(s, kind)
		default:
			c19GenMsg(r)
		}
	}

	// concurrent scenarios (each in a child process), after the sequential
	// cases so that a defect visible sequentially gets the small replay: the
	// two handler goroutines of a daemon parse prepare messages at the same time
	nConc := 2
	if r.Tier == "thorough" {
		nConc = 5
	}
	for k := 0; k < nConc && len(r.Violations) < 20; k++ {
		in := c19GenConc(r)
		if cls := c19RunConc(r, in, "generated"); cls != nil {
			c19EmitConc(r, in, cls)
		}
	}
}

func c19ErrSuffix(o decOutcome) string {
	if o.Class == "err" {
		return "/" + o.Err
	}
	return ""
}
