//go:build verif

package main

import (
	"bytes"
	"context"
	"crypto/sha256"
	"encoding/binary"
	"encoding/hex"
	"errors"
	"fmt"
	"net"
	"os"
	"strings"
	"sync"

	"github.com/btcsuite/btcd/btcec/v2"
	"github.com/btcsuite/btcd/btcutil"
	"github.com/btcsuite/btcd/chaincfg/chainhash"
	"github.com/btcsuite/btcd/wire"
	"github.com/lightninglabs/lndclient"
	pool "github.com/lightninglabs/pool"
	"github.com/lightninglabs/pool/account"
	"github.com/lightninglabs/pool/auctioneer"
	"github.com/lightninglabs/pool/auctioneerrpc"
	"github.com/lightninglabs/pool/clientdb"
	"github.com/lightninglabs/pool/funding"
	"github.com/lightninglabs/pool/internal/test"
	"github.com/lightninglabs/pool/order"
	"github.com/lightninglabs/pool/sidecar"
	"github.com/lightningnetwork/lnd/fn/v2"
	"github.com/lightningnetwork/lnd/input"
	"github.com/lightningnetwork/lnd/keychain"
	"github.com/lightningnetwork/lnd/lnrpc"
	"github.com/lightningnetwork/lnd/lnwallet"
	"github.com/lightningnetwork/lnd/lnwire"
	"github.com/lightningnetwork/lnd/routing/route"
	"google.golang.org/grpc"
	"google.golang.org/protobuf/proto"
)

// ---------------------------------------------------------------- mocks

// c17Wallet derives a deterministic key per (seed, family, index).
type c17Wallet struct {
	*test.MockWalletKit
	seed byte
	fail bool
}

func c17KeyFor(seed byte, fam, idx uint32) *btcec.PublicKey {
	var b [9]byte
	b[0] = seed
	binary.BigEndian.PutUint32(b[1:], fam)
	binary.BigEndian.PutUint32(b[5:], idx)
	h := sha256.Sum256(b[:])
	_, pub := btcec.PrivKeyFromBytes(h[:])
	return pub
}

func (w *c17Wallet) DeriveKey(_ context.Context, in *keychain.KeyLocator) (
	*keychain.KeyDescriptor, error) {

	if w.fail {
		return nil, errors.New("wallet locked")
	}
	return &keychain.KeyDescriptor{
		KeyLocator: *in,
		PubKey:     c17KeyFor(w.seed, uint32(in.Family), in.Index),
	}, nil
}

// c17Base captures what the funding manager sends to lnd.
type c17Base struct {
	shims []*lnrpc.FundingShim
	opens []*lnrpc.OpenChannelRequest
	peers [][33]byte

	// like lnd's wallet: at most one funding intent per pending channel id,
	// the first one is kept
	held       map[[32]byte]*lnrpc.ChanPointShim
	cancelFail map[[32]byte]bool
}

func (b *c17Base) FundingStateStep(_ context.Context, req *lnrpc.FundingTransitionMsg,
	_ ...grpc.CallOption) (*lnrpc.FundingStateStepResp, error) {

	if b.held == nil {
		b.held = map[[32]byte]*lnrpc.ChanPointShim{}
	}
	if c := req.GetShimCancel(); c != nil {
		var pid [32]byte
		copy(pid[:], c.PendingChanId)
		if b.cancelFail[pid] {
			return nil, errors.New("rpc error: code = DeadlineExceeded")
		}
		if _, ok := b.held[pid]; !ok {
			return nil, errors.New("no funding intent found for the pending channel ID")
		}
		delete(b.held, pid)
		return &lnrpc.FundingStateStepResp{}, nil
	}
	reg := req.GetShimRegister()
	if reg == nil || reg.GetChanPointShim() == nil {
		return nil, errors.New("invalid funding shim")
	}
	var pid [32]byte
	copy(pid[:], reg.GetChanPointShim().PendingChanId)
	if _, dup := b.held[pid]; dup {
		return nil, fmt.Errorf("%w: already has intent registered: %x", lnwallet.ErrDuplicatePendingChanID, pid[:])
	}
	b.held[pid] = reg.GetChanPointShim()
	b.shims = append(b.shims, reg)
	return &lnrpc.FundingStateStepResp{}, nil
}

func (b *c17Base) OpenChannel(_ context.Context, req *lnrpc.OpenChannelRequest,
	_ ...grpc.CallOption) (lnrpc.Lightning_OpenChannelClient, error) {

	b.opens = append(b.opens, req)
	// Failing here makes BatchChannelSetup return right after the request
	// was built (partial reject, nothing to wait for).
	return nil, errors.New("captured by the verification harness")
}

func (b *c17Base) ListPeers(context.Context, *lnrpc.ListPeersRequest,
	...grpc.CallOption) (*lnrpc.ListPeersResponse, error) {

	resp := &lnrpc.ListPeersResponse{}
	for _, p := range b.peers {
		resp.Peers = append(resp.Peers, &lnrpc.Peer{PubKey: hex.EncodeToString(p[:])})
	}
	return resp, nil
}

func (b *c17Base) SubscribePeerEvents(context.Context, *lnrpc.PeerEventSubscription,
	...grpc.CallOption) (lnrpc.Lightning_SubscribePeerEventsClient, error) {

	return nil, nil
}

func (b *c17Base) AbandonChannel(context.Context, *lnrpc.AbandonChannelRequest,
	...grpc.CallOption) (*lnrpc.AbandonChannelResponse, error) {

	return &lnrpc.AbandonChannelResponse{}, nil
}

func (b *c17Base) SubscribeChannelEvents(context.Context, *lnrpc.ChannelEventSubscription,
	...grpc.CallOption) (lnrpc.Lightning_SubscribeChannelEventsClient, error) {

	return nil, errors.New("not used")
}

// c17Lightning records the connection attempts of one PrepChannelFunding call.
type c17Lightning struct {
	*test.MockLightning
	mu    sync.Mutex
	conns map[route.Vertex]string
}

func (l *c17Lightning) Connect(_ context.Context, peer route.Vertex, host string, _ bool) error {
	l.mu.Lock()
	defer l.mu.Unlock()
	l.conns[peer] = host
	return nil
}

func (l *c17Lightning) Connections() map[route.Vertex]string {
	l.mu.Lock()
	defer l.mu.Unlock()
	res := map[route.Vertex]string{}
	for k, v := range l.conns {
		res[k] = v
	}
	return res
}

func (l *c17Lightning) ResetConns() {
	l.mu.Lock()
	defer l.mu.Unlock()
	l.conns = map[route.Vertex]string{}
}

// c17Signer accepts every signature and returns a fixed valid one.
type c17Signer struct {
	*test.MockSigner
}

func (s *c17Signer) VerifyMessage(context.Context, []byte, []byte, [33]byte,
	...lndclient.VerifyMessageOption) (bool, error) {

	return true, nil
}

func (s *c17Signer) SignMessage(context.Context, []byte, keychain.KeyLocator,
	...lndclient.SignMessageOption) ([]byte, error) {

	return test.NewSignatureFromInt(7, 9).Serialize(), nil
}

type c17Reg struct {
	pid [32]byte
	bid *order.Bid
}

type c17Party struct {
	name    string
	ln      *c17Lightning
	nodeKey *btcec.PublicKey
	node33  [33]byte
	wallet  *c17Wallet
	base    *c17Base
	mgr     *funding.Manager
	acc     *pool.ChannelAcceptor
	regs    []c17Reg
}

func (p *c17Party) reset() {
	p.base.shims, p.base.opens, p.base.peers = nil, nil, nil
	p.base.held, p.base.cancelFail = nil, nil
	p.regs = nil
	p.wallet.fail = false
	p.acc = pool.NewChannelAcceptor(nil)
}

func c17NewParty(name string, seed byte, db *clientdb.DB) *c17Party {
	p := &c17Party{name: name}
	p.nodeKey = c17KeyFor(seed, 0xffff, 0)
	copy(p.node33[:], p.nodeKey.SerializeCompressed())
	p.wallet = &c17Wallet{MockWalletKit: test.NewMockWalletKit(), seed: seed}
	p.base = &c17Base{}
	p.acc = pool.NewChannelAcceptor(nil)
	p.ln = &c17Lightning{MockLightning: test.NewMockLightning(), conns: map[route.Vertex]string{}}
	p.mgr = funding.NewManager(&funding.ManagerConfig{
		DB:               db,
		WalletKit:        p.wallet,
		LightningClient:  p.ln,
		BaseClient:       p.base,
		SignerClient:     &c17Signer{MockSigner: test.NewMockSigner()},
		NodePubKey:       p.nodeKey,
		BatchStepTimeout: order.DefaultBatchStepTimeout,
		NotifyShimCreated: func(bid *order.Bid, pid [32]byte) {
			p.acc.ShimRegistered(bid, pid)
			p.regs = append(p.regs, c17Reg{pid: pid, bid: bid})
		},
	})
	return p
}

// ---------------------------------------------------------------- formatting (mirrors C17Drv.lean)

func c17Hex(b []byte) string {
	if len(b) == 0 {
		return "-"
	}
	return hex.EncodeToString(b)
}

func c17FmtKit(k *order.Kit) string {
	n := k.Nonce()
	return fmt.Sprintf("%s %d %d %d %d", c17Hex(n[:]), k.LeaseDuration, uint8(k.ChannelType),
		uint32(k.MultiSigKeyLocator.Family), k.MultiSigKeyLocator.Index)
}

func c17FmtTicket(t *sidecar.Ticket) string {
	if t == nil {
		return "-"
	}
	rec := "n"
	if r := t.Recipient; r != nil {
		nk, mk := "-", "nil"
		if r.NodePubKey != nil {
			nk = c17Hex(r.NodePubKey.SerializeCompressed())
		}
		if r.MultiSigPubKey != nil {
			mk = c17Hex(r.MultiSigPubKey.SerializeCompressed())
		}
		rec = fmt.Sprintf("%s/%s/%d", nk, mk, r.MultiSigKeyIndex)
	}
	on := "nil"
	if t.Order != nil {
		on = c17Hex(t.Order.BidNonce[:])
	}
	return fmt.Sprintf("T:%d:%d:%d:%s:%s:%s:%s", int64(t.Offer.Capacity), int64(t.Offer.PushAmt),
		t.Offer.LeaseDurationBlocks, c17b(t.Offer.UnannouncedChannel), c17b(t.Offer.ZeroConfChannel), rec, on)
}

func c17FmtOrder(o order.Order) string {
	switch x := o.(type) {
	case *order.Ask:
		return "a " + c17FmtKit(&x.Kit)
	case *order.Bid:
		return fmt.Sprintf("b %s %d %s %s %s", c17FmtKit(&x.Kit), int64(x.SelfChanBalance),
			c17b(x.UnannouncedChannel), c17b(x.ZeroConfChannel), c17FmtTicket(x.SidecarTicket))
	}
	return "?"
}

func c17FmtMatched(m *order.MatchedOrder) string {
	return fmt.Sprintf("%s %s %s %d", c17FmtOrder(m.Order), c17Hex(m.MultiSigKey[:]), c17Hex(m.NodeKey[:]),
		uint64(m.UnitsFilled))
}

func c17FmtShim(s *lnrpc.ChanPointShim) string {
	return fmt.Sprintf("amt=%d txid=%s idx=%d lk=%s lf=%d li=%d rk=%s pid=%s thaw=%d m2=%s",
		s.Amt, c17Hex(s.ChanPoint.GetFundingTxidBytes()), s.ChanPoint.OutputIndex,
		c17Hex(s.LocalKey.RawKeyBytes), s.LocalKey.KeyLoc.KeyFamily, s.LocalKey.KeyLoc.KeyIndex,
		c17Hex(s.RemoteKey), c17Hex(s.PendingChanId), s.ThawHeight, c17b(s.Musig2))
}

func c17FmtTx(tx *wire.MsgTx) string {
	h := tx.TxHash()
	outs := make([]string, len(tx.TxOut))
	for i, o := range tx.TxOut {
		outs[i] = c17Hex(o.PkScript)
	}
	o := "-"
	if len(outs) > 0 {
		o = strings.Join(outs, ",")
	}
	return c17Hex(h[:]) + " " + o
}

// c17Scripts computes both funding scripts directly with lnd's builders
// (never through pool code). "err" when the builder fails.
func c17Scripts(ourKey, theirKey []byte, amt int64) (string, string) {
	w, t := "err", "err"
	if _, out, err := input.GenFundingPkScript(ourKey, theirKey, amt); err == nil {
		w = c17Hex(out.PkScript)
	}
	a, errA := btcec.ParsePubKey(ourKey)
	b, errB := btcec.ParsePubKey(theirKey)
	if errA == nil && errB == nil {
		if _, out, err := input.GenTaprootFundingScript(a, b, amt, fn.None[chainhash.Hash]()); err == nil {
			t = c17Hex(out.PkScript)
		}
	}
	return w, t
}

// c17Env renders the oracle tables for one call: our key derivation result,
// the two funding scripts for (ourKey, theirKey), the valid keys.
func c17Env(dk []string, fs []string, vk [][]byte) string {
	j := func(xs []string) string {
		if len(xs) == 0 {
			return "-"
		}
		return strings.Join(xs, ";")
	}
	var v []string
	seen := map[string]bool{}
	for _, k := range vk {
		if _, err := btcec.ParsePubKey(k); err == nil && !seen[string(k)] {
			seen[string(k)] = true
			v = append(v, c17Hex(k))
		}
	}
	return "DK=" + j(dk) + " FS=" + j(fs) + " VK=" + j(v)
}

// c17CallEnv builds the env for a derive/prep/open call of `p` on (our, m).
func c17CallEnv(p *c17Party, our order.Order, m *order.MatchedOrder) string {
	loc := our.Details().MultiSigKeyLocator
	dkRes := "err"
	var ourKey []byte
	if kd, err := p.wallet.DeriveKey(context.Background(), &loc); err == nil {
		ourKey = kd.PubKey.SerializeCompressed()
		dkRes = c17Hex(ourKey)
	}
	dk := []string{fmt.Sprintf("%d/%d/%s", uint32(loc.Family), loc.Index, dkRes)}
	// a sidecar recipient uses the ticket's key instead of the wallet's
	if b, ok := our.(*order.Bid); ok && b.SidecarTicket != nil && b.SidecarTicket.Recipient != nil {
		ourKey = nil
		if k := b.SidecarTicket.Recipient.MultiSigPubKey; k != nil {
			ourKey = k.SerializeCompressed()
		}
	}
	var fs []string
	if ourKey != nil {
		amt := int64(m.UnitsFilled.ToSatoshis())
		w, t := c17Scripts(ourKey, m.MultiSigKey[:], amt)
		fs = append(fs, fmt.Sprintf("0/%s/%s/%s", c17Hex(ourKey), c17Hex(m.MultiSigKey[:]), w),
			fmt.Sprintf("1/%s/%s/%s", c17Hex(ourKey), c17Hex(m.MultiSigKey[:]), t))
	}
	return c17Env(dk, fs, nil)
}

// ---------------------------------------------------------------- cases

type c17Layout struct {
	NOuts   int  `json:"n_outs"`
	FundIdx int  `json:"fund_idx"`
	DupIdx  int  `json:"dup_idx"` // second copy of the funding script, -1 = none
	Decoy   bool `json:"decoy"`   // the other script type (p2wsh<->taproot) for the same keys placed first
	Missing bool `json:"missing"` // dishonest layout: no funding output at all
}

type c17Sidecar struct {
	OfferLease uint32 `json:"offer_lease"`
	OfferPush  int64  `json:"offer_push"`
	OfferUnann bool   `json:"offer_unann"`
	OfferZC    bool   `json:"offer_zc"`
	OfferCap   int64  `json:"offer_cap"`
	RecIdx     uint32 `json:"rec_idx"`
	SelfRecv   bool   `json:"self_recv"` // provider's own node is the recipient
	ExtraTix   int    `json:"extra_tickets"`
	// the bid's amount / min units match in units when they are not the matched units (0 = same)
	BidAmtUnits uint32 `json:"bid_amt_units,omitempty"`
	BidMinUnits uint32 `json:"bid_min_units,omitempty"`
}

type c17PairCase struct {
	Kind        string      `json:"kind"` // "pair"
	AskNonce    string      `json:"ask_nonce"`
	BidNonce    string      `json:"bid_nonce"`
	Lease       uint32      `json:"lease"`
	AskChanType uint8       `json:"ask_chan_type"`
	BidChanType uint8       `json:"bid_chan_type"`
	AskFam      uint32      `json:"ask_fam"`
	AskIdx      uint32      `json:"ask_idx"`
	BidFam      uint32      `json:"bid_fam"`
	BidIdx      uint32      `json:"bid_idx"`
	SelfBal     int64       `json:"self_bal"`
	Unann       bool        `json:"unann"`
	ZC          bool        `json:"zc"`
	Units       uint32      `json:"units"`
	HeightHint  uint32      `json:"height_hint"`
	Layout      c17Layout   `json:"layout"`
	Sidecar     *c17Sidecar `json:"sidecar,omitempty"`
	WalletFail  string      `json:"wallet_fail,omitempty"` // "asker" | "taker"
	BadKey      string      `json:"bad_key,omitempty"`     // "ask" | "bid": submitted multisig key is not a curve point
	AskVersion  uint32      `json:"ask_version,omitempty"` // order version + 1, 0 = VersionChannelType
	BidVersion  uint32      `json:"bid_version,omitempty"`
}

type c17Funding struct {
	r        *Run
	dir      string
	db       *clientdb.DB
	asker    *c17Party
	bidder   *c17Party // bidder, or sidecar provider
	recv     *c17Party // sidecar recipient
	signer   *c17Signer
	acctKey  *btcec.PublicKey
	acct     *account.Account
	addr     net.Addr
	batchID  []byte
	nViolate int

	connTimeouts int
}

func c17NewFunding(r *Run) *c17Funding {
	dir := "/dev/shm"
	if st, err := os.Stat(dir); err != nil || !st.IsDir() {
		dir = ""
	}
	tmp, err := os.MkdirTemp(dir, "funding-c17-")
	if err != nil {
		panic(err)
	}
	db, err := clientdb.New(tmp, clientdb.DBFilename)
	if err != nil {
		panic(err)
	}
	f := &c17Funding{r: r, dir: tmp, db: db}
	f.asker = c17NewParty("asker", 1, db)
	f.bidder = c17NewParty("bidder", 2, db)
	f.recv = c17NewParty("recipient", 3, db)
	f.signer = &c17Signer{MockSigner: test.NewMockSigner()}
	f.acctKey = c17KeyFor(9, 1, 1)
	f.acct = &account.Account{TraderKey: &keychain.KeyDescriptor{PubKey: f.acctKey}}
	f.addr, _ = net.ResolveTCPAddr("tcp4", "10.0.1.1:9735")
	f.batchID = c17KeyFor(9, 2, 2).SerializeCompressed()
	return f
}

func (f *c17Funding) close() {
	_ = f.db.Close()
	_ = os.RemoveAll(f.dir)
}

func (f *c17Funding) violate(what, key string, c *c17PairCase) {
	f.r.Count("oracle/violation")
	f.r.Violate(what, key, c)
}

// c17Ver decodes the version field of a pair case (version+1, 0 = current).
func c17Ver(v uint32) int {
	if v == 0 {
		return int(order.VersionChannelType)
	}
	return int(v) - 1
}

func c17Nonce(s string) order.Nonce {
	var n order.Nonce
	b, _ := hex.DecodeString(s)
	copy(n[:], b)
	return n
}

// honestBatch plays the auctioneer: the submitted order as captured from the
// real Client.SubmitOrder is put into an OrderMatchPrepare for the counter
// party, sent over the (protobuf) wire and parsed by the real ParseRPCBatch.
func (f *c17Funding) honestBatch(ourNonce order.Nonce, req *auctioneerrpc.ServerSubmitOrderRequest,
	units uint32, tx *wire.MsgTx, hint uint32) (*order.Batch, error) {

	mo := &auctioneerrpc.MatchedOrder{}
	var lease uint32
	switch d := req.Details.(type) {
	case *auctioneerrpc.ServerSubmitOrderRequest_Ask:
		mo.MatchedAsks = []*auctioneerrpc.MatchedAsk{{Ask: d.Ask, UnitsFilled: units}}
		lease = d.Ask.LeaseDurationBlocks
	case *auctioneerrpc.ServerSubmitOrderRequest_Bid:
		mo.MatchedBids = []*auctioneerrpc.MatchedBid{{Bid: d.Bid, UnitsFilled: units}}
		lease = d.Bid.LeaseDurationBlocks
	}
	var buf bytes.Buffer
	if err := tx.Serialize(&buf); err != nil {
		return nil, err
	}
	msg := &auctioneerrpc.OrderMatchPrepare{
		MatchedMarkets: map[uint32]*auctioneerrpc.MatchedMarket{
			lease: {
				MatchedOrders:     map[string]*auctioneerrpc.MatchedOrder{hex.EncodeToString(ourNonce[:]): mo},
				ClearingPriceRate: 100,
			},
		},
		ExecutionFee:     &auctioneerrpc.ExecutionFee{BaseFee: 1, FeeRate: 1},
		BatchTransaction: buf.Bytes(),
		FeeRateSatPerKw:  253,
		BatchId:          f.batchID,
		BatchVersion:     uint32(order.DefaultBatchVersion),
		BatchHeightHint:  hint,
	}
	wireBytes, err := proto.Marshal(msg)
	if err != nil {
		return nil, err
	}
	var got auctioneerrpc.OrderMatchPrepare
	if err := proto.Unmarshal(wireBytes, &got); err != nil {
		return nil, err
	}
	return order.ParseRPCBatch(&got)
}

// expectedCommit is the English rule, written independently: script enforced
// if either side asks for it, taproot only if both do, otherwise negotiated.
func c17ExpectedCommit(a, b uint8) lnrpc.CommitmentType {
	switch {
	case a == 1 || b == 1:
		return lnrpc.CommitmentType_SCRIPT_ENFORCED_LEASE
	case a == 2 && b == 2:
		return lnrpc.CommitmentType_SIMPLE_TAPROOT
	}
	return lnrpc.CommitmentType_UNKNOWN_COMMITMENT_TYPE
}

// exec runs one pair case on the real code (2 or 3 real funding managers).
func (f *c17Funding) exec(c *c17PairCase) {
	r := f.r
	f.asker.reset()
	f.bidder.reset()
	f.recv.reset()
	r.Evaluations++
	unit := int64(order.BaseSupplyUnit)

	// ---- the two orders as their owners hold them
	askKit := order.NewKit(c17Nonce(c.AskNonce))
	askKit.LeaseDuration = c.Lease
	askKit.ChannelType = order.ChannelType(c.AskChanType)
	askKit.MultiSigKeyLocator = keychain.KeyLocator{Family: keychain.KeyFamily(c.AskFam), Index: c.AskIdx}
	askKit.Amt = btcutil.Amount(int64(c.Units) * unit)
	askKit.Units = order.SupplyUnit(c.Units)
	askKit.UnitsUnfulfilled = askKit.Units
	askKit.MinUnitsMatch = 1
	askKit.FixedRate = 100
	askKit.MaxBatchFeeRate = 253
	askKit.Version = order.VersionChannelType
	if c.AskVersion != 0 {
		askKit.Version = order.Version(c.AskVersion - 1)
	}
	copy(askKit.AcctKey[:], f.acctKey.SerializeCompressed())
	ask := &order.Ask{Kit: *askKit}

	bidKit := order.NewKit(c17Nonce(c.BidNonce))
	bidKit.LeaseDuration = c.Lease
	bidKit.ChannelType = order.ChannelType(c.BidChanType)
	bidKit.MultiSigKeyLocator = keychain.KeyLocator{Family: keychain.KeyFamily(c.BidFam), Index: c.BidIdx}
	bidKit.Amt = askKit.Amt
	bidKit.Units = askKit.Units
	bidKit.UnitsUnfulfilled = askKit.Units
	bidKit.MinUnitsMatch = askKit.Units
	bidKit.FixedRate = 100
	bidKit.MaxBatchFeeRate = 253
	bidKit.Version = order.VersionChannelType
	if c.BidVersion != 0 {
		bidKit.Version = order.Version(c.BidVersion - 1)
	}
	if sc := c.Sidecar; sc != nil && sc.BidAmtUnits != 0 {
		bidKit.Amt = btcutil.Amount(int64(sc.BidAmtUnits) * unit)
		bidKit.Units = order.SupplyUnit(sc.BidAmtUnits)
		bidKit.UnitsUnfulfilled = bidKit.Units
	}
	if sc := c.Sidecar; sc != nil && sc.BidMinUnits != 0 {
		bidKit.MinUnitsMatch = order.SupplyUnit(sc.BidMinUnits)
	}
	copy(bidKit.AcctKey[:], f.acctKey.SerializeCompressed())
	bid := &order.Bid{
		Kit: *bidKit, SelfChanBalance: btcutil.Amount(c.SelfBal),
		UnannouncedChannel: c.Unann, ZeroConfChannel: c.ZC,
	}

	// ---- server params (order.manager.PrepareOrder): multisig + node key
	askParams := &order.ServerOrderParams{NodePubkey: f.asker.node33, Addrs: []net.Addr{f.addr}}
	askMS := c17KeyFor(f.asker.wallet.seed, c.AskFam, c.AskIdx).SerializeCompressed()
	copy(askParams.MultiSigKey[:], askMS)
	bidParams := &order.ServerOrderParams{NodePubkey: f.bidder.node33}
	taker := f.bidder // the party that registers the shim and receives the channel
	var (
		ticket  *sidecar.Ticket
		pending map[order.Nonce]*sidecar.Ticket
	)
	if sc := c.Sidecar; sc == nil {
		copy(bidParams.MultiSigKey[:], c17KeyFor(f.bidder.wallet.seed, c.BidFam, c.BidIdx).SerializeCompressed())
		r.Count("pair/plain")
	} else {
		r.Count("pair/sidecar")
		if !sc.SelfRecv {
			taker = f.recv
		}
		// the offer is made (and signed) by the provider's real OfferSidecar
		var err error
		tpl := &order.Bid{UnannouncedChannel: sc.OfferUnann, ZeroConfChannel: sc.OfferZC}
		ticket, err = f.bidder.mgr.OfferSidecar(context.Background(), btcutil.Amount(sc.OfferCap),
			btcutil.Amount(sc.OfferPush), sc.OfferLease, f.acct.TraderKey, tpl, false)
		r.Emit("C17 offer "+c17FmtTicket(&sidecar.Ticket{Offer: sidecar.Offer{Capacity: btcutil.Amount(sc.OfferCap),
			PushAmt: btcutil.Amount(sc.OfferPush), LeaseDurationBlocks: sc.OfferLease,
			UnannouncedChannel: sc.OfferUnann, ZeroConfChannel: sc.OfferZC}}), "offer="+c17b(err == nil))
		if err != nil {
			r.Count("sidecar/offer-rejected")
			return
		}
		ticket.Order = nil
		ticket.State = sidecar.StateRegistered
		ticket.Recipient = &sidecar.Recipient{
			NodePubKey:       taker.nodeKey,
			MultiSigPubKey:   c17KeyFor(taker.wallet.seed, uint32(keychain.KeyFamilyMultiSig), sc.RecIdx),
			MultiSigKeyIndex: sc.RecIdx,
		}
		bid.SidecarTicket = ticket

		// the gate every sidecar bid passes before it is submitted
		consistent := sc.OfferLease == c.Lease && sc.OfferPush == c.SelfBal && sc.OfferUnann == c.Unann &&
			sc.OfferZC == c.ZC
		gateErr := order.VerifC17SidecarGate(f.signer, ticket, bid, f.acct)
		r.Emit(fmt.Sprintf("C17 gate %s %s %d %d", c17FmtTicket(&sidecar.Ticket{Offer: ticket.Offer}),
			c17FmtOrder(&order.Bid{Kit: bid.Kit, SelfChanBalance: bid.SelfChanBalance,
				UnannouncedChannel: bid.UnannouncedChannel, ZeroConfChannel: bid.ZeroConfChannel}),
			int64(bid.Amt), uint64(bid.MinUnitsMatch)), "gate="+c17b(gateErr == nil))
		if gateErr != nil {
			r.Count("sidecar/gate-rejected")
			if consistent && sc.OfferCap == int64(bid.Amt) && sc.BidMinUnits == 0 && sc.BidAmtUnits == 0 {
				f.violate("a sidecar bid identical to its ticket's offer is refused: "+gateErr.Error(),
					"C17/sidecar-gate", c)
			}
			return
		}
		if consistent {
			r.Count("sidecar/consistent")
		} else {
			r.Count("sidecar/gate-passed-inconsistent")
		}
		copy(bidParams.NodePubkey[:], ticket.Recipient.NodePubKey.SerializeCompressed())
		copy(bidParams.MultiSigKey[:], ticket.Recipient.MultiSigPubKey.SerializeCompressed())

		// the recipient's copy of the ordered ticket (+ unrelated ones)
		cp := *ticket
		cpOrder := *ticket.Order
		cp.Order = &cpOrder
		pending = map[order.Nonce]*sidecar.Ticket{bid.Nonce(): &cp}
		for i := 0; i < sc.ExtraTix; i++ {
			other, _ := sidecar.NewTicket(100000, 0, 144, f.acctKey, false, false, false)
			var n order.Nonce
			n[0], n[1] = 0xee, byte(i+1)
			other.Order = &sidecar.Order{BidNonce: n}
			pending[n] = other
		}
	}
	switch c.BadKey {
	case "ask":
		askParams.MultiSigKey = [33]byte{2, 0xff, 0xff, 0xff, 0xff, 0xff, 0xff, 0xff, 0xff, 0xff, 0xff, 0xff, 0xff,
			0xff, 0xff, 0xff, 0xff, 0xff, 0xff, 0xff, 0xff, 0xff, 0xff, 0xff, 0xff, 0xff, 0xff, 0xff, 0xff, 0xfe, 0xff, 0xff, 0xff}
	case "bid":
		bidParams.MultiSigKey = [33]byte{5, 1, 2, 3}
	}

	// ---- the batch transaction (honest auctioneer: funding output with the
	// script of the commitment type both orders imply, value = capacity)
	commit := c17ExpectedCommit(c.AskChanType, c.BidChanType)
	chanSize := int64(c.Units) * unit
	wScr, tScr := c17Scripts(askParams.MultiSigKey[:], bidParams.MultiSigKey[:], chanSize)
	fundHex, otherHex := wScr, tScr
	if commit == lnrpc.CommitmentType_SIMPLE_TAPROOT {
		fundHex, otherHex = tScr, wScr
	}
	var fundScript, otherScript []byte
	if fundHex != "err" {
		fundScript, _ = hex.DecodeString(fundHex)
	}
	if otherHex != "err" {
		otherScript, _ = hex.DecodeString(otherHex)
	}
	tx := wire.NewMsgTx(2)
	tx.AddTxIn(&wire.TxIn{PreviousOutPoint: wire.OutPoint{Index: uint32(c.Units)}})
	for i := 0; i < c.Layout.NOuts; i++ {
		scr := []byte{0x00, 0x14, byte(i), byte(c.Units), 3, 4, 5, 6, 7, 8, 9, 10, 11, 12, 13, 14, 15, 16, 17, 18, 19, byte(c.Lease)}
		val := int64(1000 + i)
		switch {
		case c.Layout.Missing:
		case i == c.Layout.FundIdx || i == c.Layout.DupIdx:
			if fundScript != nil {
				scr, val = fundScript, chanSize+c.SelfBal
			}
		case c.Layout.Decoy && i == 0 && otherScript != nil:
			scr = otherScript
		}
		tx.AddTxOut(wire.NewTxOut(val, scr))
	}
	txid := tx.TxHash()

	// ---- what each side sees of the other
	vk := [][]byte{askParams.MultiSigKey[:], askParams.NodePubkey[:], bidParams.MultiSigKey[:], bidParams.NodePubkey[:]}
	penv := c17Env(nil, nil, vk)
	project := func(o order.Order, p *order.ServerOrderParams, ourNonce order.Nonce, op string) *order.Batch {
		out := "err"
		var batch *order.Batch
		req, err := auctioneer.VerifC17SubmitCapture(o, p)
		if err == nil && req != nil {
			batch, err = f.honestBatch(ourNonce, req, c.Units, tx, c.HeightHint)
			if err == nil {
				m := batch.MatchedOrders[ourNonce][0]
				if m.Order.Nonce() != o.Nonce() {
					out = "randomnonce"
					batch = nil
				} else {
					out = "ok " + c17FmtMatched(m)
				}
			}
		}
		if out == "err" {
			batch = nil
		}
		r.Emit(fmt.Sprintf("C17 %s %s %s %d %s", op, c17Hex(p.MultiSigKey[:]), c17Hex(p.NodePubkey[:]), c.Units, penv), out)
		r.Count("proj/" + strings.Fields(out)[0])
		return batch
	}
	// the bidder receives the ask, the asker receives the bid
	batchTaker := project(ask, askParams, bid.Nonce(), "projask "+c17FmtKit(&ask.Kit))
	batchAsker := project(bid, bidParams, ask.Nonce(), "projbid "+c17FmtOrder(bid))
	if batchTaker == nil || batchAsker == nil {
		// "for every matched ask/bid pair": an honest, well-formed order
		// (known channel type, valid keys, non-zero nonce; any order version,
		// any lease duration) must reach the counterparty as submitted -
		// otherwise one side derives nothing for the pair.
		zero := strings.Repeat("00", 32)
		if c.BadKey == "" && c.AskChanType <= 2 && c.BidChanType <= 2 && c.AskNonce != zero && c.BidNonce != zero {
			who := "the bidder does not receive the ask"
			if batchTaker != nil {
				who = "the asker does not receive the bid"
			}
			f.violate(fmt.Sprintf("honest pair (ask version %d, bid version %d, lease %d): %s as submitted (refused / altered by "+
				"SubmitOrder or ParseRPCBatch), so no funding parameters are derived for it", c17Ver(c.AskVersion),
				c17Ver(c.BidVersion), c.Lease, who), "C17/projection", c)
		}
		return
	}
	mAsk := batchTaker.MatchedOrders[bid.Nonce()][0]
	mBid := batchAsker.MatchedOrders[ask.Nonce()][0]
	txStr := c17FmtTx(batchAsker.BatchTX)

	switch c.WalletFail {
	case "asker":
		f.asker.wallet.fail = true
	case "taker":
		taker.wallet.fail = true
	}

	// ---- asker: BatchChannelSetup with the real DB
	if err := f.db.SubmitOrder(ask); err != nil {
		r.Count("db/ask-exists")
	}
	askerOut := "err"
	func() {
		defer func() {
			if p := recover(); p != nil {
				askerOut = "panic"
			}
		}()
		_, err := f.asker.mgr.BatchChannelSetup(batchAsker)
		switch {
		case len(f.asker.base.opens) == 1:
			q := f.asker.base.opens[0]
			askerOut = fmt.Sprintf("ok node=%s lfa=%d push=%d ct=%d priv=%s zc=%s %s", c17Hex(q.NodePubkey),
				q.LocalFundingAmount, q.PushSat, int32(q.CommitmentType), c17b(q.Private), c17b(q.ZeroConf),
				c17FmtShim(q.FundingShim.GetChanPointShim()))
		case err == nil:
			askerOut = "none"
		}
	}()
	r.Emit(fmt.Sprintf("C17 open %s %s %s %d %s", c17FmtOrder(ask), c17FmtMatched(mBid), txStr, c.HeightHint,
		c17CallEnv(f.asker, ask, mBid)), askerOut)
	r.Count("open/" + strings.Fields(askerOut)[0])

	// ---- taker side: PrepChannelFunding
	prep := func(p *c17Party, our order.Order, fetch order.Fetcher) string {
		out := "err"
		p.base.peers = [][33]byte{mAsk.NodeKey}
		func() {
			defer func() {
				if e := recover(); e != nil {
					out = "panic"
				}
			}()
			err := p.mgr.PrepChannelFunding(batchTaker, fetch)
			switch {
			case err != nil:
			case len(p.base.shims) == 1 && len(p.regs) == 1:
				g := p.regs[0]
				n := g.bid.Nonce()
				out = fmt.Sprintf("ok %s reg=%s %s %d %d %s %s", c17FmtShim(p.base.shims[0].GetChanPointShim()),
					c17Hex(g.pid[:]), c17Hex(n[:]), int64(g.bid.SelfChanBalance), uint8(g.bid.ChannelType),
					c17b(g.bid.UnannouncedChannel), c17b(g.bid.ZeroConfChannel))
			case len(p.base.shims) == 0 && len(p.regs) == 0:
				out = "none"
			}
		}()
		r.Emit(fmt.Sprintf("C17 prep %s %s %s %s %d %s", c17Hex(p.node33[:]), c17FmtOrder(our), c17FmtMatched(mAsk),
			txStr, c.HeightHint, c17CallEnv(p, our, mAsk)), out)
		r.Count("prep/" + strings.Fields(out)[0])
		return out
	}
	var takerOut string
	takerOrder := order.Order(bid)
	if c.Sidecar == nil {
		takerOut = prep(f.bidder, bid, func(n order.Nonce) (order.Order, error) {
			if n == bid.Nonce() {
				return bid, nil
			}
			return nil, clientdb.ErrNoOrder
		})
	} else {
		// provider: holds the real bid; must not register anything unless it is its own recipient
		if !c.Sidecar.SelfRecv {
			provOut := prep(f.bidder, bid, func(n order.Nonce) (order.Order, error) { return bid, nil })
			if provOut != "none" {
				f.violate("sidecar provider registered a funding shim for a channel that goes to another node: "+provOut,
					"C17/provider-registers", c)
			}
		}
		// recipient: derives its order from the ticket
		var dummy order.Order
		sideOut := "err"
		func() {
			defer func() {
				if e := recover(); e != nil {
					sideOut = "panic"
				}
			}()
			d, err := pool.VerifC17SidecarAsOrder(pending, bid.Nonce())
			if err == nil {
				dummy = d
				sideOut = "ok " + c17FmtOrder(d)
			}
		}()
		var tix []string
		// Go map order is irrelevant here: exactly one ticket carries the nonce
		tix = append(tix, c17FmtTicket(pending[bid.Nonce()]))
		for n, t := range pending {
			if n != bid.Nonce() {
				tix = append(tix, c17FmtTicket(t))
			}
		}
		nn := bid.Nonce()
		// unrelated tickets first or last must not matter: alternate
		if c.Sidecar.ExtraTix%2 == 1 {
			tix = append(tix[1:], tix[0])
		}
		r.Emit(fmt.Sprintf("C17 sidecar %s %s", c17Hex(nn[:]), strings.Join(tix, " ")), sideOut)
		if dummy == nil {
			return
		}
		takerOrder = dummy
		takerOut = prep(taker, dummy, func(n order.Nonce) (order.Order, error) {
			return pool.VerifC17SidecarAsOrder(pending, n)
		})
	}

	// ================= oracle: the property's English text on the real outputs =================
	if c.Layout.Missing || c.WalletFail != "" || fundScript == nil {
		// not an honest, executable batch: correspondence only
		r.Count("pair/dishonest-or-failing")
		return
	}
	if len(f.asker.base.opens) != 1 || len(taker.base.shims) != 1 || len(taker.regs) != 1 {
		f.violate(fmt.Sprintf("honest batch but asker sent %d open requests (%s), taker registered %d shims (%s)",
			len(f.asker.base.opens), askerOut, len(taker.base.shims), takerOut), "C17/no-derivation", c)
		return
	}
	q := f.asker.base.opens[0]
	sa := q.FundingShim.GetChanPointShim()
	sb := taker.base.shims[0].GetChanPointShim()
	reg := taker.regs[0]
	var bad []string
	chk := func(ok bool, format string, a ...interface{}) {
		if !ok {
			bad = append(bad, fmt.Sprintf(format, a...))
		}
	}
	an, bn := ask.Nonce(), bid.Nonce()
	wantPid := sha256.Sum256(append(append([]byte{}, an[:]...), bn[:]...))
	chk(bytes.Equal(sa.PendingChanId, sb.PendingChanId), "pending channel id: maker %x taker %x", sa.PendingChanId, sb.PendingChanId)
	chk(bytes.Equal(sa.PendingChanId, wantPid[:]), "pending channel id is not sha256(askNonce||bidNonce)")
	chk(reg.pid == wantPid, "acceptor registered pending id %x", reg.pid[:])
	chk(bytes.Equal(sa.ChanPoint.GetFundingTxidBytes(), txid[:]) && bytes.Equal(sb.ChanPoint.GetFundingTxidBytes(), txid[:]),
		"funding txid differs from the batch tx")
	chk(sa.ChanPoint.OutputIndex == sb.ChanPoint.OutputIndex, "funding output index: maker %d taker %d",
		sa.ChanPoint.OutputIndex, sb.ChanPoint.OutputIndex)
	firstIdx := -1
	for i, o := range tx.TxOut {
		if bytes.Equal(o.PkScript, fundScript) {
			firstIdx = i
			break
		}
	}
	chk(int(sa.ChanPoint.OutputIndex) == firstIdx, "maker's outpoint %d is not the funding output %d",
		sa.ChanPoint.OutputIndex, firstIdx)
	wantCap := chanSize + c.SelfBal
	chk(sa.Amt == wantCap && sb.Amt == wantCap, "capacity: maker %d taker %d, want units*unit+self balance = %d", sa.Amt, sb.Amt, wantCap)
	chk(q.LocalFundingAmount == wantCap, "local funding amount %d, want %d", q.LocalFundingAmount, wantCap)
	chk(bytes.Equal(sa.LocalKey.RawKeyBytes, sb.RemoteKey) && bytes.Equal(sa.RemoteKey, sb.LocalKey.RawKeyBytes),
		"funding keys are not mirrored")
	chk(bytes.Equal(sa.LocalKey.RawKeyBytes, askParams.MultiSigKey[:]) && bytes.Equal(sb.LocalKey.RawKeyBytes, bidParams.MultiSigKey[:]),
		"funding keys are not the submitted multisig keys")
	wantThaw := c.Lease
	if c.AskChanType == 1 || c.BidChanType == 1 {
		wantThaw += c.HeightHint
	}
	chk(sa.ThawHeight == sb.ThawHeight, "thaw height: maker %d taker %d", sa.ThawHeight, sb.ThawHeight)
	chk(sa.ThawHeight == wantThaw, "maker thaw height %d, want %d", sa.ThawHeight, wantThaw)
	takerCommit, takerMusig := order.DetermineCommitmentType(takerOrder.Details(), mAsk.Order.Details())
	chk(q.CommitmentType == takerCommit, "commitment type: maker %v taker %v", q.CommitmentType, takerCommit)
	chk(q.CommitmentType == commit, "maker commitment type %v, want %v", q.CommitmentType, commit)
	chk(sa.Musig2 == sb.Musig2 && sb.Musig2 == takerMusig && sa.Musig2 == (commit == lnrpc.CommitmentType_SIMPLE_TAPROOT),
		"musig2 flag: maker %v taker %v", sa.Musig2, sb.Musig2)
	chk(q.PushSat == c.SelfBal, "push amount %d, bid's self channel balance %d", q.PushSat, c.SelfBal)
	chk(q.Private == c.Unann, "private flag %v, bid unannounced %v", q.Private, c.Unann)
	chk(q.ZeroConf == c.ZC, "zero-conf flag %v, bid zero-conf %v", q.ZeroConf, c.ZC)
	chk(bytes.Equal(q.NodePubkey, bidParams.NodePubkey[:]), "channel opened to another node than the taker's")
	// what the taker's acceptor demands is what the bid demands
	chk(int64(reg.bid.SelfChanBalance) == c.SelfBal && reg.bid.UnannouncedChannel == c.Unann &&
		reg.bid.ZeroConfChannel == c.ZC && reg.bid.Nonce() == bn,
		"acceptor expectation (push %d unannounced %v zeroconf %v) differs from the bid (push %d unannounced %v zeroconf %v)",
		int64(reg.bid.SelfChanBalance), reg.bid.UnannouncedChannel, reg.bid.ZeroConfChannel, c.SelfBal, c.Unann, c.ZC)

	// the maker's request as lnd presents it to the taker's acceptor
	var lnwCT *lnwallet.CommitmentType
	switch q.CommitmentType {
	case lnrpc.CommitmentType_SCRIPT_ENFORCED_LEASE:
		t := lnwallet.CommitmentTypeScriptEnforcedLease
		lnwCT = &t
	case lnrpc.CommitmentType_SIMPLE_TAPROOT:
		t := lnwallet.CommitmentTypeSimpleTaproot
		lnwCT = &t
	}
	var flags uint32
	if !q.Private {
		flags = uint32(lnwire.FFAnnounceChannel)
	}
	areq := &lndclient.AcceptorRequest{PendingChanID: wantPid, PushAmt: btcutil.Amount(q.PushSat * 1000),
		CommitmentType: lnwCT, ChannelFlags: flags, WantsZeroConf: q.ZeroConf}
	resp, _ := taker.acc.VerifC17Accept(areq)
	admitted := resp != nil && resp.Accept && (!q.ZeroConf || resp.ZeroConf)
	typeCompatible := reg.bid.ChannelType == order.ChannelTypePeerDependent ||
		(reg.bid.ChannelType == order.ChannelTypeScriptEnforced && q.CommitmentType == lnrpc.CommitmentType_SCRIPT_ENFORCED_LEASE) ||
		(reg.bid.ChannelType == order.ChannelTypeSimpleTaproot && q.CommitmentType == lnrpc.CommitmentType_SIMPLE_TAPROOT)
	if c.SelfBal >= 0 && typeCompatible && len(bad) == 0 {
		r.Count("pair/honest-open-admitted")
		chk(admitted, "the taker's acceptor refuses the honest maker's channel: %+v", resp)
	} else if !typeCompatible {
		r.Count("pair/type-incompatible")
	}

	if len(bad) > 0 {
		key := "C17/shims-disagree"
		if c.Sidecar != nil {
			sc := c.Sidecar
			if sc.OfferLease == 0 && c.Lease != 0 && sc.OfferPush == c.SelfBal && sc.OfferUnann == c.Unann && sc.OfferZC == c.ZC {
				// residual of the repaired gate: an offer without a lease duration
				key = "C17/sidecar-offer-lease-unset"
			} else if !(sc.OfferLease == c.Lease && sc.OfferPush == c.SelfBal && sc.OfferUnann == c.Unann && sc.OfferZC == c.ZC) {
				key = "C17/sidecar-offer-mismatch"
			} else if c.BidChanType != 0 {
				key = "C17/sidecar-nondefault-type" // outside the quantifier
			}
		}
		if key == "C17/sidecar-nondefault-type" {
			r.Count("sidecar/nondefault-type-disagrees")
		} else {
			f.violate("maker and taker disagree: "+strings.Join(bad, "; "), key, c)
		}
	} else {
		r.Count("pair/agree")
		r.Distinct(fmt.Sprintf("%d|%d|%v|%v|%v|%d|%v|%v", c.AskChanType, c.BidChanType, c.SelfBal != 0, c.Unann, c.ZC,
			c.Layout.FundIdx, c.Layout.DupIdx >= 0, c.Sidecar != nil) + c.AskNonce[:8])
		r.Sample(c)
	}
}

// ---------------------------------------------------------------- generators

func (f *c17Funding) gen() *c17PairCase {
	rng := f.r.Rng
	c := &c17PairCase{Kind: "pair"}
	var an, bn [32]byte
	rng.Read(an[:])
	rng.Read(bn[:])
	switch rng.Intn(300) {
	case 0:
		an = [32]byte{}
	case 1:
		bn = [32]byte{}
	}
	c.AskNonce, c.BidNonce = hex.EncodeToString(an[:]), hex.EncodeToString(bn[:])
	leases := []uint32{144, 2016, 4032, 8064, 52560, rng.Uint32(), 0xffffffff - uint32(rng.Intn(1000))}
	c.Lease = leases[rng.Intn(len(leases))]
	c.AskChanType, c.BidChanType = uint8(rng.Intn(3)), uint8(rng.Intn(3))
	if rng.Intn(150) == 0 {
		c.AskChanType = 3
	}
	if rng.Intn(150) == 0 {
		c.BidChanType = uint8(3 + rng.Intn(250))
	}
	fams := []uint32{0, 0, 6, 1234, rng.Uint32()}
	c.AskFam, c.BidFam = fams[rng.Intn(len(fams))], fams[rng.Intn(len(fams))]
	idx := func() uint32 {
		if rng.Intn(4) == 0 {
			return rng.Uint32()
		}
		return uint32(rng.Intn(5000))
	}
	c.AskIdx, c.BidIdx = idx(), idx()
	switch rng.Intn(5) {
	case 0:
		c.Units = uint32(1 + rng.Intn(100000))
	default:
		c.Units = uint32(1 + rng.Intn(60))
	}
	capSat := int64(c.Units) * int64(order.BaseSupplyUnit)
	switch rng.Intn(5) {
	case 0, 1:
		c.SelfBal = 0
	case 2:
		c.SelfBal = int64(order.BaseSupplyUnit) * (1 + rng.Int63n(int64(c.Units)))
	case 3:
		c.SelfBal = 1 + rng.Int63n(capSat)
	default:
		c.SelfBal = capSat
	}
	c.Unann, c.ZC = rng.Intn(2) == 0, rng.Intn(2) == 0
	switch rng.Intn(6) {
	case 0:
		c.HeightHint = 0
	case 1:
		c.HeightHint = 0xffffffff - c.Lease + uint32(rng.Intn(3)) - 1 // around the uint32 wrap of lease+hint
	case 2:
		c.HeightHint = rng.Uint32()
	default:
		c.HeightHint = 700000 + uint32(rng.Intn(300000))
	}
	c.Layout.NOuts = 1 + rng.Intn(6)
	c.Layout.FundIdx = rng.Intn(c.Layout.NOuts)
	c.Layout.DupIdx = -1
	if c.Layout.FundIdx+1 < c.Layout.NOuts && rng.Intn(3) == 0 {
		c.Layout.DupIdx = c.Layout.FundIdx + 1 + rng.Intn(c.Layout.NOuts-c.Layout.FundIdx-1)
	}
	c.Layout.Decoy = c.Layout.FundIdx > 0 && rng.Intn(3) == 0
	c.Layout.Missing = rng.Intn(40) == 0
	if rng.Intn(60) == 0 {
		c.WalletFail = []string{"asker", "taker"}[rng.Intn(2)]
	}
	if rng.Intn(80) == 0 {
		c.BadKey = []string{"ask", "bid"}[rng.Intn(2)]
	}
	// order versions: the version is a caller supplied RPC field; older ones must not change the funding
	oldVersions := []uint32{1 + uint32(order.VersionDefault), 1 + uint32(order.VersionNodeTierMinMatch),
		1 + uint32(order.VersionLeaseDurationBuckets), 1 + uint32(order.VersionSelfChanBalance), 1 + uint32(order.VersionSidecarChannel)}
	if rng.Intn(5) == 0 {
		c.AskVersion = oldVersions[rng.Intn(len(oldVersions))]
	}
	if rng.Intn(5) == 0 {
		c.BidVersion = oldVersions[rng.Intn(len(oldVersions))]
	}
	if c.AskVersion != 0 || c.BidVersion != 0 {
		f.r.Count("pair/old-order-version")
	}
	if rng.Intn(10) < 3 {
		sc := &c17Sidecar{OfferLease: c.Lease, OfferPush: c.SelfBal, OfferUnann: c.Unann, OfferZC: c.ZC,
			OfferCap: capSat, RecIdx: idx(), SelfRecv: rng.Intn(10) == 0, ExtraTix: rng.Intn(3)}
		if rng.Intn(8) != 0 {
			c.BidChanType = 0 // the default type; all a ticket can express
		}
		dev := 6
		if f.r.Search {
			dev = 2
		}
		switch rng.Intn(dev * 6) {
		case 0:
			sc.OfferLease = leases[rng.Intn(4)] + 1
		case 1:
			sc.OfferPush = c.SelfBal / 2
			if c.SelfBal == 0 {
				sc.OfferPush = int64(order.BaseSupplyUnit)
			}
		case 2:
			sc.OfferUnann = !c.Unann
		case 3:
			sc.OfferZC = !c.ZC
		case 4:
			sc.OfferCap = capSat + int64(order.BaseSupplyUnit)
		case 5:
			sc.OfferLease = 0
		}
		// offer-vs-bid cube: for one compared term (or all of them) the offer's and the
		// bid's value are drawn independently from {0, x, y} - in particular the zero
		// value of one side against a non-zero value of the other
		if rng.Intn(3) == 0 {
			unitSat := int64(order.BaseSupplyUnit)
			pushVals := []int64{0, unitSat, capSat}
			if c.Units > 2 {
				pushVals[1] = unitSat * int64(1+rng.Intn(int(c.Units)-1))
			}
			leaseVals := []uint32{0, 144, 2016, 4032}[0:3]
			if rng.Intn(2) == 0 {
				leaseVals = []uint32{0, 2016, 4032}
			}
			term := rng.Intn(4)
			if term == 0 || term == 3 {
				c.SelfBal, sc.OfferPush = pushVals[rng.Intn(3)], pushVals[rng.Intn(3)]
			} else {
				sc.OfferPush = c.SelfBal
			}
			if term == 1 || term == 3 {
				c.Lease, sc.OfferLease = leaseVals[rng.Intn(3)], leaseVals[rng.Intn(3)]
			} else {
				sc.OfferLease = c.Lease
			}
			if term == 2 || term == 3 {
				c.Unann, sc.OfferUnann = rng.Intn(2) == 0, rng.Intn(2) == 0
				c.ZC, sc.OfferZC = rng.Intn(2) == 0, rng.Intn(2) == 0
			} else {
				sc.OfferUnann, sc.OfferZC = c.Unann, c.ZC
			}
			sc.OfferCap = capSat
			c.BidChanType = 0
			f.r.Count("sidecar/cube")
			switch {
			case (sc.OfferPush == 0) != (c.SelfBal == 0):
				f.r.Count("sidecar/cube/push-zero-vs-nonzero")
			case (sc.OfferLease == 0) != (c.Lease == 0):
				f.r.Count("sidecar/cube/lease-zero-vs-nonzero")
			case sc.OfferUnann != c.Unann || sc.OfferZC != c.ZC:
				f.r.Count("sidecar/cube/flag-differs")
			}
		}
		// the bid's own amount / min units against the offered capacity: only one of them off
		switch rng.Intn(dev * 8) {
		case 0:
			sc.BidMinUnits = c.Units + 1 + uint32(rng.Intn(3))
		case 1:
			if c.Units > 1 {
				sc.BidMinUnits = c.Units - 1
			}
		case 2:
			sc.BidAmtUnits = c.Units + 1 + uint32(rng.Intn(3))
		}
		c.Sidecar = sc
	}
	return c
}

// deriveOdd calls deriveFundingShim directly with inputs outside what an
// honest batch contains: every branch incl. the panic sites.
func (f *c17Funding) deriveOdd() {
	r, rng := f.r, f.r.Rng
	p := f.asker
	p.reset()
	mk := func(isBid bool) (order.Order, *order.Kit) {
		var n order.Nonce
		rng.Read(n[:])
		k := order.NewKit(n)
		k.LeaseDuration = []uint32{144, 2016, rng.Uint32(), 0xffffffff}[rng.Intn(4)]
		k.ChannelType = order.ChannelType([]uint8{0, 1, 2, 3, 255}[rng.Intn(5)])
		k.MultiSigKeyLocator = keychain.KeyLocator{Family: keychain.KeyFamily(rng.Uint32()), Index: rng.Uint32()}
		if !isBid {
			return &order.Ask{Kit: *k}, k
		}
		b := &order.Bid{Kit: *k, UnannouncedChannel: rng.Intn(2) == 0, ZeroConfChannel: rng.Intn(2) == 0}
		switch rng.Intn(4) {
		case 0:
			b.SelfChanBalance = btcutil.Amount(rng.Int63())
		case 1:
			b.SelfChanBalance = -btcutil.Amount(rng.Int63n(1e12))
		case 2:
			b.SelfChanBalance = btcutil.Amount(rng.Int63n(1e9))
		}
		return b, k
	}
	our, _ := mk(rng.Intn(2) == 0)
	their, _ := mk(rng.Intn(4) != 0)
	kind := "plain"
	if b, ok := our.(*order.Bid); ok && rng.Intn(2) == 0 {
		t, _ := sidecar.NewTicket(100000, 0, 144, f.acctKey, false, false, false)
		switch rng.Intn(3) {
		case 0:
			kind = "ticket-no-recipient"
		case 1:
			kind = "recipient-nil-key"
			t.Recipient = &sidecar.Recipient{NodePubKey: f.recv.nodeKey, MultiSigKeyIndex: rng.Uint32()}
		default:
			kind = "recipient"
			t.Recipient = &sidecar.Recipient{NodePubKey: f.recv.nodeKey,
				MultiSigPubKey: c17KeyFor(3, 0, 7), MultiSigKeyIndex: rng.Uint32()}
		}
		b.SidecarTicket = t
	}
	m := &order.MatchedOrder{Order: their, NodeKey: f.bidder.node33}
	copy(m.MultiSigKey[:], c17KeyFor(2, 5, uint32(rng.Intn(100))).SerializeCompressed())
	switch rng.Intn(8) {
	case 0:
		m.MultiSigKey = [33]byte{2, 0xff, 0xff, 0xff, 0xff, 0xff, 0xff, 0xff, 0xff, 0xff, 0xff, 0xff, 0xff,
			0xff, 0xff, 0xff, 0xff, 0xff, 0xff, 0xff, 0xff, 0xff, 0xff, 0xff, 0xff, 0xff, 0xff, 0xff, 0xff, 0xfe, 0xff, 0xff, 0xff}
		kind += "+bad-remote-key"
	case 1:
		m.UnitsFilled = 0
		kind += "+zero-units"
	}
	if m.UnitsFilled == 0 && !strings.Contains(kind, "zero-units") {
		m.UnitsFilled = order.SupplyUnit([]uint64{1, 7, uint64(rng.Uint32()), 1 << 45, 1<<64 - 1}[rng.Intn(5)])
	}
	p.wallet.fail = rng.Intn(10) == 0
	hint := []uint32{0, 800000, rng.Uint32(), 0xffffffff}[rng.Intn(4)]
	env := c17CallEnv(p, our, m)

	tx := wire.NewMsgTx(2)
	nOut := rng.Intn(4)
	// place one of the scripts (if any) at a random position
	var scripts [][]byte
	for _, e := range strings.Fields(env) {
		if strings.HasPrefix(e, "FS=") && e != "FS=-" {
			for _, ent := range strings.Split(e[3:], ";") {
				parts := strings.Split(ent, "/")
				if len(parts) == 4 && parts[3] != "err" {
					b, _ := hex.DecodeString(parts[3])
					scripts = append(scripts, b)
				}
			}
		}
	}
	for i := 0; i < nOut; i++ {
		scr := []byte{0x51, byte(i)}
		if len(scripts) > 0 && rng.Intn(2) == 0 {
			scr = scripts[rng.Intn(len(scripts))]
		}
		tx.AddTxOut(wire.NewTxOut(int64(i), scr))
	}
	out := "err"
	func() {
		defer func() {
			if e := recover(); e != nil {
				out = "panic"
			}
		}()
		shim, pid, err := p.mgr.VerifC17DeriveFundingShim(our, m, tx, hint)
		if err == nil {
			out = fmt.Sprintf("ok %s ret=%s", c17FmtShim(shim.GetChanPointShim()), c17Hex(pid[:]))
		}
	}()
	r.Emit(fmt.Sprintf("C17 derive %s %s %s %d %s", c17FmtOrder(our), c17FmtMatched(m), c17FmtTx(tx), hint, env), out)
	r.Count("derive/" + strings.Fields(out)[0])
	r.Count("derive/kind/" + kind)
	r.Evaluations++
}
