//go:build verif

package main

import (
	"fmt"

	"github.com/lightninglabs/pool/account"
	"github.com/lightninglabs/pool/order"
)

// c10BatchRound is one multi-object transaction of a batch scenario.
type c10BatchRound struct {
	Kind      string      `json:"kind"` // update-orders | batch
	NewOrders []*c10Order `json:"new_orders"`
	NewAccts  []*c10Acct  `json:"new_accts,omitempty"`
	Snap      *c10Snap    `json:"snap,omitempty"`
	Delete    bool        `json:"delete,omitempty"`
	// Superseded: this proposal is only staged; the next round re-proposes a batch with
	// the SAME batch id and different content (no delete/complete in between).
	Superseded    bool `json:"superseded,omitempty"`
	ReopenStaged  bool `json:"reopen_staged,omitempty"`
	ReopenApplied bool `json:"reopen_applied,omitempty"`
}

// c10BatchCase is a replayable multi-object scenario: initial accounts and
// orders, then rounds that each rewrite several of them in ONE transaction.
type c10BatchCase struct {
	Accts  []*c10Acct      `json:"accts"`
	Orders []*c10Order     `json:"orders"`
	Rounds []c10BatchRound `json:"rounds"`
}

// genBatchCase draws a scenario (all randomness happens here).
func (c *c10Run) genBatchCase() *c10BatchCase {
	r := c.r
	bc := &c10BatchCase{}
	seenA := map[string]bool{}
	for i := 0; i < 2+r.Rng.Intn(3); i++ {
		a := c.g.acct()
		if !seenA[a.TraderKey] {
			seenA[a.TraderKey] = true
			bc.Accts = append(bc.Accts, a)
		}
	}
	for i := 0; i < 2+r.Rng.Intn(4); i++ {
		bc.Orders = append(bc.Orders, c.g.orderSpec(r.Rng.Intn(2) == 0))
	}
	cur := map[string]*c10Order{}
	for _, o := range bc.Orders {
		cur[o.Nonce] = o
	}
	usedID := map[string]bool{}
	for round := 0; round < 1+r.Rng.Intn(3); round++ {
		if r.Rng.Intn(4) == 0 {
			rd := c10BatchRound{Kind: "update-orders", ReopenApplied: r.Rng.Intn(2) == 0}
			for _, o := range bc.Orders {
				if r.Rng.Intn(3) == 0 && len(rd.NewOrders) > 0 {
					continue
				}
				ns := c.kitRewrite(cur[o.Nonce])
				rd.NewOrders = append(rd.NewOrders, ns)
				cur[o.Nonce] = ns
			}
			bc.Rounds = append(bc.Rounds, rd)
			continue
		}
		first := c.g.snap()
		if usedID[first.BatchID] {
			continue
		}
		usedID[first.BatchID] = true
		proposals := 1
		if r.Rng.Intn(3) == 0 {
			proposals = 2 + r.Rng.Intn(2)
		}
		var rd c10BatchRound
		for p := 0; p < proposals; p++ {
			spec := first
			if p > 0 {
				// re-proposal: same batch id, everything else drawn afresh
				spec = c.g.snap()
				spec.BatchID = first.BatchID
			}
			spec.Accounts, spec.Orders = nil, nil
			rd = c10BatchRound{Kind: "batch", Snap: spec, Delete: r.Rng.Intn(5) == 0,
				ReopenStaged: r.Rng.Intn(3) == 0, ReopenApplied: r.Rng.Intn(2) == 0}
			if p < proposals-1 {
				rd.Superseded, rd.Delete = true, false
			}
			for _, a := range bc.Accts {
				if r.Rng.Intn(4) != 0 || len(rd.NewAccts) == 0 {
					ns := c.g.acct()
					ns.TraderKey, ns.Family, ns.Index = a.TraderKey, a.Family, a.Index
					rd.NewAccts = append(rd.NewAccts, ns)
				}
			}
			for _, o := range bc.Orders {
				if r.Rng.Intn(4) != 0 || len(rd.NewOrders) == 0 {
					// batch modifiers change base fields only (state, units, ... – what
					// every Modifier of the code base does): the snapshot format keeps only
					// those, the other terms of an own order are read from its live bucket
					old := cur[o.Nonce]
					ns := c.kitRewrite(old)
					ns.MinUnitsMatch, ns.ChannelType, ns.Allowed, ns.NotAllowed = old.MinUnitsMatch,
						old.ChannelType, old.Allowed, old.NotAllowed
					ns.IsPublic, ns.AuctionType = old.IsPublic, old.AuctionType
					rd.NewOrders = append(rd.NewOrders, ns)
				}
			}
			for i := range spec.Matched {
				spec.Matched[i].OurNonce = rd.NewOrders[r.Rng.Intn(len(rd.NewOrders))].Nonce
			}
			if p < proposals-1 {
				bc.Rounds = append(bc.Rounds, rd)
			}
		}
		if !rd.Delete {
			for _, ns := range rd.NewOrders {
				cur[ns.Nonce] = ns
			}
		}
		bc.Rounds = append(bc.Rounds, rd)
	}
	return bc
}

// batchDB drives the real multi-object write paths, in which several
// accounts and orders are written inside ONE bbolt transaction:
// StorePendingBatch (stages k orders + m accounts + the snapshot),
// MarkBatchComplete (applies all of them), DeletePendingBatch and UpdateOrders.
// After every step every stored account and order (participants and
// bystanders) is read back and compared with what was last written for it;
// again after close/reopen. The raw stored bytes of every participant go to
// the model.
func (c *c10Run) batchDB(bc *c10BatchCase) {
	r := c.r
	replay := c10Case{Kind: "batch", Batch: bc}
	c.nDB++
	path := fmt.Sprintf("%s/b%d", c.dir, c.nDB)
	db := c.openDB(path)
	defer func() { db.Close() }()

	accts := map[string]*c10Acct{}
	var acctKeys []string
	orders := map[string]*c10Order{}
	var nonces []string

	for _, a := range bc.Accts {
		if db.AddAccount(a.build()) != nil {
			return
		}
		accts[a.TraderKey] = a
		acctKeys = append(acctKeys, a.TraderKey)
	}
	for _, o := range bc.Orders {
		if db.SubmitOrder(o.build()) != nil {
			return
		}
		orders[o.Nonce] = o
		nonces = append(nonces, o.Nonce)
	}
	if len(acctKeys) < 1 || len(nonces) < 1 {
		return
	}

	// checkAll compares the whole visible state with the expectation and
	// sends the raw bytes of the `emit` objects to the model.
	checkAll := func(step string, emitA, emitO map[string]bool) {
		for _, k := range acctKeys {
			want := accts[k].build()
			y, err := db.Account(want.TraderKey.PubKey)
			r.Evaluations++
			if err != nil || renderAcct(y) != renderAcct(want) {
				got := fmt.Sprint(err)
				if err == nil {
					got = renderAcct(y)
				}
				key, what := "C10/batch-acct", "account written in a multi-object transaction does not read back equal"
				if !emitA[k] {
					key, what = "C10/batch-acct-crosstalk", "a multi-object transaction altered an account it did not write"
				}
				r.Count("oracle/violation")
				r.Violate(fmt.Sprintf("%s (%s): expected %s, read %s", what, step, renderAcct(want), got),
					key, replay)
				continue
			}
			if emitA[k] {
				raw := db.VerifC10RawAccount(unhexOr(k))
				exp, _ := goDeAcct(raw)
				r.Emit("C10 acct "+hx(raw), exp)
				r.Distinct(exp)
			}
		}
		for _, n := range nonces {
			want := orders[n].build()
			y, err := db.GetOrder(order.Nonce(arr32(n)))
			r.Evaluations++
			if err != nil || renderOrder(y) != renderOrder(want) {
				got := fmt.Sprint(err)
				if err == nil {
					got = renderOrder(y)
				}
				key, what := "C10/batch-order", "order written in a multi-object transaction does not read back equal"
				if !emitO[n] {
					key, what = "C10/batch-order-crosstalk", "a multi-object transaction altered an order it did not write"
				}
				r.Count("oracle/violation")
				r.Violate(fmt.Sprintf("%s (%s): expected %s, read %s", what, step, renderOrder(want), got),
					key, replay)
				continue
			}
			if emitO[n] {
				base, mu, tlvB, tier, ok := db.VerifC10RawOrder(order.Nonce(arr32(n)))
				if ok {
					rec := &c10OrderRec{base, mu, tlvB, tier}
					exp := "ok " + renderOrder(y) + " re=" + b2s(c.goReOrder(y, rec))
					r.Emit("C10 order "+n+" "+rec.tokens(), exp)
					r.Distinct(exp)
				}
			}
		}
		if all, err := db.Accounts(); err != nil || len(all) != len(acctKeys) {
			r.Count("oracle/violation")
			r.Violate(fmt.Sprintf("Accounts() returned %d (err %v) after %s, %d stored", len(all), err, step,
				len(acctKeys)), "C10/batch-acct-list", nil)
		}
		if all, err := db.GetOrders(); err != nil || len(all) != len(nonces) {
			r.Count("oracle/violation")
			r.Violate(fmt.Sprintf("GetOrders() returned %d (err %v) after %s, %d stored", len(all), err, step,
				len(nonces)), "C10/batch-order-list", nil)
		}
	}
	reopen := func() {
		db.Close()
		db = c.openDB(path)
		r.Count("batchdb/reopen")
	}
	none := map[string]bool{}

	for _, rd := range bc.Rounds {
		if rd.Kind == "update-orders" {
			// UpdateOrders: several orders in one transaction
			var ns []order.Nonce
			var mods [][]order.Modifier
			emit := map[string]bool{}
			for _, spec := range rd.NewOrders {
				nk := *spec.build().Details()
				ns = append(ns, order.Nonce(arr32(spec.Nonce)))
				mods = append(mods, []order.Modifier{func(kit *order.Kit) { *kit = nk }})
			}
			if err := db.UpdateOrders(ns, mods); err != nil {
				r.Count("batchdb/update-orders-error")
				continue
			}
			for _, spec := range rd.NewOrders {
				orders[spec.Nonce] = spec
				emit[spec.Nonce] = true
			}
			r.Count("batchdb/update-orders")
			if len(ns) >= 2 {
				r.Count("batchdb/update-orders-multi")
			}
			checkAll("UpdateOrders", none, emit)
			if rd.ReopenApplied {
				reopen()
				checkAll("UpdateOrders+reopen", none, emit)
			}
			continue
		}

		// ---- a batch -----------------------------------------------------------
		spec := *rd.Snap
		spec.Accounts, spec.Orders = nil, nil
		var bAccts []*account.Account
		var aMods [][]account.Modifier
		for _, ns := range rd.NewAccts {
			nv := ns.build()
			bAccts = append(bAccts, accts[ns.TraderKey].build())
			aMods = append(aMods, []account.Modifier{func(a *account.Account) {
				tk := a.TraderKey
				*a = *nv
				a.TraderKey = tk
			}})
			spec.Accounts = append(spec.Accounts, c10SnapAcct{ns.TraderKey, ns})
		}
		var bNonces []order.Nonce
		var oMods [][]order.Modifier
		for _, ns := range rd.NewOrders {
			nk := *ns.build().Details()
			bNonces = append(bNonces, order.Nonce(arr32(ns.Nonce)))
			oMods = append(oMods, []order.Modifier{func(kit *order.Kit) { *kit = nk }})
			spec.Orders = append(spec.Orders, ns)
		}
		snap := spec.build()
		batch := &order.Batch{
			ID: snap.BatchID, Version: snap.Version, MatchedOrders: snap.MatchedOrders,
			ExecutionFee: &snap.ExecutionFee, ClearingPrices: snap.ClearingPrices,
			BatchTX: snap.BatchTX, BatchTxFeeRate: snap.BatchTxFeeRate,
		}
		if err := db.StorePendingBatch(batch, bNonces, oMods, bAccts, aMods); err != nil {
			r.Count("oracle/violation")
			r.Violate(fmt.Sprintf("StorePendingBatch failed: %v", err), "C10/batch-store", replay)
			return
		}
		r.Count("batchdb/store")
		if len(rd.NewAccts) >= 2 {
			r.Count("batchdb/multi-account-batch")
		}
		if len(rd.NewOrders) >= 2 {
			r.Count("batchdb/multi-order-batch")
		}
		// staging writes nothing visible: every stored object is still what it was
		checkAll("StorePendingBatch", none, none)
		if rd.ReopenStaged {
			reopen()
			checkAll("StorePendingBatch+reopen", none, none)
		}
		// the pending snapshot holds the updated participants
		wantSnap := renderSnapshot(spec.expected(false).build())
		if y, err := db.PendingBatchSnapshot(); err != nil || renderSnapshot(y) != wantSnap {
			got := fmt.Sprint(err)
			if err == nil {
				got = renderSnapshot(y)
			}
			r.Count("oracle/violation")
			r.Violate("pending snapshot of a stored batch does not read back equal: expected "+wantSnap+" read "+got,
				"C10/batch-pending-snapshot", replay)
		}
		r.Evaluations++

		if rd.Superseded {
			r.Count("batchdb/superseded-proposal")
			continue
		}

		// raw staged order buckets (+ the visible tier value), for the model of copyOrder
		type staged struct {
			nonce   string
			src     *c10OrderRec
			dstTier []byte
		}
		var stagedRecs []staged
		for _, ns := range rd.NewOrders {
			n := order.Nonce(arr32(ns.Nonce))
			b, mu, tl, ti, ok := db.VerifC10RawPendingOrder(n)
			_, _, _, vt, _ := db.VerifC10RawOrder(n)
			if ok {
				stagedRecs = append(stagedRecs, staged{ns.Nonce, &c10OrderRec{b, mu, tl, ti}, vt})
			}
		}

		if rd.Delete {
			if err := db.DeletePendingBatch(); err != nil {
				r.Count("batchdb/delete-error")
				return
			}
			r.Count("batchdb/delete")
			checkAll("DeletePendingBatch", none, none)
			continue
		}
		if err := db.MarkBatchComplete(); err != nil {
			r.Count("oracle/violation")
			r.Violate(fmt.Sprintf("MarkBatchComplete failed: %v", err), "C10/batch-complete", replay)
			return
		}
		r.Count("batchdb/complete")
		emitA, emitO := map[string]bool{}, map[string]bool{}
		for _, s := range rd.NewAccts {
			accts[s.TraderKey] = s
			emitA[s.TraderKey] = true
		}
		for _, s := range rd.NewOrders {
			orders[s.Nonce] = s
			emitO[s.Nonce] = true
		}
		checkAll("MarkBatchComplete", emitA, emitO)
		for _, st := range stagedRecs {
			b, mu, tl, ti, ok := db.VerifC10RawOrder(order.Nonce(arr32(st.nonce)))
			if ok {
				r.Emit("C10 copyord "+st.nonce+" "+st.src.tokens()+" "+optHex(st.dstTier),
					"ok "+(&c10OrderRec{b, mu, tl, ti}).tokens())
				r.Count("batchdb/copy-order")
			}
		}
		if rd.ReopenApplied {
			reopen()
			checkAll("MarkBatchComplete+reopen", emitA, emitO)
		}
		var id order.BatchID
		copy(id[:], unhexOr(spec.BatchID))
		if y, err := db.GetLocalBatchSnapshot(id); err != nil || renderSnapshot(y) != wantSnap {
			got := fmt.Sprint(err)
			if err == nil {
				got = renderSnapshot(y)
			}
			r.Count("oracle/violation")
			r.Violate("snapshot of a completed batch does not read back equal: expected "+wantSnap+" read "+got,
				"C10/batch-final-snapshot", replay)
		}
		r.Evaluations++
	}
}

// kitRewrite draws a new order spec with the same nonce and the same
// non-kit fields (the only ones an order.Modifier cannot reach).
func (c *c10Run) kitRewrite(old *c10Order) *c10Order {
	spec := c.g.orderSpec(old.Bid)
	spec.Nonce = old.Nonce
	spec.Announcement, spec.Confirmation = old.Announcement, old.Confirmation
	spec.MinNodeTier, spec.SelfChanBalance, spec.Ticket = old.MinNodeTier, old.SelfChanBalance, old.Ticket
	spec.Unannounced, spec.ZeroConf = old.Unannounced, old.ZeroConf
	return spec
}
