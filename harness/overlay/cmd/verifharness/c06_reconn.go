//go:build verif

package main

import (
	"bytes"
	"context"
	"fmt"
	"net"
	"strconv"
	"strings"
	"sync"
	"time"

	"github.com/btcsuite/btcd/wire"
	"github.com/lightninglabs/pool/auctioneer"
	"github.com/lightninglabs/pool/auctioneerrpc"
	"github.com/lightninglabs/pool/order"
	"github.com/lightningnetwork/lnd/keychain"
	"google.golang.org/grpc"
	"google.golang.org/grpc/codes"
	"google.golang.org/grpc/status"
	"google.golang.org/grpc/test/bufconn"
)

// c06AucServer is the in-process auctioneer of the C18 harness (stream
// handshake, fault injection) plus a scripted BatchSnapshot RPC.
type c06AucServer struct {
	*c18Server
	qmu     sync.Mutex
	w       *c06World
	answers []string // scripted outcomes, consumed in order, the last repeats
	queries [][]byte // batch ids asked about
}

func (s *c06AucServer) BatchSnapshot(_ context.Context,
	req *auctioneerrpc.BatchSnapshotRequest) (*auctioneerrpc.BatchSnapshotResponse, error) {

	s.qmu.Lock()
	defer s.qmu.Unlock()
	s.queries = append(s.queries, append([]byte(nil), req.BatchId...))
	a := s.answers[0]
	if len(s.answers) > 1 {
		s.answers = s.answers[1:]
	}
	switch {
	case a == "err0":
		return nil, status.Error(codes.Unavailable, "database unavailable")
	case a == "err1":
		return nil, status.Error(codes.Unknown, auctioneer.ErrBatchNotFinalized.Error())
	case a == "mal":
		return &auctioneerrpc.BatchSnapshotResponse{BatchTx: []byte{0x01, 0x02, 0x03}}, nil
	}
	t, _ := strconv.Atoi(a[strings.Index(a, ":")+1:])
	tx := s.w.txs[t].Copy()
	if strings.HasPrefix(a, "finw:") {
		tx.TxIn[0].Witness = wire.TxWitness{[]byte{0x30, 0x45}, []byte{0x51}}
	}
	var buf bytes.Buffer
	if err := tx.Serialize(&buf); err != nil {
		return nil, err
	}
	return &auctioneerrpc.BatchSnapshotResponse{BatchTx: buf.Bytes()}, nil
}

var c06ReconnSeq int

// reconnVia runs a whole (re-)connection of a REAL auctioneer.Client along the
// given path against an in-process auctioneer, with the real database as
// BatchSource and a recording BatchCleaner whose DeletePendingBatch is the
// database's. Every wait is bounded.
//
//	first: fresh client, Start, StartAccountSubscription (connectAndAuthenticate)
//	err:   … then the stream fails; the daemon's handler calls HandleServerShutdown(err)
//	shut:  … then the auctioneer announces its shutdown; the client reconnects by itself
func (d *c06DB) reconnVia(path, rpc string, removeOk bool) (res string, queried [][]byte) {
	c06ReconnSeq++
	var activity int64
	acct := c18MakeAcct(30000 + c06ReconnSeq%20000)
	inner := &c18Server{byKey: map[string]int{string(acct.pub[:]): 0}, activity: &activity}
	inner.pubs = append(inner.pubs, acct.desc.PubKey)
	srv := &c06AucServer{c18Server: inner, w: d.w, answers: []string{rpc}}
	if path != "first" {
		srv.answers = []string{"err1", rpc} // the first connect finds the batch not finalised
	}
	signer := &c18Signer{byLoc: map[keychain.KeyLocator]*c18Acct{acct.desc.KeyLocator: acct}}
	lis := bufconn.Listen(1 << 16)
	gs := grpc.NewServer()
	auctioneerrpc.RegisterChannelAuctioneerServer(gs, srv)
	go func() { _ = gs.Serve(lis) }()
	defer gs.Stop()

	cl := &c06Cleaner{d: d, removeOk: removeOk}
	client, err := auctioneer.NewClient(&auctioneer.Config{
		ServerAddress: "passthrough:///verif-c06",
		Insecure:      true,
		DialOpts: []grpc.DialOption{grpc.WithContextDialer(
			func(ctx context.Context, _ string) (net.Conn, error) { return lis.DialContext(ctx) },
		)},
		Signer:       signer,
		MinBackoff:   time.Millisecond,
		MaxBackoff:   5 * time.Millisecond,
		BatchSource:  d.db,
		BatchCleaner: cl,
		BatchVersion: order.LatestBatchVersion,
	})
	if err != nil {
		return "setup:" + err.Error(), nil
	}
	if err := client.Start(); err != nil {
		return "setup:" + err.Error(), nil
	}
	defer func() {
		done := make(chan string, 1)
		go func() {
			defer func() {
				if p := recover(); p != nil {
					done <- fmt.Sprint(p)
				}
			}()
			_ = client.Stop()
			done <- ""
		}()
		select {
		case p := <-done:
			if p != "" && !strings.HasPrefix(res, "panic:") {
				res = "panic:Stop: " + p
			}
		case <-time.After(3 * time.Second):
		}
	}()
	// classify tells which step of the pending batch check failed from the
	// traces of the proxies (cleaner calls, BatchSnapshot queries) – never
	// from the error text
	queriedBefore := 0
	classify := func(err error) string {
		srv.qmu.Lock()
		q := len(srv.queries)
		srv.qmu.Unlock()
		switch {
		case err == nil:
			return "ok"
		case len(cl.calls) > 0 && !removeOk:
			return "remove"
		case len(cl.calls) > 0:
			return "delete"
		case q > queriedBefore:
			return "query"
		}
		return "load"
	}
	mark := func() {
		srv.qmu.Lock()
		queriedBefore = len(srv.queries)
		srv.qmu.Unlock()
	}
	finish := func(class string) (string, [][]byte) {
		srv.qmu.Lock()
		defer srv.qmu.Unlock()
		return fmt.Sprintf("%s;%s;q=%d", joinOr(cl.calls, ","), class, len(srv.queries)), srv.queries
	}
	// handle is one HandleServerShutdown call as the daemon's stream error
	// handler makes it; a panic is an outcome, not the end of the harness
	handle := func(e error) (err error, hung bool) {
		cl.calls = nil
		mark()
		hres := make(chan error, 1)
		go func() {
			defer func() {
				if p := recover(); p != nil {
					hres <- fmt.Errorf("panic:HandleServerShutdown: %v", p)
				}
			}()
			hres <- client.HandleServerShutdown(e)
		}()
		select {
		case err = <-hres:
			return err, false
		case <-time.After(4 * time.Second):
			return nil, true
		}
	}
	// handlerLoop is rpcServer.serverHandler's reaction to a stream error:
	// re-connect until it works (here: at most 2 retries)
	handlerLoop := func(err error, calls int) (string, [][]byte) {
		for err != nil && err != auctioneer.ErrClientShutdown && calls < 3 {
			var hung bool
			err, hung = handle(err)
			if hung {
				return "hung:HandleServerShutdown", nil
			}
			if err != nil && strings.HasPrefix(err.Error(), "panic:") {
				return err.Error(), nil
			}
			calls++
		}
		return finish(classify(err))
	}
	subErr := make(chan error, 1)
	go func() {
		ctx, cancel := context.WithTimeout(context.Background(), 3*time.Second)
		defer cancel()
		subErr <- client.StartAccountSubscription(ctx, acct.desc)
	}()
	select {
	case err = <-subErr:
	case <-time.After(4 * time.Second):
		return "hung:first-connect", nil
	}
	if path == "first" {
		return finish(classify(err))
	}
	if err != nil {
		return "sub-failed", nil
	}
	cl.calls = nil // only the calls of the reconnect are reported
	mark()
	streamsBefore := func() int { inner.mu.Lock(); defer inner.mu.Unlock(); return len(inner.streams) }()
	inner.mu.Lock()
	cur := inner.streams[len(inner.streams)-1]
	inner.mu.Unlock()
	switch path {
	case "err":
		cur.ctl <- "err"
		var serr error
		select {
		case serr = <-client.StreamErrChan:
		case <-time.After(3 * time.Second):
			return "hung:no-stream-error", nil
		}
		// rpcServer.serverHandler: every error but ErrServerShutdown
		// leads to HandleServerShutdown (generated fact handlerReaction
		// of C18)
		return handlerLoop(serr, 0)
	case "shut":
		cur.ctl <- "shut"
		// the client reconnects on its own (readIncomingStream →
		// HandleServerShutdown(nil)); an error would arrive on
		// StreamErrChan, success shows as a re-subscription
		deadline := time.After(4 * time.Second)
		for {
			select {
			case serr := <-client.StreamErrChan:
				// the client's own attempt failed: the daemon's handler
				// takes over
				return handlerLoop(serr, 1)
			case <-deadline:
				return "hung:no-reconnect", nil
			case <-time.After(time.Millisecond):
			}
			inner.mu.Lock()
			done := len(inner.streams) > streamsBefore &&
				len(inner.streams[len(inner.streams)-1].success) > 0
			inner.mu.Unlock()
			// … and the client has consumed the Success message (the
			// re-subscription returned)
			if done && !client.VerifC06Diverted() {
				return finish("ok")
			}
		}
	}
	return "bad-path", nil
}
