//go:build verif

package main

import (
	"bytes"
	"context"
	"crypto/sha256"
	"encoding/hex"
	"encoding/json"
	"fmt"
	"os"
	"strings"
	"sync"
	"time"

	"github.com/btcsuite/btcd/btcec/v2"
	"github.com/btcsuite/btcd/btcec/v2/ecdsa"
	"github.com/btcsuite/btclog/v2"
	"github.com/lightninglabs/lndclient"
	"github.com/lightninglabs/pool/account"
	"github.com/lightninglabs/pool/auctioneer"
	"github.com/lightninglabs/pool/auctioneerrpc"
	"github.com/lightninglabs/pool/order"
	"github.com/lightningnetwork/lnd/keychain"
)

func init() { props["C18"] = runC18 }

// ---------------------------------------------------------------- helpers

func c18hex(b []byte) string {
	if len(b) == 0 {
		return "-"
	}
	return hex.EncodeToString(b)
}

// c18Logger captures the auctioneer package's log lines (the requested
// backoff durations are only observable there).
type c18Logger struct {
	btclog.Logger
	mu    sync.Mutex
	lines []string
	durs  []time.Duration
}

func (l *c18Logger) drainDurs() []time.Duration {
	l.mu.Lock()
	defer l.mu.Unlock()
	r := l.durs
	l.durs = nil
	return r
}

func (l *c18Logger) add(format string, a ...any) {
	s := fmt.Sprintf(format, a...)
	l.mu.Lock()
	if len(l.lines) < 1<<16 {
		l.lines = append(l.lines, s)
	}
	l.mu.Unlock()
}
func (l *c18Logger) Tracef(string, ...any)         {}
func (l *c18Logger) Debugf(f string, a ...any) {
	// the retry loop reports the backoff it will wait next as the first
	// argument of a debug line; keyed on level and argument type, not on
	// the wording
	if len(a) > 0 {
		if d, ok := a[0].(time.Duration); ok {
			l.mu.Lock()
			l.durs = append(l.durs, d)
			l.mu.Unlock()
		}
	}
	l.add(f, a...)
}
func (l *c18Logger) Infof(f string, a ...any)      { l.add(f, a...) }
func (l *c18Logger) Warnf(f string, a ...any)      { l.add(f, a...) }
func (l *c18Logger) Errorf(f string, a ...any) {
	if strings.HasPrefix(f, "Authentication failed for account %x") && len(a) > 0 {
		if k, ok := a[0].([]byte); ok {
			if v, ok := c18FailSinks.Load(string(k)); ok {
				v.(*c18FailSink).add(string(k))
				return
			}
		}
	}
	l.add(f, a...)
}
func (l *c18Logger) Criticalf(f string, a ...any)  { l.add(f, a...) }
func (l *c18Logger) drain() []string {
	l.mu.Lock()
	defer l.mu.Unlock()
	r := l.lines
	l.lines = nil
	return r
}

// c18FailSink collects, per scenario, the accounts whose handshake failed
// inside authenticate() (only the client knows which account a commitment
// that never got a challenge belonged to).
type c18FailSink struct {
	mu   sync.Mutex
	keys []string
}

func (s *c18FailSink) add(k string) {
	s.mu.Lock()
	s.keys = append(s.keys, k)
	s.mu.Unlock()
}
func (s *c18FailSink) drain() []string {
	s.mu.Lock()
	defer s.mu.Unlock()
	r := s.keys
	s.keys = nil
	return r
}

var c18FailSinks sync.Map // account key bytes -> *c18FailSink

var c18Log = &c18Logger{Logger: btclog.Disabled}

// c18Acct is a test account with a real key pair.
type c18Acct struct {
	priv *btcec.PrivateKey
	desc *keychain.KeyDescriptor
	pub  [33]byte
}

func c18MakeAcct(i int) *c18Acct {
	var b [32]byte
	b[0] = 0x18
	b[30] = byte(i >> 8)
	b[31] = byte(i)
	priv, pub := btcec.PrivKeyFromBytes(b[:])
	a := &c18Acct{priv: priv, desc: &keychain.KeyDescriptor{
		KeyLocator: keychain.KeyLocator{Family: 220, Index: uint32(1000 + i)},
		PubKey:     pub,
	}}
	copy(a.pub[:], pub.SerializeCompressed())
	return a
}

// c18SignReq is one SignMessage call observed by the signer.
type c18SignReq struct {
	msg []byte
	loc keychain.KeyLocator
}

// c18Signer signs with the real private key the locator denotes (single
// SHA-256 digest + ECDSA, as lnd's signer does) and records every request.
type c18Signer struct {
	lndclient.SignerClient
	mu    sync.Mutex
	byLoc map[keychain.KeyLocator]*c18Acct
	reqs  []c18SignReq
	pre   func() // called before signing (schedule control)
}

func (s *c18Signer) SignMessage(_ context.Context, msg []byte,
	loc keychain.KeyLocator, _ ...lndclient.SignMessageOption) ([]byte, error) {

	if s.pre != nil {
		s.pre()
	}
	s.mu.Lock()
	defer s.mu.Unlock()
	s.reqs = append(s.reqs, c18SignReq{msg: append([]byte(nil), msg...), loc: loc})
	a, ok := s.byLoc[loc]
	if !ok {
		return nil, fmt.Errorf("verif signer: unknown key locator %v", loc)
	}
	d := sha256.Sum256(msg)
	return ecdsa.Sign(a.priv, d[:]).Serialize(), nil
}

func c18VerifySig(pub *btcec.PublicKey, msg, sig []byte) bool {
	s, err := ecdsa.ParseDERSignature(sig)
	if err != nil {
		return false
	}
	d := sha256.Sum256(msg)
	return s.Verify(d[:], pub)
}

func c18rand(r *Run, n int) []byte {
	b := make([]byte, n)
	r.Rng.Read(b)
	return b
}

// ---------------------------------------------------------------- pure pieces

// c18Hashes compares CommitAccount / AuthChallenge / AuthHash byte-exactly.
func c18Hashes(r *Run) {
	var a33 [33]byte
	var a32, b32 [32]byte
	copy(a33[:], c18rand(r, 33))
	copy(a32[:], c18rand(r, 32))
	copy(b32[:], c18rand(r, 32))
	if r.Rng.Intn(8) == 0 {
		a32 = [32]byte{}
	}
	c := account.CommitAccount(a33, a32)
	r.Emit(fmt.Sprintf("C18 commit %x %x", a33, a32), c18hex(c[:]))
	ch := account.AuthChallenge(c, b32)
	r.Emit(fmt.Sprintf("C18 chal %x %x", c, b32), c18hex(ch[:]))
	ah := account.AuthHash(c, ch)
	r.Emit(fmt.Sprintf("C18 authhash %x %x", c, ch), c18hex(ah[:]))
	r.Count("op/hashes")
	// oracle: the three are SHA256 of the plain concatenation
	w1 := sha256.Sum256(append(append([]byte{}, a33[:]...), a32[:]...))
	w3 := sha256.Sum256(append(append([]byte{}, c[:]...), ch[:]...))
	if w1 != c || w3 != ah {
		r.Violate("CommitAccount/AuthHash is not SHA256(a||b)", "C18/hash",
			map[string]string{"kind": "hash", "key": hex.EncodeToString(a33[:]), "nonce": hex.EncodeToString(a32[:])})
	}
	r.Evaluations++
}

// c18HashesConcurrent calls the three auth functions from several goroutines
// at the same time (handshakes of different clients / of a client and the
// auctioneer hash concurrently) and checks every result against a private
// SHA-256; a sample is also compared with the model's SHA-256.
func c18HashesConcurrent(r *Run) {
	const G, M = 8, 400
	type triple struct {
		key    [33]byte
		n1, n2 [32]byte
		c, ch  [32]byte
		ah     [32]byte
	}
	in := make([][]triple, G)
	for g := range in {
		in[g] = make([]triple, M)
		for i := range in[g] {
			copy(in[g][i].key[:], c18rand(r, 33))
			copy(in[g][i].n1[:], c18rand(r, 32))
			copy(in[g][i].n2[:], c18rand(r, 32))
		}
	}
	start := make(chan struct{})
	var wg sync.WaitGroup
	for g := 0; g < G; g++ {
		wg.Add(1)
		go func(ts []triple) {
			defer wg.Done()
			<-start
			for i := range ts {
				t := &ts[i]
				t.c = account.CommitAccount(t.key, t.n1)
				t.ch = account.AuthChallenge(t.c, t.n2)
				t.ah = account.AuthHash(t.c, t.ch)
			}
		}(in[g])
	}
	close(start)
	wg.Wait()
	cat := func(a, b []byte) [32]byte { return sha256.Sum256(append(append([]byte{}, a...), b...)) }
	bad := 0
	for g := range in {
		for i := range in[g] {
			t := &in[g][i]
			if i < 4 {
				r.Emit(fmt.Sprintf("C18 commit %x %x", t.key, t.n1), c18hex(t.c[:]))
				r.Emit(fmt.Sprintf("C18 authhash %x %x", t.c, t.ch), c18hex(t.ah[:]))
			}
			r.Count("hashes/concurrent")
			wc := cat(t.key[:], t.n1[:])
			wch := cat(wc[:], t.n2[:])
			wah := cat(wc[:], wch[:])
			if (wc != t.c || wch != t.ch || wah != t.ah) && bad < 3 {
				bad++
				r.Violate("auth hash computed while other goroutines were hashing is not SHA256(a||b): "+
					"the commitment would not open / the signed digest would not be H(commit||challenge)",
					"C18/hash-concurrent", map[string]interface{}{"kind": "hash-concurrent",
						"key": hex.EncodeToString(t.key[:]), "nonce": hex.EncodeToString(t.n1[:]),
						"got_commit": hex.EncodeToString(t.c[:]), "want_commit": hex.EncodeToString(wc[:]),
						"goroutines": G})
			}
		}
	}
	r.Evaluations++
}

// c18Handshake runs the real authenticate() against a scripted challenge and
// compares both messages and the signed digest with the model.
func c18Handshake(r *Run, acct *c18Acct, challengeField []byte, ver uint32) {
	signer := &c18Signer{byLoc: map[keychain.KeyLocator]*c18Acct{acct.desc.KeyLocator: acct}}
	var sent []*auctioneerrpc.ClientAuctionMessage
	msgChan := make(chan *auctioneerrpc.ServerAuctionMessage, 1)
	sendMsg := func(m *auctioneerrpc.ClientAuctionMessage) error {
		sent = append(sent, m)
		if c := m.GetCommit(); c != nil {
			// the auctioneer answers the commitment with a challenge
			msgChan <- &auctioneerrpc.ServerAuctionMessage{
				Msg: &auctioneerrpc.ServerAuctionMessage_Challenge{
					Challenge: &auctioneerrpc.ServerChallenge{
						Challenge:  challengeField,
						CommitHash: c.CommitHash,
					},
				},
			}
		}
		return nil
	}
	ctx, cancel := context.WithTimeout(context.Background(), 10*time.Second)
	defer cancel()
	commitHash, err := auctioneer.VerifC18Authenticate(
		ctx, acct.desc, sendMsg, signer, msgChan, order.BatchVersion(ver),
		make(chan error), make(chan struct{}),
	)
	replay := map[string]interface{}{"kind": "hs", "acct": hex.EncodeToString(acct.pub[:]),
		"challenge": hex.EncodeToString(challengeField), "ver": ver}
	if err != nil || len(sent) != 2 || sent[0].GetCommit() == nil || sent[1].GetSubscribe() == nil ||
		len(signer.reqs) != 1 {

		r.Violate(fmt.Sprintf("handshake did not complete: err=%v msgs=%d", err, len(sent)), "C18/handshake", replay)
		return
	}
	cm, sub, req := sent[0].GetCommit(), sent[1].GetSubscribe(), signer.reqs[0]
	r.Emit(fmt.Sprintf("C18 hs %x %s %s %d", acct.pub, c18hex(sub.CommitNonce), c18hex(challengeField), ver),
		fmt.Sprintf("commit=%s,ver=%d;sub=%s,%s;signer=%x;signed=%s;verify=1", c18hex(cm.CommitHash),
			cm.BatchVersion, c18hex(sub.TraderKey), c18hex(sub.CommitNonce), acct.pub, c18hex(req.msg)))
	r.Evaluations++
	r.Count(fmt.Sprintf("hs/challenge-len-%s", map[bool]string{true: "32", false: "other"}[len(challengeField) == 32]))
	r.Distinct("hs" + hex.EncodeToString(sub.CommitNonce))

	// ---- oracle, from the property text (what the auctioneer recomputes) ----
	opens := sha256.Sum256(append(append([]byte{}, sub.TraderKey...), sub.CommitNonce...))
	var bad string
	switch {
	case !bytes.Equal(opens[:], cm.CommitHash) || !bytes.Equal(commitHash[:], cm.CommitHash):
		bad = "commitment does not open to (trader key, revealed nonce)"
	case !bytes.Equal(sub.TraderKey, acct.pub[:]) || len(sub.CommitNonce) != 32:
		bad = "subscribe message does not reveal the account key / a 32 byte nonce"
	case req.loc != acct.desc.KeyLocator:
		bad = "signature requested for a different key than the account key"
	}
	if bad == "" && len(challengeField) == 32 {
		want := sha256.Sum256(append(append([]byte{}, cm.CommitHash...), challengeField...))
		if !bytes.Equal(want[:], req.msg) {
			bad = "signed message is not SHA256(commitment || challenge)"
		} else if !c18VerifySig(acct.desc.PubKey, want[:], sub.AuthSig) {
			bad = "AuthSig does not verify under the account key"
		}
	}
	if bad != "" {
		r.Violate(bad, "C18/handshake", replay)
	}
}

// c18Backoff runs the real connectServerStream against a Terms RPC failing
// `fails` times and compares the logged backoffs with the model.
func c18Backoff(r *Run, initB, minB, maxB time.Duration, retries, fails int) {
	c18Log.drain()
	c18Log.drainDurs()
	err, opened, at := auctioneer.VerifC18Connect(initB, minB, maxB, retries, fails)
	backoffs := c18Log.drainDurs()
	// waits the code must have requested: the initial one and every
	// updated backoff that was followed by another attempt
	var waits []time.Duration
	if len(at) > 0 && initB != 0 {
		waits = append(waits, initB)
	}
	for i, b := range backoffs {
		if i+1 < len(at) && b != 0 {
			waits = append(waits, b)
		}
	}
	f := func(ds []time.Duration) string {
		if len(ds) == 0 {
			return "-"
		}
		s := make([]string, len(ds))
		for i, d := range ds {
			s[i] = fmt.Sprint(int64(d))
		}
		return strings.Join(s, ",")
	}
	ok := 0
	if err == nil && opened {
		ok = 1
	}
	r.Emit(fmt.Sprintf("C18 backoff %d %d %d %d %d", int64(initB), int64(minB), int64(maxB), retries, fails),
		fmt.Sprintf("ok=%d waits=%s backoffs=%s", ok, f(waits), f(backoffs)))
	r.Evaluations++
	r.Distinct(fmt.Sprintf("bo %d %d %d %d %d", initB, minB, maxB, retries, fails))
	switch {
	case fails >= retries && retries > 0:
		r.Count("backoff/retries-exhausted")
	case fails == 0:
		r.Count("backoff/first-try")
	default:
		r.Count("backoff/reconnected")
	}
	replay := map[string]interface{}{"kind": "backoff", "init": int64(initB), "min": int64(minB),
		"max": int64(maxB), "retries": retries, "fails": fails}

	// ---- oracle (only inside the property's domain: 0 < min <= max, start = 0 or min) ----
	if minB > 0 && minB <= maxB && (initB == 0 || initB == minB) && fails < retries {
		r.Count("backoff/in-domain")
		if len(backoffs) >= 3 && backoffs[len(backoffs)-1] == maxB {
			r.Count("backoff/reached-max")
		}
		if err != nil || !opened || len(at) != fails+1 {
			r.Violate(fmt.Sprintf("server reachable after %d refusals but connect gave err=%v attempts=%d", fails, err, len(at)),
				"C18/backoff", replay)
			return
		}
		// waits between attempts: min, 2min, 4min … capped at max; a
		// reconnect (start = min) has already waited min before its
		// first attempt
		exp := minB
		if initB == minB {
			exp = 2 * minB
			if exp > maxB {
				exp = maxB
			}
		}
		for i := 1; i <= fails; i++ {
			if backoffs[i-1] != exp {
				r.Violate(fmt.Sprintf("wait before attempt %d is %v, expected %v (min %v max %v start %v)",
					i+1, backoffs[i-1], exp, minB, maxB, initB), "C18/backoff", replay)
				return
			}
			// real time: attempts are at least the requested wait apart
			if gap := at[i] - at[i-1]; gap < exp {
				r.Violate(fmt.Sprintf("attempt %d came %v after the previous one, requested wait %v", i+1, gap, exp),
					"C18/backoff-time", replay)
				return
			}
			exp *= 2
			if exp > maxB {
				exp = maxB
			}
		}
		if initB == minB && at[0] < minB {
			r.Violate("reconnect attempt made before the minimum backoff elapsed", "C18/backoff-time", replay)
		}
	}
}

// c18Switch drives a real ErrChanSwitch goroutine with a sequence of
// send / take / divert / restore ops, synchronising on the switch's mutex so
// that every op's outcome is determined.
func c18Switch(r *Run, ops []string) {
	mainChan := make(chan error)
	sw := auctioneer.NewErrChanSwitch(mainChan)
	sw.Start()
	defer sw.Stop()
	r.Emit("C18 sw reset", "ok")
	temps := map[int]chan error{}
	type sent struct {
		id   int
		done chan struct{}
	}
	var (
		inflight  bool   // run holds the mutex, blocked on a target
		pending   []sent // senders blocked on the incoming channel
		waiter    chan struct{}
		delivered = map[int]string{}
		sentIDs   []int
		divertedGhost bool
		divertedAt    = map[int]bool{}
		bad       string
		order     []string
		curTemp   = "main" // where the ghost says errors go now
		expectT   string   // where the in-flight error must arrive
		inflightID int
	)
	waitCh := func(ch chan struct{}) bool {
		select {
		case <-ch:
			return true
		case <-time.After(2 * time.Second):
			return false
		}
	}
	waitLocked := func(want bool) bool {
		deadline := time.Now().Add(5 * time.Second)
		for sw.VerifC18Locked() != want {
			if time.Now().After(deadline) {
				return false
			}
			time.Sleep(20 * time.Microsecond)
		}
		return true
	}
	mkErr := func(id int) error { return fmt.Errorf("e%d", id) }
	parseErr := func(e error) int {
		var id int
		fmt.Sscanf(e.Error(), "e%d", &id)
		return id
	}
	var hist []string
	for _, op := range ops {
		var out string
		f := strings.Fields(op)
		switch f[0] {
		case "send":
			var id int
			fmt.Sscan(f[1], &id)
			s := sent{id: id, done: make(chan struct{})}
			go func() {
				sw.ErrChan() <- mkErr(id)
				close(s.done)
			}()
			sentIDs = append(sentIDs, id)
			if !inflight {
				// run is idle: it receives, locks, and blocks
				// on the target channel
				if !waitCh(s.done) || !waitLocked(true) {
					out = "hung"
					break
				}
				inflight = true
				divertedAt[id] = divertedGhost
				expectT, inflightID = curTemp, id
				out = "inflight"
			} else {
				pending = append(pending, s)
				out = "queued"
			}
			r.Count("sw/send")
		case "take":
			var ch chan error
			name := f[1]
			if name == "main" {
				ch = mainChan
			} else {
				var k int
				fmt.Sscan(name, &k)
				ch = temps[k]
			}
			timeout := 3 * time.Millisecond
			if ch == nil {
				out = "none"
				break
			}
			select {
			case e := <-ch:
				id := parseErr(e)
				if _, dup := delivered[id]; dup {
					bad = fmt.Sprintf("error e%d delivered twice", id)
				}
				tn := name
				if tn != "main" {
					tn = "t" + tn
				}
				delivered[id] = tn
				order = append(order, fmt.Sprintf("%d>%s", id, tn))
				inflight = false
				if waiter != nil {
					if !waitCh(waiter) {
						out = "hung"
						break
					}
					waiter = nil
				}
				if len(pending) > 0 {
					if !waitCh(pending[0].done) || !waitLocked(true) {
						out = "hung"
						break
					}
					divertedAt[pending[0].id] = divertedGhost
					expectT, inflightID = curTemp, pending[0].id
					pending = pending[1:]
					inflight = true
				} else if !waitLocked(false) {
					out = "hung"
					break
				}
				out = fmt.Sprintf("got=%d", id)
				r.Count("sw/take-hit")
			case <-time.After(timeout):
				out = "none"
				r.Count("sw/take-miss")
				if inflight && name == expectT && bad == "" {
					bad = fmt.Sprintf("error e%d was processed while diverted=%v but did not arrive on channel %s",
						inflightID, divertedAt[inflightID], name)
					out = "hung"
				}
			}
		case "divert", "restore":
			var call func()
			if f[0] == "divert" {
				var k int
				fmt.Sscan(f[1], &k)
				if temps[k] == nil {
					temps[k] = make(chan error)
				}
				call = func() { sw.Divert(temps[k]) }
			} else {
				call = sw.Restore
			}
			newGhost := f[0] == "divert"
			if inflight {
				done := make(chan struct{})
				go func() { call(); close(done) }()
				select {
				case <-done:
					out = "ok" // must not happen: mutex is held by run
				case <-time.After(2 * time.Millisecond):
					out = "blocked"
					waiter = done
				}
				r.Count("sw/ctl-blocked")
			} else {
				call()
				out = "ok"
				r.Count("sw/ctl")
			}
			divertedGhost = newGhost
			if newGhost {
				curTemp = f[1]
			} else {
				curTemp = "main"
			}
		}
		hist = append(hist, op+" => "+out)
		r.Emit("C18 sw "+op, out)
		if out == "hung" {
			// the switch is not where the op sequence expects it to be
			if bad == "" {
				bad = "switch stuck or out of step after: " + op
			}
			break
		}
	}
	// everything delivered, in delivery order, with its target
	endOut := "-"
	if len(order) > 0 {
		endOut = strings.Join(order, ",")
	}
	r.Emit("C18 sw end", endOut)
	r.Evaluations++
	r.Distinct(strings.Join(hist, ";"))
	r.Sample(hist)
	// ---- oracle: nothing lost or duplicated; target follows the divert
	// state at processing time ----
	if bad == "" {
		for _, id := range sentIDs {
			t, ok := delivered[id]
			if !ok {
				continue // still inside the switch at the end (not taken)
			}
			if (t != "main") != divertedAt[id] {
				bad = fmt.Sprintf("error e%d delivered to %s but diverted=%v when it was processed", id, t, divertedAt[id])
			}
		}
	}
	if bad != "" {
		r.Violate(bad, "C18/switch", map[string]interface{}{"kind": "sw", "ops": ops})
	}
}

// ---------------------------------------------------------------- runner

type c18Case struct {
	Kind      string   `json:"kind"`
	Ops       []string `json:"ops,omitempty"`
	Acct      string   `json:"acct,omitempty"`
	Challenge string   `json:"challenge,omitempty"`
	Ver       uint32   `json:"ver,omitempty"`
	Init      int64    `json:"init,omitempty"`
	Min       int64    `json:"min,omitempty"`
	Max       int64    `json:"max,omitempty"`
	Retries   int      `json:"retries,omitempty"`
	Fails     int      `json:"fails,omitempty"`
}

func runC18(r *Run) {
	if os.Getenv("C18_CHILD") != "" {
		c18Child()
	}
	r.Rule = "handshake: real authenticate() with random 32-byte (7/8) or odd-length challenges; backoff: real " +
		"connectServerStream with ns-scale (init,min,max,retries,fails), half of them inside 0<min<=max & init in {0,min}; " +
		"switch: real ErrChanSwitch goroutine under random send/take/divert/restore sequences (<=1 queued sender); " +
		"non-trivial = distinct case"
	auctioneer.UseLogger(c18Log)
	accts := make([]*c18Acct, 6)
	for i := range accts {
		accts[i] = c18MakeAcct(i)
	}

	runCase := func(c c18Case) {
		switch c.Kind {
		case "sw":
			c18Switch(r, c.Ops)
		case "backoff":
			c18Backoff(r, time.Duration(c.Init), time.Duration(c.Min), time.Duration(c.Max), c.Retries, c.Fails)
		case "hs":
			ch, _ := hex.DecodeString(c.Challenge)
			c18Handshake(r, accts[0], ch, c.Ver)
		case "hash-concurrent":
			c18HashesConcurrent(r)
		}
	}
	var fixedScn []c18Scn
	for _, raw := range r.FixedCases() {
		var c c18Case
		var kind struct {
			Kind string `json:"kind"`
		}
		_ = json.Unmarshal(raw, &kind)
		if kind.Kind == "client" {
			c.Kind = "client"
		}
		if c.Kind == "client" || json.Unmarshal(raw, &c) == nil {
			r.Count("case/fixed")
			if c.Kind == "client" {
				var scn struct {
					Scenario *c18Scn `json:"scenario"`
				}
				var direct c18Scn
				if json.Unmarshal(raw, &scn) == nil && scn.Scenario != nil {
					fixedScn = append(fixedScn, *scn.Scenario)
				} else if json.Unmarshal(raw, &direct) == nil {
					fixedScn = append(fixedScn, direct)
				}
				continue
			}
			runCase(c)
		}
	}
	if len(fixedScn) > 0 {
		c18Clients(r, fixedScn)
	}
	if r.ReplayFile != "" {
		return
	}

	c18HashesConcurrent(r)

	var scns []c18Scn
	for c := 0; c < r.N; c++ {
		scns = append(scns, c18GenScenario(r))
		if c%40 == 7 {
			// several clients authenticating at the same time
			scns = append(scns, c18Scn{Kind: "concurrent", Clients: 3 + r.Rng.Intn(4), NAccts: 2 + r.Rng.Intn(3),
				MinMs: 1, MaxMs: 4, Rounds: 1 + r.Rng.Intn(3)})
		}
	}
	defer c18Clients(r, scns)

	for c := 0; c < r.N; c++ {
		// hashes + handshake
		c18Hashes(r)
		chLen := 32
		if r.Rng.Intn(8) == 0 {
			chLen = []int{0, 1, 31, 33, 64}[r.Rng.Intn(5)]
		}
		c18Handshake(r, accts[r.Rng.Intn(len(accts))], c18rand(r, chLen), uint32(r.Rng.Intn(12)))

		// backoff
		{
			minB := time.Duration(1 + r.Rng.Intn(2000))
			maxB := minB * time.Duration(1+r.Rng.Intn(40))
			initB := []time.Duration{0, minB}[r.Rng.Intn(2)]
			retries := 1 + r.Rng.Intn(14)
			fails := r.Rng.Intn(10)
			switch r.Rng.Intn(8) {
			case 0: // outside the domain: arbitrary start / min > max / zero min
				initB = time.Duration(r.Rng.Intn(5000))
				if r.Rng.Intn(2) == 0 {
					maxB = time.Duration(r.Rng.Intn(int(minB) + 1))
				}
				if r.Rng.Intn(3) == 0 {
					minB = 0
				}
			case 1: // retries exhausted
				retries = 1 + r.Rng.Intn(4)
				fails = retries + r.Rng.Intn(3)
			case 2:
				retries = 0
			case 3:
				fails = retries // boundary
			}
			if r.Search && r.Rng.Intn(2) == 0 {
				maxB = minB * time.Duration(1+r.Rng.Intn(6))
				fails = 3 + r.Rng.Intn(8)
				retries = fails + 1 + r.Rng.Intn(3)
			}
			c18Backoff(r, initB, minB, maxB, retries, fails)
		}

		// switch
		{
			var ops []string
			inflight, pending, blocked := false, 0, false
			nextErr, nextTemp := 1, 1
			cur := "main"
			var inflightT string
			n := 4 + r.Rng.Intn(14)
			for i := 0; i < n; i++ {
				x := r.Rng.Intn(10)
				switch {
				case x < 3 && pending == 0 && !blocked || (x < 3 && !inflight):
					ops = append(ops, fmt.Sprintf("send %d", nextErr))
					nextErr++
					if inflight {
						pending++
					} else {
						inflight = true
						inflightT = cur
					}
				case x < 6 && inflight:
					// take from the right channel (mostly) or a wrong one
					t := inflightT
					if r.Rng.Intn(5) == 0 {
						if t == "main" {
							t = fmt.Sprint(1 + r.Rng.Intn(nextTemp))
						} else {
							t = "main"
						}
						ops = append(ops, "take "+t)
						break
					}
					ops = append(ops, "take "+t)
					inflight = false
					if blocked {
						blocked = false
					}
					if pending > 0 {
						pending--
						inflight = true
						inflightT = cur
					}
				case x < 8:
					if inflight && (pending > 0 || blocked) {
						continue
					}
					k := nextTemp
					if r.Rng.Intn(3) == 0 && nextTemp > 1 {
						k = 1 + r.Rng.Intn(nextTemp-1)
					} else {
						nextTemp++
					}
					ops = append(ops, fmt.Sprintf("divert %d", k))
					cur = fmt.Sprint(k)
					if inflight {
						blocked = true
					}
				default:
					if inflight && (pending > 0 || blocked) {
						continue
					}
					ops = append(ops, "restore")
					cur = "main"
					if inflight {
						blocked = true
					}
				}
			}
			// drain
			for inflight {
				ops = append(ops, "take "+inflightT)
				inflight = false
				if pending > 0 {
					pending--
					inflight = true
					inflightT = cur
				}
			}
			c18Switch(r, ops)
		}
	}
}
