//go:build verif

package main

import (
	"context"
	"encoding/hex"
	"encoding/json"
	"fmt"
	"math"
	"math/rand"
	"net"
	"os"
	"strings"

	"github.com/btcsuite/btcd/btcec/v2"
	"github.com/btcsuite/btcd/btcec/v2/ecdsa"
	"github.com/btcsuite/btcd/btcutil"
	"github.com/btcsuite/btcd/chaincfg/chainhash"
	"github.com/lightninglabs/pool/account"
	"github.com/lightninglabs/pool/auctioneer"
	"github.com/lightninglabs/pool/auctioneerrpc"
	"github.com/lightninglabs/pool/clientdb"
	"github.com/lightninglabs/pool/internal/test"
	"github.com/lightninglabs/pool/order"
	"github.com/lightninglabs/pool/poolrpc"
	"github.com/lightninglabs/pool/sidecar"
	"github.com/lightninglabs/pool/terms"
	"github.com/lightningnetwork/lnd/keychain"
	"github.com/lightningnetwork/lnd/lnwallet/chainfee"
	"google.golang.org/grpc"
	"google.golang.org/grpc/codes"
	"google.golang.org/grpc/status"
	"google.golang.org/grpc/credentials/insecure"
	"google.golang.org/grpc/test/bufconn"
)

func init() { props["C12"] = runC12 }

// c12Order is the replayable / JSON form of an order (both sides).
type c12Order struct {
	Bid           bool   `json:"bid"`
	Nonce         string `json:"nonce"`
	Version       uint32 `json:"version"`
	State         uint8  `json:"state"`
	Rate          uint32 `json:"rate"`
	Amt           int64  `json:"amt"`
	Units         uint64 `json:"units"`
	Unfulfilled   uint64 `json:"unfulfilled"`
	Fee           int64  `json:"fee"`
	AcctKey       string `json:"acctkey"`
	Lease         uint32 `json:"lease"`
	MinUnits      uint64 `json:"minunits"`
	ChannelType   uint8  `json:"chantype"`
	AuctionType   uint32 `json:"auctiontype"`
	IsPublic      bool   `json:"public"`
	MinNodeTier   uint32 `json:"tier"`
	SelfChanBal   int64  `json:"scb"`
	Sidecar       bool   `json:"sidecar"`
	Unannounced   bool   `json:"unannounced"`
	ZeroConf      bool   `json:"zeroconf"`
	Announcement  uint8  `json:"announcement"`
	Confirmations uint8  `json:"confirmations"`
}

func (c c12Order) tok() string {
	side := "a"
	if c.Bid {
		side = "b"
	}
	return strings.Join([]string{side, c14Hex(c12Unhex(c.Nonce)), fmt.Sprint(c.Version), fmt.Sprint(c.State),
		fmt.Sprint(c.Rate), fmt.Sprint(c.Amt), fmt.Sprint(c.Units), fmt.Sprint(c.Unfulfilled),
		fmt.Sprint(c.Fee), c14Hex(c12Unhex(c.AcctKey)), fmt.Sprint(c.Lease), fmt.Sprint(c.MinUnits),
		fmt.Sprint(c.ChannelType), fmt.Sprint(c.AuctionType), c14B(c.IsPublic), fmt.Sprint(c.MinNodeTier),
		fmt.Sprint(c.SelfChanBal), c14B(c.Sidecar), c14B(c.Unannounced), c14B(c.ZeroConf),
		fmt.Sprint(c.Announcement), fmt.Sprint(c.Confirmations)}, ",")
}

func c12Unhex(s string) []byte {
	b, _ := hex.DecodeString(s)
	return b
}

// real builds the order.Order value; a sidecar bid gets `ticket` (or an empty
// ticket when none is supplied: only its non-nil-ness enters the digest).
func (c c12Order) real(ticket *sidecar.Ticket) order.Order {
	var nonce order.Nonce
	copy(nonce[:], c12Unhex(c.Nonce))
	kit := order.NewKit(nonce)
	kit.Version = order.Version(c.Version)
	kit.State = order.State(c.State)
	kit.FixedRate = c.Rate
	kit.Amt = btcutil.Amount(c.Amt)
	kit.Units = order.SupplyUnit(c.Units)
	kit.UnitsUnfulfilled = order.SupplyUnit(c.Unfulfilled)
	kit.MaxBatchFeeRate = chainfee.SatPerKWeight(c.Fee)
	copy(kit.AcctKey[:], c12Unhex(c.AcctKey))
	kit.LeaseDuration = c.Lease
	kit.MinUnitsMatch = order.SupplyUnit(c.MinUnits)
	kit.ChannelType = order.ChannelType(c.ChannelType)
	kit.AuctionType = order.AuctionType(c.AuctionType)
	kit.IsPublic = c.IsPublic
	if !c.Bid {
		return &order.Ask{Kit: *kit,
			AnnouncementConstraints: order.ChannelAnnouncementConstraints(c.Announcement),
			ConfirmationConstraints: order.ChannelConfirmationConstraints(c.Confirmations)}
	}
	b := &order.Bid{Kit: *kit, MinNodeTier: order.NodeTier(c.MinNodeTier),
		SelfChanBalance: btcutil.Amount(c.SelfChanBal), UnannouncedChannel: c.Unannounced,
		ZeroConfChannel: c.ZeroConf}
	if c.Sidecar {
		b.SidecarTicket = ticket
		if ticket == nil {
			b.SidecarTicket = &sidecar.Ticket{}
		}
	}
	return b
}

func c12Digest(o order.Order) (out string) {
	defer func() {
		if x := recover(); x != nil {
			out = "err:panic"
		}
	}()
	d, err := o.Digest()
	if err != nil {
		return "err/digest"
	}
	return "ok:" + hex.EncodeToString(d[:])
}

// c12Defined: is the term part of the order terms of this side/version
// (order/interfaces.go Version* documentation and the property's list).
func c12Defined(term string, bid bool, v uint32) bool {
	if v > 5 {
		return false
	}
	switch term {
	case "nonce", "version", "rate", "amt", "lease", "fee":
		return true
	case "minunits":
		return v >= 1
	case "tier":
		return bid && v >= 1
	case "scb":
		return bid && v >= 3
	case "sidecar":
		return bid && v >= 4
	case "chantype":
		return v >= 5
	}
	return false
}

var c12Terms = []string{"nonce", "version", "rate", "amt", "lease", "fee", "minunits", "tier", "scb",
	"sidecar", "chantype"}
var c12Bookkeeping = []string{"state", "unfulfilled", "units"}
var c12Others = []string{"acctkey", "auctiontype", "public", "flags", "minunits+2^32"}

// c12Change returns a copy with exactly one field changed.
func c12Change(c c12Order, what string, rng *rand.Rand) c12Order {
	bit32 := func() uint32 { return uint32(1) << uint(rng.Intn(32)) }
	switch what {
	case "nonce":
		b := c12Unhex(c.Nonce)
		b[rng.Intn(32)] ^= byte(1 << uint(rng.Intn(8)))
		c.Nonce = hex.EncodeToString(b)
	case "version":
		// another KNOWN version (the digest of an unknown one is an error)
		c.Version = (c.Version + 1 + uint32(rng.Intn(5))) % 6
	case "rate":
		c.Rate ^= bit32()
	case "amt":
		if rng.Intn(2) == 0 {
			c.Amt += 100000
		} else {
			c.Amt ^= int64(1) << uint(rng.Intn(63))
		}
	case "lease":
		c.Lease ^= bit32()
	case "fee":
		c.Fee ^= int64(1) << uint(rng.Intn(63))
	case "minunits":
		c.MinUnits ^= uint64(bit32())
	case "minunits+2^32":
		c.MinUnits ^= uint64(1) << uint(32+rng.Intn(32))
	case "tier":
		if rng.Intn(2) == 0 {
			c.MinNodeTier = (c.MinNodeTier + 1 + uint32(rng.Intn(2))) % 3
		} else {
			c.MinNodeTier ^= bit32()
		}
	case "scb":
		if rng.Intn(2) == 0 {
			c.SelfChanBal += 1 + int64(rng.Intn(100000))
		} else {
			c.SelfChanBal ^= int64(1) << uint(rng.Intn(63))
		}
	case "sidecar":
		c.Sidecar = !c.Sidecar
	case "chantype":
		if rng.Intn(2) == 0 {
			c.ChannelType = (c.ChannelType + 1 + uint8(rng.Intn(2))) % 3
		} else {
			c.ChannelType ^= uint8(1) << uint(rng.Intn(8))
		}
	case "state":
		c.State = c.State + 1 + uint8(rng.Intn(6))
	case "unfulfilled":
		c.Unfulfilled ^= uint64(1) << uint(rng.Intn(40))
	case "units":
		c.Units ^= uint64(1) << uint(rng.Intn(40))
	case "acctkey":
		b := c12Unhex(c.AcctKey)
		b[1+rng.Intn(32)] ^= 1
		c.AcctKey = hex.EncodeToString(b)
	case "auctiontype":
		c.AuctionType ^= 1
	case "public":
		c.IsPublic = !c.IsPublic
	case "flags":
		c.Unannounced = !c.Unannounced
		c.Announcement ^= 1
	}
	return c
}

func c12RandOrder(rng *rand.Rand, keys *c14Keys, valid bool) c12Order {
	var nonce [32]byte
	rng.Read(nonce[:])
	c := c12Order{Bid: rng.Intn(2) == 0, Nonce: hex.EncodeToString(nonce[:])}
	k := 1 + rng.Intn(c14NKeys)
	c.AcctKey = hex.EncodeToString(keys.pub[k].SerializeCompressed())
	if valid || rng.Intn(10) < 8 {
		c.Version = uint32(rng.Intn(6))
	} else if rng.Intn(2) == 0 {
		c.Version = 6 + uint32(rng.Intn(3))
	} else {
		c.Version = rng.Uint32()
	}
	units := uint64(1 + rng.Intn(200))
	c.Amt = int64(units) * 100000
	c.Units, c.Unfulfilled = units, units
	c.MinUnits = 1 + uint64(rng.Int63n(int64(units)))
	c.Rate = rng.Uint32()
	if rng.Intn(2) == 0 {
		c.Rate = uint32(1 + rng.Intn(100000))
	}
	c.Lease = []uint32{2016, 4032, 1008, 144, 52560}[rng.Intn(5)]
	c.Fee = 253 + rng.Int63n(100000)
	c.ChannelType = uint8(rng.Intn(3))
	c.AuctionType = 0
	c.IsPublic = rng.Intn(2) == 0
	c.MinNodeTier = uint32(rng.Intn(3))
	c.Unannounced, c.ZeroConf = rng.Intn(4) == 0, rng.Intn(4) == 0
	c.Announcement, c.Confirmations = uint8(rng.Intn(3)), uint8(rng.Intn(3))
	if c.Bid && c.Version >= 3 && rng.Intn(3) == 0 {
		c.MinUnits = units
		c.SelfChanBal = rng.Int63n(c.Amt + 1)
	}
	if valid && rng.Intn(4) == 0 {
		// outbound liquidity market: the order amount is one unit, an ask's
		// minimum match (the channel the bidder opens) is legitimately larger
		// (ParseRPCOrder skips the min-units <= units check for this market)
		c.AuctionType = uint32(order.BTCOutboundLiquidity)
		c.Amt, c.Units, c.Unfulfilled = 100000, 1, 1
		c.SelfChanBal = 0
		if c.Bid {
			c.MinUnits = 1
			if c.Version >= 3 {
				c.SelfChanBal = int64(1+rng.Intn(50)) * 100000
			}
		} else {
			c.MinUnits = uint64(1 + rng.Intn(50))
		}
	}
	if valid {
		return c
	}
	// arbitrary values of the Go types
	c.State = uint8(rng.Intn(8))
	if rng.Intn(3) == 0 {
		c.Unfulfilled = uint64(rng.Int63n(int64(units) + 1))
	}
	if rng.Intn(4) == 0 {
		c.Amt = int64(rng.Uint64())
		c.Units = rng.Uint64() >> uint(rng.Intn(64))
	}
	if rng.Intn(4) == 0 {
		c.Fee = int64(rng.Uint64())
	}
	if rng.Intn(4) == 0 {
		c.Lease = rng.Uint32()
	}
	if rng.Intn(4) == 0 {
		c.MinUnits = rng.Uint64() >> uint(rng.Intn(64))
	}
	if rng.Intn(6) == 0 {
		c.ChannelType = uint8(rng.Intn(256))
	}
	if rng.Intn(6) == 0 {
		c.MinNodeTier = rng.Uint32() >> uint(rng.Intn(32))
	}
	if rng.Intn(4) == 0 {
		c.SelfChanBal = int64(rng.Uint64()) >> uint(rng.Intn(64))
	}
	if c.Bid {
		c.Sidecar = rng.Intn(3) == 0
	}
	if rng.Intn(6) == 0 {
		c.AuctionType = uint32(rng.Intn(4))
	}
	return c
}

// ------------------------------------------------------------------ in-process auctioneer

// c12Auctioneer is the gRPC server side: it records the request it RECEIVED
// (after a real protobuf wire round trip over bufconn).
type c12Auctioneer struct {
	auctioneerrpc.UnimplementedChannelAuctioneerServer
	got *auctioneerrpc.ServerSubmitOrderRequest

	// mode: 0 accept, 1 answer "invalid order", 2 fail the RPC
	mode int
}

func (a *c12Auctioneer) SubmitOrder(_ context.Context,
	req *auctioneerrpc.ServerSubmitOrderRequest) (*auctioneerrpc.ServerSubmitOrderResponse, error) {

	a.got = req
	switch a.mode {
	case 1:
		return &auctioneerrpc.ServerSubmitOrderResponse{
			Details: &auctioneerrpc.ServerSubmitOrderResponse_InvalidOrder{
				InvalidOrder: &auctioneerrpc.InvalidOrder{FailString: "verif: rejected"},
			},
		}, nil
	case 2:
		return nil, status.Error(codes.Unavailable, "verif: auctioneer unavailable")
	}
	return &auctioneerrpc.ServerSubmitOrderResponse{
		Details: &auctioneerrpc.ServerSubmitOrderResponse_Accepted{},
	}, nil
}

// c12Rebuild reconstructs the order from the transmitted fields only, the way
// the auctioneer has to in order to check the signature: the repo's
// ParseRPCServerAsk/Bid for everything they restore, plus the terms they leave
// out (min match from MinChanAmt, node tier, sidecar flag).
func c12Rebuild(req *auctioneerrpc.ServerSubmitOrderRequest) (order.Order, *auctioneerrpc.ServerOrder, error) {
	switch d := req.Details.(type) {
	case *auctioneerrpc.ServerSubmitOrderRequest_Ask:
		mo, err := order.ParseRPCServerAsk(d.Ask)
		if err != nil {
			return nil, nil, err
		}
		ask := mo.Order.(*order.Ask)
		ask.MinUnitsMatch = order.NewSupplyFromSats(btcutil.Amount(d.Ask.Details.MinChanAmt))
		return ask, d.Ask.Details, nil
	case *auctioneerrpc.ServerSubmitOrderRequest_Bid:
		mo, err := order.ParseRPCServerBid(d.Bid)
		if err != nil {
			return nil, nil, err
		}
		bid := mo.Order.(*order.Bid)
		bid.MinUnitsMatch = order.NewSupplyFromSats(btcutil.Amount(d.Bid.Details.MinChanAmt))
		switch d.Bid.MinNodeTier {
		case auctioneerrpc.NodeTier_TIER_DEFAULT:
			bid.MinNodeTier = order.NodeTierDefault
		case auctioneerrpc.NodeTier_TIER_0:
			bid.MinNodeTier = order.NodeTier0
		case auctioneerrpc.NodeTier_TIER_1:
			bid.MinNodeTier = order.NodeTier1
		default:
			return nil, nil, fmt.Errorf("unknown tier on the wire")
		}
		if d.Bid.IsSidecarChannel {
			bid.SidecarTicket = &sidecar.Ticket{}
		}
		return bid, d.Bid.Details, nil
	}
	return nil, nil, fmt.Errorf("no details")
}

// c12WireString prints the received request's fields in a fixed order.
func c12WireString(req *auctioneerrpc.ServerSubmitOrderRequest) string {
	det := func(d *auctioneerrpc.ServerOrder) string {
		return fmt.Sprintf("TraderKey:%s,AuctionType:%d,RateFixed:%d,Amt:%d,MinChanAmt:%d,OrderNonce:%s,"+
			"OrderSig:%s,MultiSigKey:%s,NodePub:%s,ChannelType:%d,MaxBatchFeeRateSatPerKw:%d,IsPublic:%s",
			c14Hex(d.TraderKey), int32(d.AuctionType), d.RateFixed, d.Amt, d.MinChanAmt, c14Hex(d.OrderNonce),
			c14Hex(d.OrderSig), c14Hex(d.MultiSigKey), c14Hex(d.NodePub), int32(d.ChannelType),
			d.MaxBatchFeeRateSatPerKw, c14B(d.IsPublic))
	}
	switch d := req.Details.(type) {
	case *auctioneerrpc.ServerSubmitOrderRequest_Ask:
		return det(d.Ask.Details) + fmt.Sprintf("|LeaseDurationBlocks:%d,Version:%d,"+
			"AnnouncementConstraints:%d,ConfirmationConstraints:%d", d.Ask.LeaseDurationBlocks,
			d.Ask.Version, int32(d.Ask.AnnouncementConstraints), int32(d.Ask.ConfirmationConstraints))
	case *auctioneerrpc.ServerSubmitOrderRequest_Bid:
		return det(d.Bid.Details) + fmt.Sprintf("|LeaseDurationBlocks:%d,Version:%d,MinNodeTier:%d,"+
			"SelfChanBalance:%d,IsSidecarChannel:%s,UnannouncedChannel:%s,ZeroConfChannel:%s",
			d.Bid.LeaseDurationBlocks, d.Bid.Version, int32(d.Bid.MinNodeTier), d.Bid.SelfChanBalance,
			c14B(d.Bid.IsSidecarChannel), c14B(d.Bid.UnannouncedChannel), c14B(d.Bid.ZeroConfChannel))
	}
	return "?"
}

// c12Preparer is the part of the (unexported) order manager the RPC server uses.
type c12Preparer interface {
	PrepareOrder(context.Context, order.Order, *account.Account,
		*terms.AuctioneerTerms) (*order.ServerOrderParams, error)
}

// c12Session is one trader daemon's order manager on top of the REAL client
// database (bbolt file in a scratch directory), shared by a group of
// submissions so that histories (failed submissions, retries under the same
// nonce) are possible.
type c12Session struct {
	db  *clientdb.DB
	mgr c12Preparer
	dir string
	n   int
}

func (ss *c12Session) close() {
	if ss == nil {
		return
	}
	_ = ss.db.Close()
	_ = os.RemoveAll(ss.dir)
}

type c12Env struct {
	*c14Env
	srv    *c12Auctioneer
	client *auctioneer.Client
	stop   func()
	sess   *c12Session
}

// session returns the current manager/database; a new one (and a `reset` line
// for the model) is started every 40 orders to keep GetOrders cheap.
func (e *c12Env) session(r *Run, fresh bool) *c12Session {
	if e.sess != nil && !fresh && e.sess.n < 40 {
		return e.sess
	}
	e.sess.close()
	base := ""
	if st, err := os.Stat("/dev/shm"); err == nil && st.IsDir() {
		base = "/dev/shm"
	}
	dir, err := os.MkdirTemp(base, "verif-c12-")
	if err != nil {
		panic(err)
	}
	db, err := clientdb.New(dir, clientdb.DBFilename)
	if err != nil {
		panic(err)
	}
	e.sess = &c12Session{db: db, dir: dir, mgr: order.NewManager(&order.ManagerConfig{
		Store: db, Lightning: test.NewMockLightning(), Wallet: test.NewMockWalletKit(),
		Signer: e.signer,
	})}
	r.Emit("C12 reset", "ok")
	return e.sess
}

func newC12Env(seed int64) *c12Env {
	keys := newC14Keys(seed, c14NKeys)
	e := &c12Env{c14Env: &c14Env{keys: keys, ctx: context.Background(),
		signer: &c14Signer{keys: keys, log: map[string]string{}}}}
	lis := bufconn.Listen(1 << 20)
	gs := grpc.NewServer()
	e.srv = &c12Auctioneer{}
	auctioneerrpc.RegisterChannelAuctioneerServer(gs, e.srv)
	go func() { _ = gs.Serve(lis) }()
	conn, err := grpc.DialContext(e.ctx, "bufnet", // nolint
		grpc.WithContextDialer(func(ctx context.Context, _ string) (net.Conn, error) {
			return lis.DialContext(ctx)
		}), grpc.WithTransportCredentials(insecure.NewCredentials()))
	if err != nil {
		panic(err)
	}
	e.client = auctioneer.VerifC12NewClient(&auctioneer.Config{
		GenUserAgent: func(context.Context) string { return "verif" },
	}, auctioneerrpc.NewChannelAuctioneerClient(conn))
	e.stop = func() { conn.Close(); gs.Stop(); e.sess.close(); e.sess = nil }
	return e
}

// ------------------------------------------------------------------ evaluations

// termCase: digest of a random order and of every single-field change.
func (e *c12Env) termCase(r *Run, c c12Order, rng *rand.Rand) {
	base := c12Digest(c.real(nil))
	r.Emit("C12 digest "+c.tok(), base)
	r.Evaluations++
	r.Distinct(c.tok())
	side := "ask"
	if c.Bid {
		side = "bid"
	}
	vb := fmt.Sprint(c.Version)
	if c.Version > 5 {
		vb = "unknown"
	}
	r.Count("digest/" + side + "/v" + vb)
	r.Count("digest/" + strings.SplitN(base, ":", 2)[0])
	if len(r.Samples) < 2 {
		r.Sample(map[string]interface{}{"order": c, "digest": base})
	}
	if !strings.HasPrefix(base, "ok:") {
		return
	}
	check := func(what string, mustDiffer, mustEqual bool) {
		if what == "sidecar" && !c.Bid || (what == "tier" || what == "scb") && !c.Bid {
			return
		}
		c2 := c12Change(c, what, rng)
		d2 := c12Digest(c2.real(nil))
		r.Emit("C12 digest "+c2.tok(), d2)
		r.Evaluations++
		same := d2 == base
		switch {
		case mustDiffer && same:
			r.Count("oracle/violation")
			r.Violate(fmt.Sprintf("%s v%d digest unchanged after changing the term %q", side, c.Version, what),
				fmt.Sprintf("C12/term-not-signed/%s/%s/v%d", side, what, c.Version),
				map[string]interface{}{"op": "term", "order": c, "changed": c2, "what": what})
		case mustEqual && !same:
			r.Count("oracle/violation")
			r.Violate(fmt.Sprintf("%s v%d digest depends on bookkeeping field %q", side, c.Version, what),
				fmt.Sprintf("C12/bookkeeping-signed/%s/%s/v%d", side, what, c.Version),
				map[string]interface{}{"op": "term", "order": c, "changed": c2, "what": what})
		}
		if same {
			r.Count("change/" + what + "/same")
		} else {
			r.Count("change/" + what + "/differs")
		}
	}
	for _, t := range c12Terms {
		def := c12Defined(t, c.Bid, c.Version)
		if t == "version" {
			// the changed order has another (known) version
			check(t, true, false)
			continue
		}
		check(t, def, false)
	}
	for _, t := range c12Bookkeeping {
		check(t, false, t != "units")
	}
	for _, t := range c12Others {
		check(t, false, false)
	}
}

// submitCase: one run of what rpcServer.SubmitOrder does with a parsed order:
// the real PrepareOrder on the session's manager and database, on success the
// real Client.SubmitOrder to the in-process auctioneer (which may accept,
// reject or fail: `mode`), on any failure the order is marked failed in the
// database. Returns whether a request was transmitted.
func (e *c12Env) submitCase(r *Run, c c12Order, rng *rand.Rand, replay interface{}, mode int) bool {
	ss := e.session(r, false)
	ss.n++
	k := e.keys.ids[string(c12Unhex(c.AcctKey))]
	if k == 0 {
		// recorded case without a key of this run's table: use account 1
		k = 1
		c.AcctKey = hex.EncodeToString(e.keys.pub[1].SerializeCompressed())
	}
	acct := &account.Account{
		Value: math.MaxInt64 / 4,
		TraderKey: &keychain.KeyDescriptor{
			KeyLocator: keychain.KeyLocator{Family: 220, Index: uint32(k)}, PubKey: e.keys.pub[k],
		},
	}
	var ticket *sidecar.Ticket
	if c.Bid && c.Sidecar {
		// a registered ticket offered by this very account for this bid
		var id [8]byte
		rng.Read(id[:])
		ticket, _ = e.honest(c14Base{ID: hex.EncodeToString(id[:]), Version: uint8(rng.Intn(2)), State: 2,
			Capacity: c.Amt, Push: c.SelfChanBal, Lease: c.Lease, Unannounced: c.Unannounced,
			ZeroConf: c.ZeroConf, SignKey: k, Nonce: c.Nonce})
		ticket.Order = nil
		ticket.State = sidecar.StateRegistered
	}
	o := c.real(ticket)
	tm := &terms.AuctioneerTerms{
		LeaseDurationBuckets: map[uint32]auctioneerrpc.DurationBucketState{
			c.Lease: auctioneerrpc.DurationBucketState_MARKET_OPEN},
		OrderExecBaseFee: 1, OrderExecFeeRate: 100,
	}
	markFailed := func() {
		// rpcServer.SubmitOrder: "The server rejected the order. We keep it
		// around for now"
		_ = ss.db.UpdateOrder(o.Nonce(), order.StateModifier(order.StateFailed))
	}
	e.signer.lastMsg = nil
	e.srv.got, e.srv.mode = nil, mode
	var params *order.ServerOrderParams
	var perr error
	res := c14Guard(func() error {
		params, perr = ss.mgr.PrepareOrder(e.ctx, o, acct, tm)
		return perr
	})
	if res != "ok" {
		out := res
		if perr != nil && strings.Contains(perr.Error(), clientdb.ErrOrderExists.Error()) {
			out = "err:exists"
		}
		r.Emit(fmt.Sprintf("C12 prepare %s %d", c.tok(), k), out)
		r.Count("prepare/" + out)
		markFailed()
		if out != "err:exists" {
			r.Count("submit/prepare-rejected")
			r.Notes = append(r.Notes, "PrepareOrder rejected a generated order: "+res)
		}
		if e.srv.got != nil {
			r.Violate("a request reached the auctioneer although PrepareOrder refused the order",
				"C12/refused-but-sent", replay)
		}
		return false
	}
	r.Count("prepare/ok")
	signedMsg := append([]byte(nil), e.signer.lastMsg...)
	signerKey := int(e.signer.lastLoc.Index)
	if e.signer.lastLoc.Family != acct.TraderKey.KeyLocator.Family {
		signerKey += 900000
	}
	r.Emit(fmt.Sprintf("C12 prepare %s %d", c.tok(), k),
		fmt.Sprintf("ok:%d.%s", signerKey, c14Hex(signedMsg)))
	sres := c14Guard(func() error { return e.client.SubmitOrder(e.ctx, o, params) })
	r.Count(fmt.Sprintf("submit/mode%d/%s", mode, sres[:min(len(sres), 3)]))
	if sres != "ok" {
		markFailed()
	}
	if e.srv.got == nil || (mode == 0 && sres != "ok") {
		r.Count("submit/" + sres)
		r.Violate("SubmitOrder failed for an order PrepareOrder accepted: "+sres, "C12/submit-failed", replay)
		return false
	}
	got := e.srv.got
	rb, det, rerr := c12Rebuild(got)
	rd := "rederive-failed"
	if rerr == nil {
		rd = c12Digest(rb)
	}
	r.Emit(fmt.Sprintf("C12 submit %s %s %s %s", c.tok(), c14Hex(params.RawSig), c14Hex(params.MultiSigKey[:]),
		c14Hex(params.NodePubkey[:])), "ok "+c12WireString(got)+" "+rd)
	r.Evaluations++
	r.Distinct("submit" + c.tok())
	side := "ask"
	if c.Bid {
		side = "bid"
	}
	r.Count(fmt.Sprintf("submit/%s/v%d", side, c.Version))
	r.Count(fmt.Sprintf("submit/market%d/%s", c.AuctionType, side))
	if c.MinUnits > c.Units {
		r.Count("submit/minunits>units")
	}
	if c.Bid && c.Sidecar {
		r.Count("submit/sidecar")
	}
	if len(r.Samples) < 4 {
		r.Sample(map[string]interface{}{"order": c, "received": c12WireString(got), "rederived": rd})
	}

	// ---- oracle: the digest re-derived from the transmitted fields is the
	// one the account key signed
	var why []string
	if rerr != nil {
		why = append(why, "order cannot be rebuilt from the transmitted fields: "+rerr.Error())
	} else {
		if rd != "ok:"+hex.EncodeToString(signedMsg) {
			why = append(why, "digest re-derived from the transmitted fields ("+rd+
				") differs from the signed digest "+hex.EncodeToString(signedMsg))
		}
		pub, perr := btcec.ParsePubKey(det.TraderKey)
		sig, serr := ecdsa.ParseDERSignature(det.OrderSig)
		if perr != nil || serr != nil || !pub.IsEqual(acct.TraderKey.PubKey) {
			why = append(why, "transmitted trader key / signature unusable or not the account key")
		} else if rdb, _ := hex.DecodeString(strings.TrimPrefix(rd, "ok:")); !sig.Verify(chainhash.HashB(rdb), pub) {
			why = append(why, "transmitted signature does not verify under the account key over the re-derived digest")
		}
	}
	if e.signer.lastLoc != acct.TraderKey.KeyLocator {
		why = append(why, "order digest was signed with another key locator than the account's")
	}
	if _, gerr := ss.db.GetOrder(o.Nonce()); gerr != nil {
		why = append(why, "order not on record in the client database")
	}
	if len(why) > 0 {
		r.Count("oracle/violation")
		r.Violate("order sent to the auctioneer is not the one signed: "+strings.Join(why, "; "),
			fmt.Sprintf("C12/sent-not-signed/%s/v%d", side, c.Version), replay)
	}
	return true
}

// c12ValidChange changes one SIGNED term of a valid order such that the order
// stays valid for PrepareOrder.
func c12ValidChange(c c12Order, rng *rand.Rand) (c12Order, string) {
	for {
		switch rng.Intn(6) {
		case 0:
			c.Rate = c.Rate%100000 + 1 + uint32(rng.Intn(5000))
			return c, "rate"
		case 1:
			c.Fee += 1 + int64(rng.Intn(5000))
			return c, "fee"
		case 2:
			c.Lease = []uint32{2016, 4032, 1008, 144, 52560}[rng.Intn(5)] + 1
			return c, "lease"
		case 3:
			if c.Version >= 1 && c.Units > 1 && c.SelfChanBal == 0 && !c.Sidecar && c.AuctionType == 0 {
				c.MinUnits = 1 + (c.MinUnits % c.Units)
				return c, "minunits"
			}
		case 4:
			if c.Bid && c.Version >= 1 {
				c.MinNodeTier = (c.MinNodeTier + 1) % 3
				return c, "tier"
			}
		case 5:
			if c.Version >= 5 {
				c.ChannelType = (c.ChannelType + 1) % 3
				return c, "chantype"
			}
		}
	}
}

type c12Step struct {
	Order c12Order `json:"order"`
	Mode  int      `json:"mode"`
	What  string   `json:"what"`
}

// historyCase: several submissions on ONE manager and database under the same
// explicit nonce: a first submission that the auctioneer accepts, rejects or
// that fails in transit, then retries with identical and with changed terms.
// Per step: whatever is transmitted re-derives to the digest that was signed
// in that step (oracle inside submitCase); a refused step transmits nothing.
func (e *c12Env) historyCase(r *Run, steps []c12Step, seed int64) {
	rng := rand.New(rand.NewSource(seed))
	for i, st := range steps {
		replay := map[string]interface{}{"op": "history", "seed": seed, "steps": steps[:i+1]}
		nv := len(r.Violations)
		sent := e.submitCase(r, st.Order, rng, replay, st.Mode)
		r.Count(fmt.Sprintf("history/%s/sent=%v", st.What, sent))
		if len(r.Violations) > nv {
			return
		}
	}
	r.Evaluations++
}

func (e *c12Env) randHistory(rng *rand.Rand) []c12Step {
	c := c12RandOrder(rng, e.keys, true)
	steps := []c12Step{{Order: c, Mode: rng.Intn(3), What: "first"}}
	n := 1 + rng.Intn(3)
	for i := 0; i < n; i++ {
		if rng.Intn(3) == 0 {
			steps = append(steps, c12Step{Order: c, Mode: rng.Intn(3), What: "retry-same"})
			continue
		}
		c2, what := c12ValidChange(c, rng)
		steps = append(steps, c12Step{Order: c2, Mode: rng.Intn(3), What: "retry-" + what})
		if rng.Intn(2) == 0 {
			c = c2
		}
	}
	return steps
}

// submitRaw: SubmitOrder alone on arbitrary orders (error clauses of the
// channel type switch and MarshallNodeTier, wrapped amounts).
func (e *c12Env) submitRaw(r *Run, c c12Order, rng *rand.Rand) {
	o := c.real(nil)
	params := &order.ServerOrderParams{RawSig: make([]byte, 8+rng.Intn(64))}
	rng.Read(params.RawSig)
	copy(params.MultiSigKey[:], e.keys.pub[1+rng.Intn(c14NKeys)].SerializeCompressed())
	copy(params.NodePubkey[:], e.keys.pub[1+rng.Intn(c14NKeys)].SerializeCompressed())
	params.Addrs = []net.Addr{&net.TCPAddr{IP: net.IPv4(127, 0, 0, 1), Port: 9735}}
	e.srv.got = nil
	var res string
	func() {
		defer func() {
			if x := recover(); x != nil {
				res = "err:panic"
			}
		}()
		err := e.client.SubmitOrder(e.ctx, o, params)
		switch {
		case err == nil:
			res = "ok"
		case e.srv.got == nil:
			// refused locally, nothing was transmitted
			res = "err/unsent"
		default:
			res = "err/sent"
		}
	}()
	out := res
	if res == "ok" && e.srv.got != nil {
		rb, _, rerr := c12Rebuild(e.srv.got)
		rd := "rederive-failed"
		if rerr == nil {
			rd = c12Digest(rb)
		}
		out = "ok " + c12WireString(e.srv.got) + " " + rd
		// oracle (no signature involved here): whatever SubmitOrder transmits
		// for an order whose min match fits the wire field (MinUnitsMatch *
		// 100000 < 2^64) must let the receiver re-derive the digest the
		// trader would sign for that order
		want := c12Digest(o)
		if c.MinUnits < math.MaxUint64/100000 && strings.HasPrefix(want, "ok:") {
			r.Count("submitraw/oracle-evaluated")
			if rd != want {
				r.Count("oracle/violation")
				r.Violate("digest re-derived from the transmitted fields ("+rd+") differs from the order's digest "+
					want+"; received "+c12WireString(e.srv.got),
					fmt.Sprintf("C12/sent-not-signed/raw/v%d", c.Version),
					map[string]interface{}{"op": "submitraw", "order": c, "seed": r.Seed})
			}
		}
	}
	r.Emit(fmt.Sprintf("C12 submit %s %s %s %s", c.tok(), c14Hex(params.RawSig), c14Hex(params.MultiSigKey[:]),
		c14Hex(params.NodePubkey[:])), out)
	r.Count("submitraw/" + res)
	if c.ChannelType > 2 {
		r.Count("submitraw/undefined-channel-type")
	} else if c.Bid && c.MinNodeTier > 2 {
		r.Count("submitraw/undefined-node-tier")
	}
}

// c12FromKit is the JSON/token form of a kit produced by the real code.
func c12FromKit(k *order.Kit) c12Order {
	n := k.Nonce()
	return c12Order{Nonce: hex.EncodeToString(n[:]), Version: uint32(k.Version), State: uint8(k.State),
		Rate: k.FixedRate, Amt: int64(k.Amt), Units: uint64(k.Units), Unfulfilled: uint64(k.UnitsUnfulfilled),
		Fee: int64(k.MaxBatchFeeRate), AcctKey: hex.EncodeToString(k.AcctKey[:]), Lease: k.LeaseDuration,
		MinUnits: uint64(k.MinUnitsMatch), ChannelType: uint8(k.ChannelType), AuctionType: uint32(k.AuctionType),
		IsPublic: k.IsPublic}
}

// parseCase: the real order.ParseRPCOrder on a random poolrpc.Order.
func (e *c12Env) parseCase(r *Run, rng *rand.Rand) {
	d := &poolrpc.Order{RateFixed: rng.Uint32(), IsPublic: rng.Intn(2) == 0}
	d.TraderKey = e.keys.pub[1+rng.Intn(c14NKeys)].SerializeCompressed()
	if rng.Intn(10) == 0 {
		d.TraderKey = d.TraderKey[:rng.Intn(34)]
	}
	d.OrderNonce = make([]byte, 32)
	rng.Read(d.OrderNonce)
	switch rng.Intn(12) {
	case 0:
		d.OrderNonce = nil
	case 1:
		d.OrderNonce = d.OrderNonce[:1+rng.Intn(31)]
	case 2:
		d.OrderNonce = append(d.OrderNonce, 1, 2, 3)
	}
	units := uint64(1 + rng.Intn(300))
	d.Amt = units*100000 + uint64(rng.Intn(2))*uint64(rng.Intn(100000))
	switch rng.Intn(10) {
	case 0:
		d.Amt = rng.Uint64()
	case 1:
		d.Amt = uint64(rng.Intn(100000))
	}
	d.MaxBatchFeeRateSatPerKw = uint64(253 + rng.Intn(100000))
	if rng.Intn(8) == 0 {
		d.MaxBatchFeeRateSatPerKw = rng.Uint64()
	}
	switch rng.Intn(6) {
	case 0:
		d.MinUnitsMatch = 0
	case 1:
		d.MinUnitsMatch = uint32(units) + 1 + uint32(rng.Intn(5))
	case 2:
		d.MinUnitsMatch = rng.Uint32()
	default:
		d.MinUnitsMatch = 1 + uint32(rng.Int63n(int64(units)))
	}
	d.ChannelType = auctioneerrpc.OrderChannelType(rng.Intn(5))
	if rng.Intn(10) == 0 {
		d.ChannelType = auctioneerrpc.OrderChannelType(4 + rng.Intn(100))
	}
	d.AuctionType = auctioneerrpc.AuctionType(rng.Intn(2))
	if rng.Intn(10) == 0 {
		d.AuctionType = auctioneerrpc.AuctionType(2 + rng.Intn(3))
	}
	ids := func() ([][]byte, string) {
		n := 0
		if rng.Intn(3) == 0 {
			n = 1 + rng.Intn(3)
		}
		var res [][]byte
		var toks []string
		for i := 0; i < n; i++ {
			id := e.keys.pub[1+rng.Intn(c14NKeys)].SerializeCompressed()
			switch rng.Intn(8) {
			case 0:
				id = id[:rng.Intn(33)]
			case 1:
				id = append([]byte{5}, id[1:]...) // 33 bytes, not a key encoding
			}
			_, perr := btcec.ParsePubKey(id)
			res = append(res, id)
			toks = append(toks, fmt.Sprintf("%d:%s", len(id), c14B(perr == nil)))
		}
		if n == 0 {
			return nil, "-"
		}
		return res, strings.Join(toks, "/")
	}
	var alTok, nalTok string
	d.AllowedNodeIds, alTok = ids()
	d.NotAllowedNodeIds, nalTok = ids()
	version, lease := uint32(rng.Intn(7)), []uint32{2016, 4032, 144, rng.Uint32()}[rng.Intn(4)]
	var opts []order.ParseOption
	sel := "-"
	if rng.Intn(3) == 0 {
		ct := order.ChannelType(rng.Intn(3))
		opts = append(opts, order.WithDefaultChannelType(func() order.ChannelType { return ct }))
		sel = fmt.Sprint(uint8(ct))
	}
	var kit *order.Kit
	var res string
	func() {
		defer func() {
			if x := recover(); x != nil {
				res = "err:panic"
			}
		}()
		var err error
		kit, err = order.ParseRPCOrder(version, lease, d, opts...)
		if err == nil {
			res = "ok"
		} else {
			res = "err"
		}
	}()
	out := res
	if res == "ok" {
		if kit.Preimage != [32]byte{} {
			out = "err:random-nonce"
		} else {
			out = "ok " + c12FromKit(kit).tok()
		}
	}
	tok := strings.Join([]string{c14Hex(d.TraderKey), fmt.Sprint(d.RateFixed), fmt.Sprint(d.Amt),
		fmt.Sprint(d.MaxBatchFeeRateSatPerKw), c14Hex(d.OrderNonce), fmt.Sprint(d.MinUnitsMatch),
		fmt.Sprint(int32(d.ChannelType)), fmt.Sprint(int32(d.AuctionType)), c14B(d.IsPublic), alTok, nalTok}, ",")
	r.Emit(fmt.Sprintf("C12 parse %d %d %s %s", version, lease, tok, sel), out)
	r.Evaluations++
	r.Count("parse/" + strings.SplitN(out, " ", 2)[0])
	// oracle: an order the RPC layer builds lies in the domain in which the
	// digest is injective and the wire mapping loss-free
	if res == "ok" && kit.Preimage == [32]byte{} {
		mu := uint64(kit.MinUnitsMatch)
		if mu == 0 || mu >= 1<<32 || uint8(kit.ChannelType) > 2 ||
			(kit.AuctionType != order.BTCOutboundLiquidity && uint64(kit.Units) < 1<<32 && mu > uint64(kit.Units)) {

			r.Count("oracle/violation")
			r.Violate("ParseRPCOrder built an order outside the signed-terms domain (min units match 0, >= 2^32 "+
				"or above the order's units; undefined channel type): "+out, "C12/parse-domain",
				map[string]interface{}{"op": "parse", "request": tok, "version": version})
		}
	}
}

func runC12(r *Run) {
	r.Rule = "per case: one random ask/bid of version 0..5 (plus unknown versions, arbitrary field values of the " +
		"Go types) digested by the real Ask/Bid.Digest, then every term, every bookkeeping field and some " +
		"unsigned fields changed individually and re-digested; two valid orders (incl. sidecar bids with a real " +
		"signed ticket) through the real order.manager.PrepareOrder (real ECDSA signer) and the real " +
		"auctioneer.Client.SubmitOrder over gRPC/bufconn to an in-process auctioneer that rebuilds the order " +
		"from the received fields; one arbitrary order through SubmitOrder alone; non-trivial = distinct order"
	e := newC12Env(r.Seed)
	defer e.stop()
	for _, raw := range r.FixedCases() {
		var f struct {
			Op    string   `json:"op"`
			Order c12Order  `json:"order"`
			Seed  int64     `json:"seed"`
			Steps []c12Step `json:"steps"`
		}
		if json.Unmarshal(raw, &f) != nil {
			continue
		}
		r.Count("case/fixed")
		rng := rand.New(rand.NewSource(f.Seed))
		switch f.Op {
		case "term":
			e.termCase(r, f.Order, rng)
		case "submitraw":
			e.submitRaw(r, f.Order, rng)
		case "history":
			e2 := newC12Env(f.Seed)
			e2.session(r, true)
			e2.historyCase(r, f.Steps, f.Seed)
			e2.stop()
		case "submit":
			// keys of a replayed submit case come from the recorded seed
			e2 := newC12Env(f.Seed)
			e2.submitCase(r, f.Order, rng, raw, 0)
			e2.stop()
		}
	}
	if r.ReplayFile != "" {
		return
	}
	for i := 0; i < r.N && len(r.Violations) < 20; i++ {
		e.termCase(r, c12RandOrder(r.Rng, e.keys, r.Rng.Intn(3) == 0), r.Rng)
		for j := 0; j < 2; j++ {
			c := c12RandOrder(r.Rng, e.keys, true)
			if c.Bid && c.Version >= 4 && c.SelfChanBal == 0 && c.AuctionType == 0 && r.Rng.Intn(2) == 0 {
				c.Sidecar = true
				c.MinUnits = c.Units
			}
			e.submitCase(r, c, r.Rng, map[string]interface{}{"op": "submit", "order": c, "seed": r.Seed}, 0)
		}
		e.submitRaw(r, c12RandOrder(r.Rng, e.keys, false), r.Rng)
		e.parseCase(r, r.Rng)
		if i%2 == 0 {
			e.historyCase(r, e.randHistory(r.Rng), r.Seed)
		}
	}
}
