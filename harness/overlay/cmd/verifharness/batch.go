//go:build verif

package main

// Shared harness of C01/C02/C03: generates batch proposals (honest auctioneer
// simulation + 0-2 deviations), runs the REAL order.ParseRPCBatch and
// order.NewManager(...).OrderMatchValidate on them, emits each proposal as one
// JSON token for the Lean model, and evaluates the property's English
// statement (independent Go oracle, big.Int arithmetic, direct poolscript/lnd
// calls) on every accepted proposal.

import (
	"bytes"
	"context"
	"crypto/sha256"
	"encoding/hex"
	"encoding/json"
	"errors"
	"fmt"
	"math/big"
	"math/rand"
	"os"
	"sort"
	"strings"

	"github.com/btcsuite/btcd/blockchain"
	"github.com/btcsuite/btcd/btcec/v2"
	"github.com/btcsuite/btcd/btcutil"
	"github.com/btcsuite/btcd/chaincfg/chainhash"
	"github.com/btcsuite/btcd/wire"
	"github.com/lightninglabs/lndclient"
	"github.com/lightninglabs/pool/account"
	"github.com/lightninglabs/pool/auctioneerrpc"
	"github.com/lightninglabs/pool/clientdb"
	"github.com/lightninglabs/pool/internal/test"
	"github.com/lightninglabs/pool/order"
	"github.com/lightninglabs/pool/poolscript"
	"github.com/lightninglabs/pool/sidecar"
	"github.com/lightninglabs/pool/terms"
	"github.com/lightningnetwork/lnd/fn/v2"
	"github.com/lightningnetwork/lnd/input"
	"github.com/lightningnetwork/lnd/keychain"
	"github.com/lightningnetwork/lnd/lnrpc"
)

func init() {
	props["C01"] = runBatch
	props["C02"] = runBatch
	props["C03"] = runBatch
}

// ---------------------------------------------------------------- case data

type bOurs struct {
	Nonce            string   `json:"nonce"`
	IsAsk            bool     `json:"isAsk"`
	AcctKey          string   `json:"acctKey"`
	AcctKeyParses    bool     `json:"acctKeyParses"`
	AuctionType      uint32   `json:"auctionType"`
	Duration         uint32   `json:"duration"`
	Rate             uint32   `json:"rate"`
	UnitsUnfulfilled uint64   `json:"unitsUnfulfilled"`
	MinUnitsMatch    uint64   `json:"minUnitsMatch"`
	ChanType         uint8    `json:"chanType"`
	SelfChanBalance  int64    `json:"selfChanBalance"`
	Sidecar          int      `json:"sidecar"` // 0 none, 1 ticket w/o recipient key, 2 with key
	SidecarKey       string   `json:"sidecarKey"`
	DerivedKey       *string  `json:"derivedKey"` // oracle: wallet.DeriveKey result (nil = error)
	Allowed          []string `json:"allowed"`
	NotAllowed       []string `json:"notAllowed"`
	KeyIndex         uint32   `json:"keyIndex"` // harness only: key locator index (0xffff = wallet error)
	// harness only: the order's original size (>= unfulfilled for an order partially filled by
	// earlier batches; 0 = same as unfulfilled) and the offer of its sidecar ticket
	Units          uint64 `json:"units"`
	TicketPushAmt  int64  `json:"ticketPushAmt"`
	// harness only: identity key of the sidecar ticket's recipient node ("" = not set)
	SidecarNodeKey string `json:"sidecarNodeKey"`
	TicketCapacity int64  `json:"ticketCapacity"`
}

type bAcct struct {
	Key     string `json:"key"`
	Value   int64  `json:"value"`
	Expiry  uint32 `json:"expiry"`
	Version uint8  `json:"version"`
	// harness only
	Auctioneer string `json:"auctioneer"`
	BatchKey   string `json:"batchKey"`
	Secret     string `json:"secret"`
}

type bTheir struct {
	Nonce           string `json:"nonce"`
	AuctionType     uint32 `json:"auctionType"`
	Duration        uint32 `json:"duration"`
	Rate            uint32 `json:"rate"`
	SelfChanBalance uint64 `json:"selfChanBalance"`
	ChanType        int32  `json:"chanType"`
	NodeKey         string `json:"nodeKey"`
	MultiSigKey     string `json:"multiSigKey"`
	UnitsFilled     uint32 `json:"unitsFilled"`
	// order version of the counterparty's order (ServerAsk/ServerBid.Version)
	Version uint32 `json:"version"`
	// SEC encoding of the two keys on the wire: 0 compressed (33 bytes), 1 uncompressed, 2 hybrid (65 bytes).
	// nodeKey / multiSigKey above are the canonical compressed form (what a parser must arrive at).
	NodeKeyEnc     int `json:"nodeKeyEnc"`
	MultiSigKeyEnc int `json:"multiSigKeyEnc"`
}

// bWireKey encodes a compressed public key (hex) in the given SEC encoding.
func bWireKey(h string, enc int) []byte {
	raw, _ := hex.DecodeString(h)
	if enc == 0 {
		return raw
	}
	k, err := bParseKey(h)
	if err != nil {
		return raw
	}
	u := k.SerializeUncompressed()
	if enc == 2 {
		u[0] = 0x06 | (u[64] & 1)
	}
	return u
}

type bMatched struct {
	Nonce string   `json:"nonce"`
	Asks  []bTheir `json:"asks"`
	Bids  []bTheir `json:"bids"`
}

type bMarket struct {
	Duration uint32     `json:"duration"`
	Price    uint32     `json:"price"`
	Orders   []bMatched `json:"orders"`
}

type bDiff struct {
	AcctKey       string `json:"acctKey"`
	EndingState   int32  `json:"endingState"`
	EndingBalance uint64 `json:"endingBalance"`
	OutpointIndex int32  `json:"outpointIndex"`
	NewExpiry     uint32 `json:"newExpiry"`
	NewVersion    uint32 `json:"newVersion"`
}

type bTxOut struct {
	Value  int64  `json:"value"`
	Script string `json:"script"`
}

type bMsg struct {
	ID         string    `json:"id"`
	Version    uint32    `json:"version"`
	HeightHint uint32    `json:"heightHint"`
	Markets    []bMarket `json:"markets"`
	Diffs      []bDiff   `json:"diffs"`
	ExecBase   uint64    `json:"execBase"`
	ExecRate   uint64    `json:"execRate"`
	FeeRate    uint64    `json:"feeRate"`
	TxOuts     []bTxOut  `json:"txOuts"`
}

type bEnv struct {
	Orders    []bOurs `json:"orders"`
	Accounts  []bAcct `json:"accounts"`
	OurNode   string  `json:"ourNode"`
	Version   uint32  `json:"version"`
	MinNoDust int64   `json:"minNoDust"`
}

type bPremium struct {
	Amt  int64  `json:"amt"`
	Rate uint32 `json:"rate"`
	Dur  uint32 `json:"dur"`
	Val  int64  `json:"val"`
}
type bAcctScript struct {
	Acct   string  `json:"acct"`
	Sv     uint8   `json:"sv"`
	Expiry uint32  `json:"expiry"`
	Script *string `json:"script"`
}
type bFundScript struct {
	Taproot bool    `json:"taproot"`
	Ours    string  `json:"ours"`
	Theirs  string  `json:"theirs"`
	Script  *string `json:"script"`
}
type bOracle struct {
	Premium     []bPremium    `json:"premium"`
	AcctScripts []bAcctScript `json:"acctScripts"`
	FundScripts []bFundScript `json:"fundScripts"`
}

type bCase struct {
	Env    bEnv     `json:"env"`
	Best   uint32   `json:"best"`
	Msg    bMsg     `json:"msg"`
	Visit  []string `json:"visit"`
	// the order of MatchedMarkets consistent with which entry of a nonce occurring in
	// two markets ParseRPCBatch kept in this run (empty = irrelevant)
	MarketOrder []uint32 `json:"marketOrder"`
	Oracle      bOracle  `json:"oracle"`
	Devs   []string `json:"devs"` // harness only: deviations applied
	// harness only: the (hostile) auctioneer settles with another premium formula (0 = the definition)
	PremiumAlt int `json:"premiumAlt"`
	// harness only: the orders live in a REAL clientdb store; orders with units > unfulfilled
	// got there through an earlier staged + completed batch. env.orders of the op line is
	// what that store returns, the oracles judge by the terms the trader submitted.
	RealStore bool `json:"realStore"`
	intended  []bOurs
}

// ---------------------------------------------------------------- keys

var (
	bKeyCache  = map[int]*btcec.PublicKey{}
	bKeyByHex  = map[string]*btcec.PublicKey{}
	bFundCache = map[string]*string{}
)

func bKey(i int) *btcec.PublicKey {
	if k, ok := bKeyCache[i]; ok {
		return k
	}
	h := sha256.Sum256([]byte(fmt.Sprintf("verif-batch-key-%d", i)))
	_, pub := btcec.PrivKeyFromBytes(h[:])
	bKeyCache[i] = pub
	bKeyByHex[hex.EncodeToString(pub.SerializeCompressed())] = pub
	return pub
}

func bKeyHex(i int) string { return hex.EncodeToString(bKey(i).SerializeCompressed()) }

func bParseKey(h string) (*btcec.PublicKey, error) {
	if k, ok := bKeyByHex[h]; ok {
		return k, nil
	}
	b, err := hex.DecodeString(h)
	if err != nil {
		return nil, err
	}
	k, err := btcec.ParsePubKey(b)
	if err != nil {
		return nil, err
	}
	bKeyByHex[h] = k
	return k, nil
}

func bHex33(h string) [33]byte {
	var a [33]byte
	b, _ := hex.DecodeString(h)
	copy(a[:], b)
	return a
}

// key index ranges of the pool
const (
	bKeyNodeOurs  = 1
	bKeyAcct      = 10  // +0..5 trader, +10.. auctioneer, +20.. batch key
	bKeyOurMulti  = 50  // +0..11 (wallet key index = pool index)
	bKeySidecar   = 70  // +0..3
	bKeyTheirNode = 100 // +0..15
	bKeyTheirMS   = 130 // +0..15
	bKeyBatchID   = 200 // +0..63
)

// ---------------------------------------------------------------- mocks

type bStore struct {
	order.Store
	orders map[order.Nonce]order.Order
	visits []string
	failed bool // a GetOrder call returned an error since the last reset
	real   *clientdb.DB
	realDir string
}

func (s *bStore) GetOrder(n order.Nonce) (order.Order, error) {
	s.visits = append(s.visits, hex.EncodeToString(n[:]))
	if s.real != nil {
		o, err := s.real.GetOrder(n)
		if err != nil {
			s.failed = true
		}
		return o, err
	}
	o, ok := s.orders[n]
	if !ok {
		s.failed = true
		return nil, fmt.Errorf("order not found")
	}
	return o, nil
}

type bAcctStore struct {
	account.Store
	accts  map[[33]byte]*account.Account
	failed bool
}

func (s *bAcctStore) Account(k *btcec.PublicKey) (*account.Account, error) {
	var raw [33]byte
	copy(raw[:], k.SerializeCompressed())
	a, ok := s.accts[raw]
	if !ok {
		s.failed = true
		return nil, fmt.Errorf("account not found")
	}
	// like the real database: every read returns a fresh object
	cp := *a
	return &cp, nil
}

type bWallet struct {
	lndclient.WalletKitClient
	failed bool
}

func (w *bWallet) DeriveKey(_ context.Context, in *keychain.KeyLocator) (*keychain.KeyDescriptor, error) {
	if in.Index == 0xffff {
		w.failed = true
		return nil, fmt.Errorf("wallet locked")
	}
	return &keychain.KeyDescriptor{KeyLocator: *in, PubKey: bKey(int(in.Index))}, nil
}

type bMgr interface {
	Start() error
	Stop()
	OrderMatchValidate(*order.Batch, uint32) error
	HasPendingBatch() bool
	PendingBatch() *order.Batch
}

type bSession struct {
	mgr     bMgr
	store   *bStore
	accts   *bAcctStore
	wallet  *bWallet
	version uint32
}

func newBSession(version uint32) *bSession {
	s := &bSession{
		store:   &bStore{orders: map[order.Nonce]order.Order{}},
		accts:   &bAcctStore{accts: map[[33]byte]*account.Account{}},
		wallet:  &bWallet{},
		version: version,
	}
	ln := test.NewMockLightning()
	ln.NodePubkey = bKeyHex(bKeyNodeOurs)
	m := order.NewManager(&order.ManagerConfig{
		Store:        s.store,
		AcctStore:    s.accts,
		Lightning:    ln,
		Wallet:       s.wallet,
		Signer:       test.NewMockSigner(),
		BatchVersion: order.BatchVersion(version),
	})
	if err := m.Start(); err != nil {
		panic(err)
	}
	s.mgr = m
	return s
}

// ---------------------------------------------------------------- real objects from a case

func (c *bCase) install(s *bSession) error {
	s.store.orders = map[order.Nonce]order.Order{}
	s.store.visits = nil
	s.accts.accts = map[[33]byte]*account.Account{}
	for i := range c.Env.Accounts {
		a := &c.Env.Accounts[i]
		tk, err := bParseKey(a.Key)
		if err != nil {
			return err
		}
		ak, err := bParseKey(a.Auctioneer)
		if err != nil {
			return err
		}
		bk, err := bParseKey(a.BatchKey)
		if err != nil {
			return err
		}
		var secret [32]byte
		sb, _ := hex.DecodeString(a.Secret)
		copy(secret[:], sb)
		s.accts.accts[bHex33(a.Key)] = &account.Account{
			Value:         btcutil.Amount(a.Value),
			Expiry:        a.Expiry,
			TraderKey:     &keychain.KeyDescriptor{PubKey: tk},
			AuctioneerKey: ak,
			BatchKey:      bk,
			Secret:        secret,
			State:         account.StateOpen,
			Version:       account.Version(a.Version),
		}
	}
	for i := range c.Env.Orders {
		o := &c.Env.Orders[i]
		var n order.Nonce
		nb, _ := hex.DecodeString(o.Nonce)
		copy(n[:], nb)
		if _, dup := s.store.orders[n]; dup {
			continue // first one wins, like the model's findOrder
		}
		kit := order.NewKit(n)
		kit.AuctionType = order.AuctionType(o.AuctionType)
		kit.State = order.StateSubmitted
		kit.FixedRate = o.Rate
		kit.UnitsUnfulfilled = order.SupplyUnit(o.UnitsUnfulfilled)
		kit.Units = kit.UnitsUnfulfilled
		if o.Units != 0 {
			kit.Units = order.SupplyUnit(o.Units)
		}
		kit.Amt = kit.Units.ToSatoshis()
		kit.MultiSigKeyLocator = keychain.KeyLocator{Family: 221, Index: o.KeyIndex}
		kit.AcctKey = bHex33(o.AcctKey)
		kit.LeaseDuration = o.Duration
		kit.MinUnitsMatch = order.SupplyUnit(o.MinUnitsMatch)
		kit.ChannelType = order.ChannelType(o.ChanType)
		for _, a := range o.Allowed {
			kit.AllowedNodeIDs = append(kit.AllowedNodeIDs, bHex33(a))
		}
		for _, a := range o.NotAllowed {
			kit.NotAllowedNodeIDs = append(kit.NotAllowedNodeIDs, bHex33(a))
		}
		if o.IsAsk {
			s.store.orders[n] = &order.Ask{Kit: *kit}
			continue
		}
		bid := &order.Bid{Kit: *kit, SelfChanBalance: btcutil.Amount(o.SelfChanBalance)}
		offer := sidecar.Offer{
			Capacity:            btcutil.Amount(o.TicketCapacity),
			PushAmt:             btcutil.Amount(o.TicketPushAmt),
			LeaseDurationBlocks: o.Duration,
		}
		switch o.Sidecar {
		case 1:
			bid.SidecarTicket = &sidecar.Ticket{Offer: offer}
			if len(o.Nonce) > 0 && o.Nonce[len(o.Nonce)-1]&1 == 1 {
				bid.SidecarTicket.Recipient = &sidecar.Recipient{}
			}
		case 2:
			k, err := bParseKey(o.SidecarKey)
			if err != nil {
				return err
			}
			bid.SidecarTicket = &sidecar.Ticket{Offer: offer, Recipient: &sidecar.Recipient{MultiSigPubKey: k}}
			if o.SidecarNodeKey != "" {
				nk, err := bParseKey(o.SidecarNodeKey)
				if err != nil {
					return err
				}
				bid.SidecarTicket.Recipient.NodePubKey = nk
			}
		}
		s.store.orders[n] = bid
	}
	if c.RealStore {
		if err := c.installRealStore(s); err != nil {
			// never let the store setup stop the stream: fall back to the mock store
			s.store.closeReal()
			c.RealStore = false
			if c.intended != nil {
				c.Env.Orders, c.intended = c.intended, nil
			}
		}
	}
	return nil
}

// installRealStore puts the orders into a fresh clientdb database the way they
// get there in production: SubmitOrder of the full order, then – for an order
// that is partially filled – a staged and completed earlier batch.
func (c *bCase) installRealStore(s *bSession) error {
	base := ""
	if st, err := os.Stat("/dev/shm"); err == nil && st.IsDir() {
		base = "/dev/shm"
	}
	dir, err := os.MkdirTemp(base, "verif-batch-db")
	if err != nil {
		return err
	}
	db, err := clientdb.New(dir, "pool.db")
	if err != nil {
		return err
	}
	s.store.real = db
	s.store.realDir = dir
	var nonces []order.Nonce
	var mods [][]order.Modifier
	for n, o := range s.store.orders {
		left := o.Details().UnitsUnfulfilled
		if o.Details().Units > left {
			o.Details().UnitsUnfulfilled = o.Details().Units
			nonces = append(nonces, n)
			mods = append(mods, []order.Modifier{
				order.UnitsFulfilledModifier(left), order.StateModifier(order.StatePartiallyFilled),
			})
		}
		if err := db.SubmitOrder(o); err != nil {
			return err
		}
	}
	if len(nonces) > 0 {
		earlier := &order.Batch{
			ID:             order.BatchID(bHex33(bKeyHex(bKeyBatchID + 70))),
			Version:        order.BatchVersion(c.Env.Version),
			MatchedOrders:  map[order.Nonce][]*order.MatchedOrder{},
			ExecutionFee:   terms.NewLinearFeeSchedule(1, 1),
			ClearingPrices: map[uint32]order.FixedRatePremium{},
			BatchTX:        wire.NewMsgTx(2),
		}
		if err := db.StorePendingBatch(earlier, nonces, mods, nil, nil); err != nil {
			return err
		}
		if err := db.MarkBatchComplete(); err != nil {
			return err
		}
	}
	// what the store returns is what Verify (and the model) work with
	c.intended = append([]bOurs{}, c.Env.Orders...)
	for i := range c.Env.Orders {
		o := &c.Env.Orders[i]
		var n order.Nonce
		nb, _ := hex.DecodeString(o.Nonce)
		copy(n[:], nb)
		so, err := db.GetOrder(n)
		if err != nil {
			continue
		}
		d := so.Details()
		o.UnitsUnfulfilled, o.MinUnitsMatch = uint64(d.UnitsUnfulfilled), uint64(d.MinUnitsMatch)
		o.Rate, o.Duration, o.AuctionType = d.FixedRate, d.LeaseDuration, uint32(d.AuctionType)
		o.ChanType = uint8(d.ChannelType)
		if b, ok := so.(*order.Bid); ok {
			o.SelfChanBalance = int64(b.SelfChanBalance)
		}
	}
	return nil
}

func (s *bStore) closeReal() {
	if s.real != nil {
		_ = s.real.Close()
		_ = os.RemoveAll(s.realDir)
		s.real, s.realDir = nil, ""
	}
}

func bServerOrder(t *bTheir) *auctioneerrpc.ServerOrder {
	nonce, _ := hex.DecodeString(t.Nonce)
	ms := bWireKey(t.MultiSigKey, t.MultiSigKeyEnc)
	np := bWireKey(t.NodeKey, t.NodeKeyEnc)
	return &auctioneerrpc.ServerOrder{
		TraderKey:   bKey(bKeyAcct + 40).SerializeCompressed(),
		RateFixed:   t.Rate,
		Amt:         uint64(t.UnitsFilled) * 100_000,
		OrderNonce:  nonce,
		MultiSigKey: ms,
		NodePub:     np,
		NodeAddr:    []*auctioneerrpc.NodeAddress{{Network: "tcp", Addr: "127.0.0.1:9735"}},
		ChannelType: auctioneerrpc.OrderChannelType(t.ChanType),
		AuctionType: auctioneerrpc.AuctionType(t.AuctionType),
	}
}

func (c *bCase) prepareMsg() *auctioneerrpc.OrderMatchPrepare {
	m := &c.Msg
	tx := wire.NewMsgTx(2)
	tx.AddTxIn(&wire.TxIn{PreviousOutPoint: wire.OutPoint{Hash: chainhash.Hash{1}, Index: 0}})
	for _, o := range m.TxOuts {
		s, _ := hex.DecodeString(o.Script)
		tx.AddTxOut(&wire.TxOut{Value: o.Value, PkScript: s})
	}
	var buf bytes.Buffer
	_ = tx.Serialize(&buf)
	id, _ := hex.DecodeString(m.ID)
	p := &auctioneerrpc.OrderMatchPrepare{
		MatchedMarkets:   map[uint32]*auctioneerrpc.MatchedMarket{},
		ExecutionFee:     &auctioneerrpc.ExecutionFee{BaseFee: m.ExecBase, FeeRate: m.ExecRate},
		BatchTransaction: buf.Bytes(),
		FeeRateSatPerKw:  m.FeeRate,
		BatchId:          id,
		BatchVersion:     m.Version,
		BatchHeightHint:  m.HeightHint,
	}
	for i := range m.Markets {
		mk := &m.Markets[i]
		rm := &auctioneerrpc.MatchedMarket{
			MatchedOrders:     map[string]*auctioneerrpc.MatchedOrder{},
			ClearingPriceRate: mk.Price,
		}
		for j := range mk.Orders {
			mo := &mk.Orders[j]
			r := &auctioneerrpc.MatchedOrder{}
			for k := range mo.Asks {
				t := &mo.Asks[k]
				r.MatchedAsks = append(r.MatchedAsks, &auctioneerrpc.MatchedAsk{
					Ask: &auctioneerrpc.ServerAsk{
						Details: bServerOrder(t), LeaseDurationBlocks: t.Duration, Version: t.Version,
					},
					UnitsFilled: t.UnitsFilled,
				})
			}
			for k := range mo.Bids {
				t := &mo.Bids[k]
				r.MatchedBids = append(r.MatchedBids, &auctioneerrpc.MatchedBid{
					Bid: &auctioneerrpc.ServerBid{
						Details: bServerOrder(t), LeaseDurationBlocks: t.Duration, Version: t.Version,
						SelfChanBalance: t.SelfChanBalance,
					},
					UnitsFilled: t.UnitsFilled,
				})
			}
			rm.MatchedOrders[mo.Nonce] = r
		}
		p.MatchedMarkets[mk.Duration] = rm
	}
	for i := range m.Diffs {
		d := &m.Diffs[i]
		k, _ := hex.DecodeString(d.AcctKey)
		p.ChargedAccounts = append(p.ChargedAccounts, &auctioneerrpc.AccountDiff{
			EndingBalance: d.EndingBalance,
			EndingState:   auctioneerrpc.AccountDiff_AccountState(d.EndingState),
			OutpointIndex: d.OutpointIndex,
			TraderKey:     k,
			NewExpiry:     d.NewExpiry,
			NewVersion:    d.NewVersion,
		})
	}
	return p
}

// ---------------------------------------------------------------- direct calls for the oracle tables

func bScriptVersion(v uint8) poolscript.Version {
	switch v {
	case 1:
		return poolscript.VersionTaprootMuSig2
	case 2:
		return poolscript.VersionTaprootMuSig2V100RC2
	}
	return poolscript.VersionWitnessScript
}

func (a *bAcct) nextScript(sv poolscript.Version, expiry uint32) (string, error) {
	tk, err := bParseKey(a.Key)
	if err != nil {
		return "", err
	}
	ak, err := bParseKey(a.Auctioneer)
	if err != nil {
		return "", err
	}
	bk, err := bParseKey(a.BatchKey)
	if err != nil {
		return "", err
	}
	var secret [32]byte
	sb, _ := hex.DecodeString(a.Secret)
	copy(secret[:], sb)
	// independent derivation (batch_script.go) – never through poolscript
	s, err := bIndepNextAccountScript(uint8(sv), expiry, tk, ak, bk, secret)
	if err != nil {
		return "", err
	}
	return hex.EncodeToString(s), nil
}

// bFundScript: lnd's funding script for (taproot?, keyA, keyB); nil = error.
func bFundScriptOf(taproot bool, ours, theirs string) *string {
	ck := fmt.Sprintf("%v|%s|%s", taproot, ours, theirs)
	if s, ok := bFundCache[ck]; ok {
		return s
	}
	var res *string
	a, _ := hex.DecodeString(ours)
	b, _ := hex.DecodeString(theirs)
	if taproot {
		ka, err1 := btcec.ParsePubKey(a)
		kb, err2 := btcec.ParsePubKey(b)
		if err1 == nil && err2 == nil {
			_, out, err := input.GenTaprootFundingScript(ka, kb, 1000, fn.None[chainhash.Hash]())
			if err == nil {
				h := hex.EncodeToString(out.PkScript)
				res = &h
			}
		}
	} else {
		_, out, err := input.GenFundingPkScript(a, b, 1000)
		if err == nil {
			h := hex.EncodeToString(out.PkScript)
			res = &h
		}
	}
	bFundCache[ck] = res
	return res
}

// bSpecPremium: the lump-sum premium by its definition – amount times the per-block rate
// in parts per billion (float64, as published) times the number of blocks, truncated.
// Written out here; does not call the repository's LumpSumPremium / PerBlockPremium.
func bSpecPremium(amt int64, rate, dur uint32) int64 {
	perBlock := float64(float64(amt)*float64(rate)) / 1e9
	return int64(float64(perBlock * float64(dur)))
}

// bAltPremium: premium formulas a careless or hostile counterpart might use instead
// (kind 0 = the definition).
func bAltPremium(kind int, amt int64, rate, dur uint32) int64 {
	switch kind {
	case 1: // exact integer arithmetic
		v := new(big.Int).Mul(big.NewInt(amt), big.NewInt(int64(rate)))
		v.Mul(v, big.NewInt(int64(dur)))
		v.Quo(v, big.NewInt(1_000_000_000))
		if !v.IsInt64() {
			return bSpecPremium(amt, rate, dur)
		}
		return v.Int64()
	case 2: // per-block premium truncated to whole satoshis first
		return int64(float64(amt)*float64(rate)/1e9) * int64(dur)
	case 3: // rate scaled by the duration in the rate's own 32-bit type first
		return int64(float64(amt) * float64(rate*dur) / 1e9)
	case 4: // single precision
		return int64(float32(amt) * float32(rate) / 1e9 * float32(dur))
	}
	return bSpecPremium(amt, rate, dur)
}

func bPremiumOf(amt int64, rate, dur uint32) int64 {
	return int64(order.FixedRatePremium(rate).LumpSumPremium(btcutil.Amount(amt), dur))
}

func (c *bCase) market(duration uint32) *bMarket {
	for i := range c.Msg.Markets {
		if c.Msg.Markets[i].Duration == duration {
			return &c.Msg.Markets[i]
		}
	}
	return nil
}

func (c *bCase) ours(nonce string) *bOurs {
	for i := range c.Env.Orders {
		if c.Env.Orders[i].Nonce == nonce {
			return &c.Env.Orders[i]
		}
	}
	return nil
}

func (c *bCase) acct(key string) *bAcct {
	for i := range c.Env.Accounts {
		if c.Env.Accounts[i].Key == key {
			return &c.Env.Accounts[i]
		}
	}
	return nil
}

// fillOracle computes generous supersets of the external-function values the
// verification can ask for, each with a direct call.
func (c *bCase) fillOracle() {
	c.Oracle = bOracle{Premium: []bPremium{}, AcctScripts: []bAcctScript{}, FundScripts: []bFundScript{}}
	seenP := map[string]bool{}
	seenF := map[string]bool{}
	for i := range c.Env.Orders {
		o := &c.Env.Orders[i]
		// oracle: does btcec.ParsePubKey accept the order's account key?
		kb, _ := hex.DecodeString(o.AcctKey)
		_, perr := btcec.ParsePubKey(kb)
		o.AcctKeyParses = perr == nil
		var k string
		if o.KeyIndex != 0xffff {
			k = bKeyHex(int(o.KeyIndex))
			o.DerivedKey = &k
		} else {
			o.DerivedKey = nil
		}
	}
	for i := range c.Msg.Markets {
		mk := &c.Msg.Markets[i]
		for j := range mk.Orders {
			mo := &mk.Orders[j]
			o := c.ours(mo.Nonce)
			if o == nil {
				continue
			}
			price := uint32(0)
			if m := c.market(o.Duration); m != nil {
				price = m.Price
			}
			for _, t := range append(append([]bTheir{}, mo.Asks...), mo.Bids...) {
				base := int64(uint64(t.UnitsFilled) * 100_000)
				for _, amt := range []int64{base, base + o.SelfChanBalance, base + int64(t.SelfChanBalance)} {
					for _, dur := range []uint32{o.Duration, t.Duration} {
						key := fmt.Sprintf("%d|%d|%d", amt, price, dur)
						if seenP[key] {
							continue
						}
						seenP[key] = true
						// inside its domain the model computes the float itself
						if amt >= 0 && order.PerBlockPremium(btcutil.Amount(amt), price)*float64(dur) < 9223372036854775808.0 {
							continue
						}
						c.Oracle.Premium = append(c.Oracle.Premium, bPremium{amt, price, dur, bPremiumOf(amt, price, dur)})
					}
				}
				var ourKeys []string
				if o.DerivedKey != nil {
					ourKeys = append(ourKeys, *o.DerivedKey)
				}
				if o.SidecarKey != "" {
					ourKeys = append(ourKeys, o.SidecarKey)
				}
				for _, ok := range ourKeys {
					for _, tap := range []bool{false, true} {
						key := fmt.Sprintf("%v|%s|%s", tap, ok, t.MultiSigKey)
						if seenF[key] {
							continue
						}
						seenF[key] = true
						c.Oracle.FundScripts = append(c.Oracle.FundScripts,
							bFundScript{tap, ok, t.MultiSigKey, bFundScriptOf(tap, ok, t.MultiSigKey)})
					}
				}
			}
		}
	}
	for i := range c.Env.Accounts {
		a := &c.Env.Accounts[i]
		exps := map[uint32]bool{a.Expiry: true}
		for _, d := range c.Msg.Diffs {
			if d.AcctKey == a.Key {
				exps[d.NewExpiry] = true
			}
		}
		var el []uint32
		for e := range exps {
			el = append(el, e)
		}
		sort.Slice(el, func(i, j int) bool { return el[i] < el[j] })
		for _, e := range el {
			for sv := uint8(0); sv < 3; sv++ {
				var sp *string
				if s, err := a.nextScript(poolscript.Version(sv), e); err == nil {
					sp = &s
				}
				c.Oracle.AcctScripts = append(c.Oracle.AcctScripts, bAcctScript{a.Key, sv, e, sp})
			}
		}
	}
}

// ---------------------------------------------------------------- error classes

// bKind classifies the outcome WITHOUT looking at error texts: by sentinel errors / error types and by which
// of the harness's proxies (order store, account store, wallet) returned an error during the call.
func bKind(err error, s *bSession) string {
	if err == nil {
		return "ok"
	}
	var vm *order.ErrVersionMismatch
	switch {
	case errors.Is(err, order.ErrInvalidBatchHeightHint):
		return "height"
	case errors.As(err, &vm):
		return "version"
	case s.store.failed:
		return "order-not-found"
	case s.accts.failed:
		return "acct-not-found"
	case s.wallet.failed:
		return "chan-derive"
	case errors.Is(err, order.ErrMismatchErr):
		return "mismatch"
	}
	return "other"
}

// bClassify: a finer, TEXT based label – used for the histogram of the evidence only (never compared, no
// floors depend on it).
func bClassify(err error) string {
	if err == nil {
		return "ok"
	}
	s := err.Error()
	has := func(x string) bool { return strings.Contains(s, x) }
	switch {
	case errors.Is(err, order.ErrInvalidBatchHeightHint):
		return "height"
	case has("mismatches server version"):
		return "version"
	case has("error matching against order"):
		switch {
		case has("matched same type"):
			return "match-same-type"
		case has("did not match the same auction"):
			return "match-auction"
		case has("order from our node"):
			return "match-own-node"
		case has("duration not overlapping"):
			return "match-duration"
		case has("ask price greater than bid price"):
			return "match-price"
		}
	case has("error finding channel output"):
		switch {
		case has("recipient information in sidecar ticket missing"):
			return "chan-sidecar"
		case has("could not derive our multisig key"):
			return "chan-derive"
		case has("could not create multisig script"):
			return "chan-script"
		case has("no channel output found"):
			return "chan-not-found"
		}
	case has("below clearing price"):
		return "clearing-bid"
	case has("above clearing price"):
		return "clearing-ask"
	case has("invalid units to be filled") && has("currently unfulfilled"):
		return "overfill"
	case has("invalid units to be filled") && has("but minimum is"):
		return "underfill"
	case has("got duplicate diff"):
		return "diff-duplicate"
	case has("is above maximum height"):
		return "diff-new-expiry"
	case has("new version is invalid"):
		return "diff-new-version"
	case has("got diff for uninvolved"):
		return "diff-uninvolved"
	case has("unexpected ending balance"):
		return "diff-balance"
	case has("diff is incorrect"):
		switch {
		case has("unexpected state"):
			return "diff-state"
		case has("unexpected outpoint index for dust"):
			return "diff-index-dust"
		case has("outpoint index invalid for non-dust"):
			return "diff-index-neg"
		case has("outpoint index out of bounds"):
			return "diff-index-oob"
		case has("invalid account output amount"):
			return "diff-value"
		case has("could not derive next account script"):
			return "diff-script-derive"
		case has("unexpected account output script"):
			return "diff-script"
		}
	case has("invalid match with"):
		return "node-filter"
	case has("account ") && has("not found"):
		return "acct-not-found"
	case has("order ") && has("not found"), has("error validating matched orders"):
		return "order-not-found"
	case has("public key"), has("pubkey"):
		return "acctkey-parse"
	}
	return "unclassified:" + strings.ReplaceAll(s, " ", "_")
}

// ---------------------------------------------------------------- running one case

type bResult struct {
	class   string
	pending string
	text    string // informational text label
	before  string // pending batch id before the call
	batch   *order.Batch
}

// run executes the real code on the case and emits the op line.
func (c *bCase) run(r *Run, s *bSession) bResult {
	c.Env.MinNoDust = int64(order.MinNoDustAccountSize)
	c.fillOracle()
	c.MarketOrder = []uint32{}
	res := bResult{before: "-"}
	if s.mgr.HasPendingBatch() {
		res.before = hex.EncodeToString(s.mgr.PendingBatch().ID[:])
	}
	if err := c.install(s); err != nil {
		panic(fmt.Sprintf("harness: cannot install case: %v", err))
	}
	func() {
		defer func() {
			if p := recover(); p != nil {
				res.class = "panic"
				r.Notes = append(r.Notes, fmt.Sprintf("panic: %v", p))
			}
		}()
		batch, err := order.ParseRPCBatch(c.prepareMsg())
		if err != nil {
			res.class = "parse"
			return
		}
		res.batch = batch
		c.MarketOrder = c.observedMarketOrder(batch)
		s.store.failed, s.accts.failed, s.wallet.failed = false, false, false
		err = s.mgr.OrderMatchValidate(batch, c.Best)
		res.class = bKind(err, s)
		res.text = bClassify(err)
	}()
	res.pending = "-"
	if s.mgr.HasPendingBatch() {
		res.pending = hex.EncodeToString(s.mgr.PendingBatch().ID[:])
	}
	// the order in which Verify visited MatchedOrders (GetOrder calls of
	// Verify come first; the node-filter loop of the manager follows)
	c.Visit = []string{}
	seen := map[string]bool{}
	for _, v := range s.store.visits {
		if seen[v] {
			break
		}
		seen[v] = true
		c.Visit = append(c.Visit, v)
	}
	js, err := json.Marshal(c)
	if err != nil {
		panic(err)
	}
	exp := "rej " + res.class + " pending=" + res.pending
	if res.class == "ok" {
		exp = "ok pending=" + res.pending
	}
	r.Emit(r.Prop+" validate "+string(js), exp)
	if c.intended != nil {
		for i := range c.intended {
			c.intended[i].DerivedKey, c.intended[i].AcctKeyParses = c.Env.Orders[i].DerivedKey, c.Env.Orders[i].AcctKeyParses
		}
		c.Env.Orders, c.intended = c.intended, nil
		r.Count("real-store")
	}
	s.store.closeReal()
	r.Evaluations++
	r.Count("class/" + res.class)
	if res.text != "" && res.text != "ok" {
		r.Count("textclass/" + strings.SplitN(res.text, ":", 2)[0])
	}
	return res
}

// effective returns the case as ParseRPCBatch saw it in this run: of the entries
// of a nonce that occurs in several markets only the one written last survives.
func (c *bCase) effective() *bCase {
	if len(c.MarketOrder) == 0 {
		return c
	}
	pos := map[uint32]int{}
	for i, d := range c.MarketOrder {
		pos[d] = i
	}
	winner := map[string]uint32{}
	best := map[string]int{}
	for i := range c.Msg.Markets {
		mk := &c.Msg.Markets[i]
		for j := range mk.Orders {
			n := mk.Orders[j].Nonce
			if p, ok := best[n]; !ok || pos[mk.Duration] > p {
				best[n] = pos[mk.Duration]
				winner[n] = mk.Duration
			}
		}
	}
	ec := *c
	ec.Msg.Markets = nil
	for i := range c.Msg.Markets {
		mk := c.Msg.Markets[i]
		var keep []bMatched
		for _, mo := range mk.Orders {
			if winner[mo.Nonce] == mk.Duration {
				keep = append(keep, mo)
			}
		}
		mk.Orders = keep
		ec.Msg.Markets = append(ec.Msg.Markets, mk)
	}
	return &ec
}

// observedMarketOrder: when a nonce occurs in several markets, which entry the
// real ParseRPCBatch kept depends on Go's map iteration order. Find an order of
// the markets that explains the parsed batch (last write wins).
func (c *bCase) observedMarketOrder(batch *order.Batch) []uint32 {
	count := map[string]int{}
	for i := range c.Msg.Markets {
		for j := range c.Msg.Markets[i].Orders {
			count[c.Msg.Markets[i].Orders[j].Nonce]++
		}
	}
	dup := false
	for _, n := range count {
		if n > 1 {
			dup = true
		}
	}
	if !dup {
		return []uint32{}
	}
	sig := func(mo *bMatched) string {
		s := ""
		for _, t := range append(append([]bTheir{}, mo.Asks...), mo.Bids...) {
			s += fmt.Sprintf("%s/%d/%d;", t.Nonce, t.Duration, t.UnitsFilled)
		}
		return s
	}
	observed := map[string]string{}
	for n, ms := range batch.MatchedOrders {
		s := ""
		for _, m := range ms {
			mn := m.Order.Nonce()
			s += fmt.Sprintf("%s/%d/%d;", hex.EncodeToString(mn[:]), m.Order.Details().LeaseDuration, uint32(m.UnitsFilled))
		}
		observed[hex.EncodeToString(n[:])] = s
	}
	idx := make([]int, len(c.Msg.Markets))
	for i := range idx {
		idx[i] = i
	}
	var try func(k int) []uint32
	try = func(k int) []uint32 {
		if k == len(idx) {
			last := map[string]string{}
			for _, i := range idx {
				for j := range c.Msg.Markets[i].Orders {
					mo := &c.Msg.Markets[i].Orders[j]
					last[mo.Nonce] = sig(mo)
				}
			}
			for n, s := range last {
				if observed[n] != s {
					return nil
				}
			}
			res := []uint32{}
			for _, i := range idx {
				res = append(res, c.Msg.Markets[i].Duration)
			}
			return res
		}
		for i := k; i < len(idx); i++ {
			idx[k], idx[i] = idx[i], idx[k]
			if r := try(k + 1); r != nil {
				return r
			}
			idx[k], idx[i] = idx[i], idx[k]
		}
		return nil
	}
	if r := try(0); r != nil {
		return r
	}
	return []uint32{}
}

// ---------------------------------------------------------------- oracle helpers (independent of the model)

var bMaxAccountExpiry = uint32(144 * 365)

func bigI(x int64) *big.Int { return big.NewInt(x) }

// specExecFee: base + amt*rate/1e6 over the integers (truncated)
func specExecFee(base, rate uint64, amt *big.Int) *big.Int {
	v := new(big.Int).Mul(amt, new(big.Int).SetUint64(rate))
	v.Quo(v, big.NewInt(1_000_000))
	return v.Add(v, new(big.Int).SetUint64(base))
}

// specChainFee: the trader's share of the batch transaction weight at the
// batch fee rate: account output + account input + half of each channel
// output, witness of the account's current version.
func specChainFee(nChans int64, feeRate uint64, version uint8) *big.Int {
	w := int64(input.P2WSHOutputSize + input.InputSize)
	w += (int64(input.P2WSHOutputSize)*nChans + 1) / 2
	w *= blockchain.WitnessScaleFactor
	if version == 1 || version == 2 {
		w += poolscript.TaprootMultiSigWitnessSize
	} else {
		w += poolscript.MultiSigWitnessSize
	}
	v := new(big.Int).Mul(new(big.Int).SetUint64(feeRate), big.NewInt(w))
	return v.Quo(v, big.NewInt(1000))
}

type bMatchRef struct {
	o     *bOurs
	t     *bTheir
	isAsk bool // their side
	mk    *bMarket
}

// ourKey / taproot / matchOutput: what an honest auctioneer funds for this match
func (m bMatchRef) ourKey() string {
	if !m.o.IsAsk && m.o.Sidecar == 2 {
		return m.o.SidecarKey
	}
	return bKeyHex(int(m.o.KeyIndex & 0xff))
}

func (m bMatchRef) taproot() bool { return m.o.ChanType == 2 && m.t.ChanType == 3 }

// matchOutput finds the honest channel output of a match in the transaction
// (-1 if it is not there) and returns the bid's self channel balance it uses.
func (c *bCase) matchOutput(m bMatchRef) (int, int64) {
	if m.o == nil {
		return -1, 0
	}
	self := m.o.SelfChanBalance
	if m.o.IsAsk {
		self = int64(m.t.SelfChanBalance)
	}
	sp := bFundScriptOf(m.taproot(), m.ourKey(), m.t.MultiSigKey)
	if sp == nil {
		return -1, 0
	}
	want := int64(m.t.UnitsFilled)*100_000 + self
	for i, o := range c.Msg.TxOuts {
		if o.Value == want && o.Script == *sp {
			return i, self
		}
	}
	return -1, 0
}

func (c *bCase) allMatches() []bMatchRef {
	var res []bMatchRef
	for i := range c.Msg.Markets {
		mk := &c.Msg.Markets[i]
		for j := range mk.Orders {
			mo := &mk.Orders[j]
			o := c.ours(mo.Nonce)
			for k := range mo.Asks {
				res = append(res, bMatchRef{o, &mo.Asks[k], true, mk})
			}
			for k := range mo.Bids {
				res = append(res, bMatchRef{o, &mo.Bids[k], false, mk})
			}
		}
	}
	return res
}

// specEndingBalance recomputes an account's ending balance from the
// property's text; also returns the number of channels. ok=false if the
// account has no matched order.
func (c *bCase) specEndingBalance(a *bAcct) (*big.Int, int64, bool) {
	return c.endingBalanceWith(a, bSpecPremium)
}

// endingBalanceWith: the balance equation with a given premium function.
func (c *bCase) endingBalanceWith(a *bAcct, bPremiumOf func(int64, uint32, uint32) int64) (*big.Int, int64, bool) {
	bal := bigI(a.Value)
	var n int64
	involved := false
	for i := range c.Msg.Markets {
		mk := &c.Msg.Markets[i]
		for j := range mk.Orders {
			mo := &mk.Orders[j]
			o := c.ours(mo.Nonce)
			if o == nil || o.AcctKey != a.Key {
				continue
			}
			involved = true
			price := uint32(0)
			if m := c.market(o.Duration); m != nil {
				price = m.Price
			}
			if o.IsAsk {
				for _, t := range mo.Bids {
					capital := new(big.Int).Mul(big.NewInt(int64(t.UnitsFilled)), big.NewInt(100_000))
					base := new(big.Int).Set(capital)
					if o.AuctionType == 1 {
						base.Add(base, new(big.Int).SetUint64(t.SelfChanBalance))
					}
					bal.Add(bal, bigI(bPremiumOf(base.Int64(), price, o.Duration)))
					bal.Sub(bal, capital)
					bal.Sub(bal, specExecFee(c.Msg.ExecBase, c.Msg.ExecRate, capital))
					n++
				}
			} else {
				for _, t := range mo.Asks {
					base := new(big.Int).Mul(big.NewInt(int64(t.UnitsFilled)), big.NewInt(100_000))
					if o.AuctionType == 1 {
						base.Add(base, bigI(o.SelfChanBalance))
					}
					bal.Sub(bal, bigI(bPremiumOf(base.Int64(), price, o.Duration)))
					bal.Sub(bal, bigI(o.SelfChanBalance))
					bal.Sub(bal, specExecFee(c.Msg.ExecBase, c.Msg.ExecRate, base))
					n++
				}
			}
		}
	}
	bal.Sub(bal, specChainFee(n, c.Msg.FeeRate, a.Version))
	return bal, n, involved
}

func bSupportsExt(v uint32) bool     { return v&0xF >= 1 }
func bSupportsUpgrade(v uint32) bool { return v&0xF >= 10 }

func bContains(l []string, x string) bool {
	for _, y := range l {
		if x == y {
			return true
		}
	}
	return false
}

// ---- C01: every matched order honours the order's terms
func (c *bCase) oracleC01() string {
	if c.Msg.Version != c.Env.Version {
		return "accepted a batch of another protocol version"
	}
	d := int64(c.Best) - int64(c.Msg.HeightHint)
	if d > 3 || d < -3 {
		return fmt.Sprintf("accepted a batch whose height hint is %d blocks away", d)
	}
	for i := range c.Msg.Markets {
		mk := &c.Msg.Markets[i]
		for j := range mk.Orders {
			mo := &mk.Orders[j]
			o := c.ours(mo.Nonce)
			if o == nil {
				return "accepted a batch matching an unknown order"
			}
			total := new(big.Int)
			check := func(t *bTheir, theirIsAsk bool) string {
				if theirIsAsk == o.IsAsk {
					return "matched with an order of the same side"
				}
				if t.Duration != o.Duration {
					return "matched with another lease duration"
				}
				if t.AuctionType != o.AuctionType {
					return "matched with another market (auction type)"
				}
				if t.NodeKey == c.Env.OurNode {
					return "matched with an order of our own node"
				}
				if len(o.Allowed) > 0 && !bContains(o.Allowed, t.NodeKey) {
					return "matched with a node outside the allow list"
				}
				if len(o.Allowed) == 0 && bContains(o.NotAllowed, t.NodeKey) {
					return "matched with a node on the deny list"
				}
				ask, bid := o.Rate, t.Rate
				if theirIsAsk {
					ask, bid = t.Rate, o.Rate
				}
				if ask > bid {
					return "ask rate above bid rate"
				}
				total.Add(total, big.NewInt(int64(t.UnitsFilled)))
				return ""
			}
			for k := range mo.Asks {
				if w := check(&mo.Asks[k], true); w != "" {
					return w
				}
			}
			for k := range mo.Bids {
				if w := check(&mo.Bids[k], false); w != "" {
					return w
				}
			}
			if len(mo.Asks)+len(mo.Bids) > 0 {
				m := c.market(o.Duration)
				if m == nil {
					return "no clearing price published for the order's duration"
				}
				if !o.IsAsk && m.Price > o.Rate {
					return "clearing price above our bid rate"
				}
				if o.IsAsk && m.Price < o.Rate {
					return "clearing price below our ask rate"
				}
			}
			if total.Cmp(new(big.Int).SetUint64(o.UnitsUnfulfilled)) > 0 {
				return "matched units exceed the unfilled units"
			}
			if o.AuctionType != 1 && total.Cmp(new(big.Int).SetUint64(o.MinUnitsMatch)) < 0 {
				return "matched units below the minimum match size"
			}
		}
	}
	return ""
}

// ---- C02: exact debit, change to the account's own next script
func (c *bCase) oracleC02() (string, string) {
	seen := map[string]int{}
	for i := range c.Msg.Diffs {
		d := &c.Msg.Diffs[i]
		seen[d.AcctKey]++
		a := c.acct(d.AcctKey)
		if a == nil {
			return "charged an unknown account", "C02/unknown-account"
		}
		want, _, involved := c.specEndingBalance(a)
		if !involved {
			return "charged an account without a matched order", "C02/uninvolved"
		}
		got := bigI(int64(d.EndingBalance))
		if got.Cmp(want) != 0 {
			key := "C02/balance"
			if seen[d.AcctKey] > 1 {
				key = "C02/duplicate-diff"
			}
			return fmt.Sprintf("ending balance %v of account %s.. differs from the recomputed %v", got, a.Key[:8], want), key
		}
		if got.Cmp(bigI(int64(order.MinNoDustAccountSize))) >= 0 {
			if d.OutpointIndex < 0 || int(d.OutpointIndex) >= len(c.Msg.TxOuts) {
				return "non-dust account without an output at the stated index", "C02/index"
			}
			out := c.Msg.TxOuts[d.OutpointIndex]
			if bigI(out.Value).Cmp(got) != 0 {
				return "account output value differs from the ending balance", "C02/value"
			}
			// version / expiry the account will carry after the batch
			ver, exp := uint32(a.Version), a.Expiry
			if bSupportsExt(c.Msg.Version) && d.NewExpiry != 0 {
				exp = d.NewExpiry
			}
			newVer := d.NewVersion & 0xff
			if bSupportsUpgrade(c.Msg.Version) && newVer > ver {
				ver = newVer
			}
			if ver != 0 && ver != 1 && ver != 2 { // the three account versions that exist
				return fmt.Sprintf("account output for unsupported account version %d accepted", ver), "C02/new-version"
			}
			// (an unchanged timelock is the account's own, bounded when the
			// account was created / renewed; only a new one is the batch's doing)
			if exp != a.Expiry && uint64(exp) > uint64(c.Best)+uint64(bMaxAccountExpiry) {
				return fmt.Sprintf("account output timelock %d is more than the maximum account lifetime after height %d", exp, c.Best), "C02/new-expiry"
			}
			s, err := a.nextScript(bScriptVersion(uint8(ver)), exp)
			if err != nil || s != out.Script {
				return "account output does not pay to the account's next script", "C02/script"
			}
		} else {
			if d.OutpointIndex >= 0 {
				return "dust account with a claimed output", "C02/dust-index"
			}
			if d.EndingState != 1 && d.EndingState != 2 && d.EndingState != 3 {
				return "dust account not treated as spent", "C02/dust-state"
			}
		}
	}
	return "", ""
}

// ---- C03: a correct funding output for every match
func (c *bCase) oracleC03() string {
	for _, m := range c.allMatches() {
		o, t := m.o, m.t
		if o == nil {
			return "match of an unknown order accepted"
		}
		self := int64(0)
		if !o.IsAsk {
			self = o.SelfChanBalance
		} else if !m.isAsk {
			self = int64(t.SelfChanBalance)
		}
		want := new(big.Int).Mul(big.NewInt(int64(t.UnitsFilled)), big.NewInt(100_000))
		want.Add(want, bigI(self))
		var ourKey string
		if !o.IsAsk && o.Sidecar != 0 {
			if o.Sidecar != 2 {
				return "sidecar bid without recipient key accepted"
			}
			ourKey = o.SidecarKey
		} else {
			if o.KeyIndex == 0xffff {
				return "match accepted although our funding key cannot be derived"
			}
			ourKey = bKeyHex(int(o.KeyIndex))
		}
		// rpc channel types: 0/1 peer dependent, 2 script enforced, 3 simple taproot
		theirSE, theirTap := t.ChanType == 2, t.ChanType == 3
		ourSE, ourTap := o.ChanType == 1, o.ChanType == 2
		taproot := !(ourSE || theirSE) && ourTap && theirTap
		var script string
		a, _ := hex.DecodeString(ourKey)
		b, _ := hex.DecodeString(t.MultiSigKey)
		if taproot {
			ka, _ := btcec.ParsePubKey(a)
			kb, _ := btcec.ParsePubKey(b)
			_, out, err := input.GenTaprootFundingScript(ka, kb, 1000, fn.None[chainhash.Hash]())
			if err != nil {
				return "taproot funding script not derivable"
			}
			script = hex.EncodeToString(out.PkScript)
		} else {
			_, out, err := input.GenFundingPkScript(a, b, 1000)
			if err != nil {
				return "funding script not derivable"
			}
			script = hex.EncodeToString(out.PkScript)
		}
		found := false
		for _, out := range c.Msg.TxOuts {
			if bigI(out.Value).Cmp(want) == 0 && out.Script == script {
				found = true
				break
			}
		}
		if !found {
			return fmt.Sprintf("no funding output of %v sat to the 2-of-2 script of %s../%s.. for match %s..",
				want, ourKey[:8], t.MultiSigKey[:8], t.Nonce[:8])
		}
	}
	return ""
}

// ---------------------------------------------------------------- the stream

func bCommitName(ct lnrpc.CommitmentType) string { return ct.String() }

func runBatch(r *Run) {
	r.Rule = "honest auctioneer simulation (1-4 accounts of all 3 versions, 1-6 own asks/bids over 1-3 duration " +
		"markets, both auction types, sidecar bids, 1-4 matches per order, all channel-type pairings, real funding/" +
		"account scripts, dust and non-dust endings, expiry extension / version upgrade per batch-version flags) " +
		"followed by 0-2 deviations from a catalogue of ~70 mutation sites (numeric fields +-1/boundary, side, " +
		"duration, auction type, node key, allow/deny list, height hint +-3/+-4, version flags, diff balance/" +
		"state/index/expiry/version, output value/script, hostile-but-consistent new expiry/version/duplicate diff); " +
		"non-trivial = distinct proposal that reached Verify's per-order loop"

	// compiled constants vs regenerated facts
	r.Emit(r.Prop+" consts", fmt.Sprintf("pad=%d unit=%d p2wsh=%d input=%d scale=%d tapwit=%d wit=%d latest=%d",
		order.VerifC01HeightHintPadding, int64(order.BaseSupplyUnit), input.P2WSHOutputSize, input.InputSize, blockchain.WitnessScaleFactor,
		poolscript.TaprootMultiSigWitnessSize, poolscript.MultiSigWitnessSize, uint32(order.LatestBatchVersion)))

	var sess *bSession
	newSession := func(version uint32) {
		if sess != nil {
			sess.mgr.Stop()
		}
		sess = newBSession(version)
		r.Emit(r.Prop+" reset", "ok")
	}
	newSession(uint32(order.LatestBatchVersion))

	// history: the earlier proposals of the session (same manager); part of every replay
	var history []*bCase
	type bReplay struct {
		bCase
		History []*bCase `json:"history"`
	}
	replayOf := func(c *bCase) interface{} {
		return bReplay{bCase: *c, History: append([]*bCase{}, history...)}
	}
	evaluate := func(c *bCase, res bResult, fixed bool) {
		canon, _ := json.Marshal(struct {
			E bEnv
			M bMsg
			B uint32
		}{c.Env, c.Msg, c.Best})
		if res.class != "parse" && res.class != "version" && res.class != "height" {
			r.Distinct(string(canon))
		}
		r.Sample(map[string]interface{}{"devs": c.Devs, "class": res.class, "orders": len(c.Env.Orders),
			"accounts": len(c.Env.Accounts), "outputs": len(c.Msg.TxOuts)})
		for _, d := range c.Devs {
			r.Count("dev/" + d)
		}
		r.Count(fmt.Sprintf("ndev/%d", len(c.Devs)))
		if res.class == "panic" {
			r.Violate("OrderMatchValidate panicked", r.Prop+"/panic", replayOf(c))
			return
		}
		if strings.HasPrefix(res.text, "unclassified") {
			r.Notes = append(r.Notes, res.class)
		}
		// pending batch must be set iff accepted
		if res.class == "ok" && res.pending != c.Msg.ID {
			r.Violate("accepted batch is not the pending batch", r.Prop+"/pending", replayOf(c))
		}
		if res.class != "ok" && res.pending != res.before {
			r.Violate("a rejected batch replaced the pending batch", r.Prop+"/pending", replayOf(c))
		}
		if res.class != "ok" {
			return
		}
		r.Count("accepted")
		c.countShape(r)
		if len(c.MarketOrder) > 0 {
			r.Count("acc/same-nonce-in-two-markets")
		}
		orig := c
		c = c.effective()
		defer func() { c = orig }()
		switch r.Prop {
		case "C01":
			if w := c.oracleC01(); w != "" {
				r.Violate("accepted batch: "+w, "C01/terms", replayOf(orig))
			}
		case "C02":
			if w, key := c.oracleC02(); w != "" {
				r.Violate("accepted batch: "+w, key, replayOf(orig))
			}
		case "C03":
			if w := c.oracleC03(); w != "" {
				r.Violate("accepted batch: "+w, "C03/funding", replayOf(orig))
			}
		}
	}

	for _, raw := range r.FixedCases() {
		var rc bReplay
		if err := json.Unmarshal(raw, &rc); err != nil {
			r.Notes = append(r.Notes, "bad fixed case: "+err.Error())
			continue
		}
		c := rc.bCase
		newSession(c.Env.Version)
		// first the earlier proposals this manager saw
		history = nil
		for _, hc := range rc.History {
			hc.run(r, sess)
			history = append(history, hc)
		}
		res := c.run(r, sess)
		r.Count("fixed")
		evaluate(&c, res, true)
		history = nil
	}
	if r.ReplayFile != "" {
		return
	}

	g := &bGen{rng: r.Rng, search: r.Search, prop: r.Prop}
	var prev *bCase
	for i := 0; i < r.N && len(r.Violations) < 20; i++ {
		if i%8 == 0 {
			newSession(g.pickVersion())
			prev = nil
			history = nil
		}
		var c *bCase
		if prev != nil && r.Rng.Intn(3) == 0 {
			// the auctioneer sends another prepare message for the SAME batch ID to the
			// same long-lived manager (re-proposal), possibly after the database changed
			c = g.reproposal(prev)
			r.Count("reproposal")
		} else {
			c = g.genCase(sess.version, i)
		}
		res := c.run(r, sess)
		evaluate(c, res, false)
		if res.class == "ok" && len(c.Devs) > 0 && strings.HasPrefix(c.Devs[0], "reproposal") {
			r.Count("acc/" + c.Devs[0])
		}
		prev = c
		history = append(history, c)
	}
	sess.mgr.Stop()
}

// countShape records which shapes the accepted proposals covered.
func (c *bCase) countShape(r *Run) {
	for i := range c.Env.Accounts {
		r.Count(fmt.Sprintf("acc/acct-version-%d", c.Env.Accounts[i].Version))
	}
	for _, m := range c.allMatches() {
		if m.o == nil {
			continue
		}
		if m.o.IsAsk {
			r.Count("acc/our-ask")
		} else {
			r.Count("acc/our-bid")
		}
		if m.o.AuctionType == 1 {
			r.Count("acc/outbound")
		}
		if m.o.Sidecar == 2 {
			r.Count("acc/sidecar")
		}
		r.Count(fmt.Sprintf("acc/chantype-%d-%d", m.o.ChanType, m.t.ChanType))
	}
	for _, d := range c.Msg.Diffs {
		if int64(d.EndingBalance) < int64(order.MinNoDustAccountSize) {
			r.Count("acc/dust-ending")
		} else {
			r.Count("acc/nondust-ending")
		}
		if d.NewExpiry != 0 && bSupportsExt(c.Msg.Version) {
			r.Count("acc/expiry-extended")
		}
		if a := c.acct(d.AcctKey); a != nil && bSupportsUpgrade(c.Msg.Version) && d.NewVersion&0xff > uint32(a.Version) {
			r.Count("acc/version-upgraded")
		}
	}
	r.Count(fmt.Sprintf("acc/markets-%d", len(c.Msg.Markets)))
}

var _ = rand.Int
var _ = bCommitName
