//go:build verif

package main

import (
	"encoding/hex"
	"fmt"
	"math/rand"
	"strings"

	"github.com/btcsuite/btcd/btcec/v2"
	"github.com/btcsuite/btcd/btcutil"
	"github.com/btcsuite/btcd/chaincfg/chainhash"
	"github.com/btcsuite/btcd/wire"
	"github.com/lightninglabs/pool/account"
	"github.com/lightningnetwork/lnd/keychain"
)

// ---------------------------------------------------------------- specs
//
// A spec is a JSON-friendly description of a stored value; the generator
// produces specs, `build` turns them into the real Go values, and a violating
// spec is what the replay file holds.

type c10TxIn struct {
	Hash    string   `json:"hash"`
	Index   uint32   `json:"index"`
	Script  string   `json:"script"`
	Seq     uint32   `json:"seq"`
	Witness []string `json:"witness"`
}

type c10TxOut struct {
	Value  int64  `json:"value"`
	Script string `json:"script"`
}

type c10Tx struct {
	Version  int32      `json:"version"`
	In       []c10TxIn  `json:"in"`
	Out      []c10TxOut `json:"out"`
	LockTime uint32     `json:"locktime"`
}

type c10Acct struct {
	Value      int64  `json:"value"`
	Expiry     uint32 `json:"expiry"`
	Family     uint32 `json:"family"`
	Index      uint32 `json:"index"`
	TraderKey  string `json:"trader_key"`
	AuctKey    string `json:"auct_key"`
	BatchKey   string `json:"batch_key"`
	Secret     string `json:"secret"`
	State      uint8  `json:"state"`
	HeightHint uint32 `json:"height_hint"`
	OpHash     string `json:"op_hash"`
	OpIndex    uint32 `json:"op_index"`
	Tx         *c10Tx `json:"tx"`
	Version    uint8  `json:"version"`
}

func unhexOr(s string) []byte {
	b, err := hex.DecodeString(s)
	if err != nil {
		panic(err)
	}
	return b
}

func (t *c10Tx) build() *wire.MsgTx {
	if t == nil {
		return nil
	}
	tx := &wire.MsgTx{Version: t.Version, LockTime: t.LockTime}
	for _, in := range t.In {
		var h chainhash.Hash
		copy(h[:], unhexOr(in.Hash))
		ti := &wire.TxIn{
			PreviousOutPoint: wire.OutPoint{Hash: h, Index: in.Index},
			SignatureScript:  unhexOr(in.Script),
			Sequence:         in.Seq,
		}
		for _, w := range in.Witness {
			ti.Witness = append(ti.Witness, unhexOr(w))
		}
		tx.TxIn = append(tx.TxIn, ti)
	}
	for _, out := range t.Out {
		tx.TxOut = append(tx.TxOut, &wire.TxOut{Value: out.Value, PkScript: unhexOr(out.Script)})
	}
	return tx
}

func c10ParseKey(s string) *btcec.PublicKey {
	k, err := btcec.ParsePubKey(unhexOr(s))
	if err != nil {
		panic(err)
	}
	return k
}

func (a *c10Acct) build() *account.Account {
	res := &account.Account{
		Value:  btcutil.Amount(a.Value),
		Expiry: a.Expiry,
		TraderKey: &keychain.KeyDescriptor{
			KeyLocator: keychain.KeyLocator{Family: keychain.KeyFamily(a.Family), Index: a.Index},
			PubKey:     c10ParseKey(a.TraderKey),
		},
		AuctioneerKey: c10ParseKey(a.AuctKey),
		BatchKey:      c10ParseKey(a.BatchKey),
		State:         account.State(a.State),
		HeightHint:    a.HeightHint,
		LatestTx:      a.Tx.build(),
		Version:       account.Version(a.Version),
	}
	copy(res.Secret[:], unhexOr(a.Secret))
	copy(res.OutPoint.Hash[:], unhexOr(a.OpHash))
	res.OutPoint.Index = a.OpIndex
	return res
}

// ---------------------------------------------------------------- rendering
//
// Canonical text of the real Go values, in exactly the format the Lean driver
// prints for its decoded model values (PoolModel/C10Drv.lean).

func hx(b []byte) string {
	if len(b) == 0 {
		return "-"
	}
	return hex.EncodeToString(b)
}

func renderTx(t *wire.MsgTx) string {
	if t == nil {
		return "nil"
	}
	var ins, outs []string
	for _, ti := range t.TxIn {
		w := "."
		if len(ti.Witness) > 0 {
			var ws []string
			for _, it := range ti.Witness {
				ws = append(ws, hx(it))
			}
			w = strings.Join(ws, "/")
		}
		ins = append(ins, fmt.Sprintf("%s:%d:%s:%d:%s", hx(ti.PreviousOutPoint.Hash[:]),
			ti.PreviousOutPoint.Index, hx(ti.SignatureScript), ti.Sequence, w))
	}
	for _, to := range t.TxOut {
		outs = append(outs, fmt.Sprintf("%d:%s", uint64(to.Value), hx(to.PkScript)))
	}
	return fmt.Sprintf("tx{%d|%d|%s|%s}", uint32(t.Version), t.LockTime,
		strings.Join(ins, ","), strings.Join(outs, ","))
}

func renderKey(k *btcec.PublicKey) string {
	if k == nil {
		return "nil"
	}
	return hx(k.SerializeCompressed())
}

func renderAcct(a *account.Account) string {
	tk := "nil"
	if a.TraderKey != nil {
		tk = fmt.Sprintf("%d/%d/%s", uint32(a.TraderKey.Family), a.TraderKey.Index,
			renderKey(a.TraderKey.PubKey))
	}
	return fmt.Sprintf("v=%d e=%d tk=%s ak=%s bk=%s sec=%s st=%d hh=%d op=%s:%d ver=%d tx=%s",
		uint64(a.Value), a.Expiry, tk, renderKey(a.AuctioneerKey), renderKey(a.BatchKey),
		hx(a.Secret[:]), uint8(a.State), a.HeightHint, hx(a.OutPoint.Hash[:]), a.OutPoint.Index,
		uint8(a.Version), renderTx(a.LatestTx))
}

// ---------------------------------------------------------------- generators

type c10Gen struct {
	rng    *rand.Rand
	keys   []string       // pool of valid compressed public keys (hex)
	wide   bool           // search mode: more boundary values
	oneHot map[string]int // next one-hot optional term per order type
}

func newC10Gen(rng *rand.Rand, wide bool) *c10Gen {
	g := &c10Gen{rng: rng, wide: wide, oneHot: map[string]int{}}
	for i := 0; i < 48; i++ {
		var b [32]byte
		rng.Read(b[:])
		b[0] &= 0x7f
		b[31] |= 1
		_, pub := btcec.PrivKeyFromBytes(b[:])
		g.keys = append(g.keys, hex.EncodeToString(pub.SerializeCompressed()))
	}
	return g
}

func (g *c10Gen) key() string { return g.keys[g.rng.Intn(len(g.keys))] }

func (g *c10Gen) bytes(n int) []byte {
	b := make([]byte, n)
	g.rng.Read(b)
	return b
}

func (g *c10Gen) hexN(n int) string { return hex.EncodeToString(g.bytes(n)) }

// u64 draws a 64-bit pattern biased towards boundaries.
func (g *c10Gen) u64() uint64 {
	switch g.rng.Intn(10) {
	case 0:
		return 0
	case 1:
		return ^uint64(0)
	case 2:
		return 1 << 63
	case 3:
		return uint64(g.rng.Intn(300))
	case 4:
		return 1<<uint(g.rng.Intn(64)) - uint64(g.rng.Intn(2))
	case 5, 6:
		return uint64(g.rng.Int63n(21_000_000 * 100_000_000))
	default:
		return g.rng.Uint64()
	}
}

func (g *c10Gen) u32() uint32 {
	switch g.rng.Intn(8) {
	case 0:
		return 0
	case 1:
		return ^uint32(0)
	case 2:
		return uint32(g.rng.Intn(300))
	case 3:
		return 1<<uint(g.rng.Intn(32)) - uint32(g.rng.Intn(2))
	default:
		return g.rng.Uint32()
	}
}

// scriptLen picks lengths that cross the var-int boundaries now and then.
func (g *c10Gen) scriptLen() int {
	switch x := g.rng.Intn(100); {
	case x < 15:
		return 0
	case x < 85:
		return 1 + g.rng.Intn(40)
	case x < 93:
		return 250 + g.rng.Intn(8) // 0xfc / 0xfd boundary
	case x < 99:
		return 300 + g.rng.Intn(600)
	default:
		return 65533 + g.rng.Intn(6) // 0xffff / 0x10000 boundary
	}
}

func (g *c10Gen) tx() *c10Tx {
	t := &c10Tx{LockTime: g.u32()}
	switch g.rng.Intn(4) {
	case 0:
		t.Version = 1
	case 1:
		t.Version = 2
	default:
		t.Version = int32(g.u32())
	}
	nIn := 1 + g.rng.Intn(3)
	if g.rng.Intn(40) == 0 {
		nIn = 253 + g.rng.Intn(3)
	}
	witMode := g.rng.Intn(3) // 0: none, 1: all, 2: mixed
	for i := 0; i < nIn; i++ {
		in := c10TxIn{Hash: g.hexN(32), Index: g.u32(), Seq: g.u32()}
		if nIn < 10 {
			in.Script = g.hexN(g.scriptLen())
		}
		if witMode == 1 || (witMode == 2 && g.rng.Intn(2) == 0) {
			nw := 1 + g.rng.Intn(3)
			for j := 0; j < nw; j++ {
				l := g.scriptLen()
				if nIn >= 10 {
					l %= 40
				}
				in.Witness = append(in.Witness, g.hexN(l))
			}
		}
		t.In = append(t.In, in)
	}
	nOut := g.rng.Intn(4)
	for i := 0; i < nOut; i++ {
		t.Out = append(t.Out, c10TxOut{Value: int64(g.u64()), Script: g.hexN(g.scriptLen())})
	}
	return t
}

var c10NoTxStates = map[uint8]bool{
	uint8(account.StateInitiated):             true,
	uint8(account.StateCanceledAfterRecovery): true,
}

// acct draws a well-formed account: defined state, LatestTx present exactly
// when the state stores it, outpoint index within 16 bits.
func (g *c10Gen) acct() *c10Acct {
	a := &c10Acct{
		Value: int64(g.u64()), Expiry: g.u32(), Family: g.u32(), Index: g.u32(),
		TraderKey: g.key(), AuctKey: g.key(), BatchKey: g.key(), Secret: g.hexN(32),
		State: uint8(g.rng.Intn(10)), HeightHint: g.u32(),
		OpHash: g.hexN(32), OpIndex: uint32(g.rng.Intn(65536)),
	}
	switch g.rng.Intn(6) {
	case 0, 1:
		a.Version = 0
	case 2:
		a.Version = 1
	case 3:
		a.Version = 2
	case 4:
		a.Version = uint8(g.rng.Intn(256))
	default:
		a.Version = 255
	}
	if g.rng.Intn(8) == 0 {
		a.OpIndex = []uint32{0, 65535, 255, 256}[g.rng.Intn(4)]
	}
	if !c10NoTxStates[a.State] {
		a.Tx = g.tx()
	}
	return a
}
