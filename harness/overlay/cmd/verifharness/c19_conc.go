//go:build verif

package main

// C19, concurrency part. order.ParseRPCBatch is reached from two goroutines
// of one trader daemon (rpcServer.handleServerMessage and
// SidecarAcceptor.handleServerMessage each have their own auctioneer client),
// and tickets are decoded from RPC handlers. A data race on package-level
// state inside the parsers ends in a Go runtime `fatal error` (concurrent map
// access), which kills the process and cannot be recovered. The scenario
// therefore runs in a CHILD process: this same binary, re-executed with
// VERIF_C19_CHILD=1, reads the inputs from stdin, runs N goroutines over the
// REAL parsers / decoders / handlers at the same time and reports the outcome
// class of every call. Oracle: the child exits normally, no call panicked, and
// every goroutine saw the same (value | error) outcome for the same input.

import (
	"bufio"
	"bytes"
	"encoding/json"
	"fmt"
	"os"
	"os/exec"
	"strings"
	"sync"
	"time"

	"github.com/lightninglabs/pool"
	"github.com/lightninglabs/pool/auctioneer"
	"github.com/lightninglabs/pool/auctioneerrpc"
	"github.com/lightninglabs/pool/order"
	"google.golang.org/protobuf/proto"
)

const c19ChildEnv = "VERIF_C19_CHILD"

// c19ConcInput is what the parent writes to the child's stdin.
type c19ConcInput struct {
	Goroutines int      `json:"goroutines"`
	Rounds     int      `json:"rounds"`
	Prepare    []string `json:"prepare"` // hex of protobuf wire bytes
	Sign       []string `json:"sign"`
	Tickets    []string `json:"tickets"` // hex of ticket bytes
	Strings    []string `json:"strings"` // hex of ticket strings
}

// c19ConcOutput is the child's report (one JSON document on stdout).
type c19ConcOutput struct {
	// Classes[g][i] = outcome class of input i as seen by goroutine g, inputs
	// in the order prepare, sign, tickets, strings
	Classes [][]string `json:"classes"`
	Panics  []string   `json:"panics"`
}

func init() {
	if os.Getenv(c19ChildEnv) == "" {
		return
	}
	// child mode: never returns to main()
	os.Exit(c19ChildMain())
}

func c19ChildMain() int {
	var in c19ConcInput
	if err := json.NewDecoder(bufio.NewReader(os.Stdin)).Decode(&in); err != nil {
		fmt.Fprintln(os.Stderr, "child: bad input:", err)
		return 3
	}
	n := len(in.Prepare) + len(in.Sign) + len(in.Tickets) + len(in.Strings)
	out := c19ConcOutput{Classes: make([][]string, in.Goroutines)}
	var mu sync.Mutex
	var wg sync.WaitGroup
	start := make(chan struct{})
	for g := 0; g < in.Goroutines; g++ {
		wg.Add(1)
		go func(g int) {
			defer wg.Done()
			cls := make([]string, n)
			// every goroutine decodes its own copy of the messages, as
			// the two gRPC streams of a daemon do
			run := func(i int, f func() string) {
				defer func() {
					if p := recover(); p != nil {
						cls[i] = "panic"
						mu.Lock()
						out.Panics = append(out.Panics, fmt.Sprintf("input %d goroutine %d: %v", i, g, p))
						mu.Unlock()
					}
				}()
				cls[i] = f()
			}
			<-start
			for round := 0; round < in.Rounds; round++ {
				i := 0
				for _, h := range in.Prepare {
					b := decUnhex(h)
					run(i, func() string {
						var m auctioneerrpc.OrderMatchPrepare
						if proto.Unmarshal(b, &m) != nil {
							return "undecodable"
						}
						_, err := order.ParseRPCBatch(&m)
						if err == nil {
							return "ok"
						}
						// the handlers of both clients answer an
						// unparsable message at the same time
						msg := &auctioneerrpc.ServerAuctionMessage{
							Msg: &auctioneerrpc.ServerAuctionMessage_Prepare{Prepare: &m},
						}
						st := &c19Stream{}
						cl := auctioneer.VerifC19ClientWithStream(st)
						if g%2 == 0 {
							_ = pool.VerifC19RPCServerHandle(cl, nil, msg)
						} else {
							_ = pool.VerifC19AcceptorHandle(cl, nil, msg)
						}
						if len(st.sent) == 0 {
							return "err-noreject"
						}
						return "err"
					})
					i++
				}
				for _, h := range in.Sign {
					b := decUnhex(h)
					run(i, func() string {
						var m auctioneerrpc.OrderMatchSignBegin
						if proto.Unmarshal(b, &m) != nil {
							return "undecodable"
						}
						if _, _, err := order.ParseRPCSign(&m); err != nil {
							return "err"
						}
						return "ok"
					})
					i++
				}
				for _, h := range in.Tickets {
					b := decUnhex(h)
					run(i, func() string { return decDeserializeRaw(b) })
					i++
				}
				for _, h := range in.Strings {
					s := string(decUnhex(h))
					run(i, func() string { return decDecodeStringRaw(s) })
					i++
				}
			}
			mu.Lock()
			out.Classes[g] = cls
			mu.Unlock()
		}(g)
	}
	close(start)
	done := make(chan struct{})
	go func() { wg.Wait(); close(done) }()
	select {
	case <-done:
	case <-time.After(40 * time.Second):
		fmt.Fprintln(os.Stderr, "child: goroutines did not finish in 40 s")
		return 4
	}
	if err := json.NewEncoder(os.Stdout).Encode(out); err != nil {
		return 5
	}
	return 0
}

// c19RunConc starts the child on the given inputs and evaluates the oracle.
// It returns the outcome class per input (as seen by goroutine 0) or nil when
// the child did not survive.
func c19RunConc(r *Run, in c19ConcInput, kind string) []string {
	exe, err := os.Executable()
	if err != nil {
		r.Notes = append(r.Notes, "cannot locate own executable: "+err.Error())
		return nil
	}
	payload, _ := json.Marshal(in)
	cmd := exec.Command(exe)
	cmd.Env = append(os.Environ(), c19ChildEnv+"=1", "GOMEMLIMIT=2GiB")
	cmd.Stdin = bytes.NewReader(payload)
	var stdout, stderr bytes.Buffer
	cmd.Stdout, cmd.Stderr = &stdout, &stderr
	done := make(chan error, 1)
	if err := cmd.Start(); err != nil {
		r.Notes = append(r.Notes, "cannot start child: "+err.Error())
		return nil
	}
	go func() { done <- cmd.Wait() }()
	var werr error
	select {
	case werr = <-done:
	case <-time.After(60 * time.Second):
		_ = cmd.Process.Kill()
		werr = fmt.Errorf("child killed after 60 s")
	}
	r.Evaluations++
	r.Count("conc/" + kind)
	replay := map[string]interface{}{"kind": "conc", "input": in}
	if werr != nil {
		// first lines of the runtime's report
		lines := strings.Split(stderr.String(), "\n")
		if len(lines) > 6 {
			lines = lines[:6]
		}
		r.Count("oracle/violation")
		r.Violate(fmt.Sprintf("%d goroutines decoding %d prepare / %d sign messages and %d tickets at the same time: "+
			"the process died (%v): %s", in.Goroutines, len(in.Prepare), len(in.Sign),
			len(in.Tickets)+len(in.Strings), werr, strings.Join(lines, " | ")),
			"C19/concurrent-decode", replay)
		return nil
	}
	var out c19ConcOutput
	if err := json.Unmarshal(stdout.Bytes(), &out); err != nil || len(out.Classes) != in.Goroutines {
		r.Count("oracle/violation")
		r.Violate("concurrent decode: child produced no report", "C19/concurrent-decode", replay)
		return nil
	}
	if len(out.Panics) > 0 {
		r.Count("oracle/violation")
		r.Violate("concurrent decode panicked: "+out.Panics[0], "C19/concurrent-decode", replay)
		return nil
	}
	for g := 1; g < len(out.Classes); g++ {
		for i := range out.Classes[0] {
			if out.Classes[g][i] != out.Classes[0][i] {
				r.Count("oracle/violation")
				r.Violate(fmt.Sprintf("concurrent decode: input %d is %s in goroutine 0 and %s in goroutine %d",
					i, out.Classes[0][i], out.Classes[g][i], g), "C19/concurrent-decode", replay)
				return nil
			}
		}
	}
	for _, c := range out.Classes[0] {
		r.Count("conc/out=" + strings.SplitN(c, ":", 2)[0])
		if c == "err-noreject" {
			r.Count("oracle/violation")
			r.Violate("concurrent decode: a handler did not reject an unparsable prepare message",
				"C19/concurrent-decode", replay)
			return nil
		}
	}
	r.Count("conc/child-exited-normally")
	return out.Classes[0]
}

// c19GenConc builds one concurrent scenario: prepare messages whose matched
// orders advertise many DISTINCT clearnet addresses (what a cache or any other
// shared state in the parsers would be keyed by), some defective ones, sign
// messages, tickets and strings.
func c19GenConc(r *Run) c19ConcInput {
	rng := r.Rng
	in := c19ConcInput{Goroutines: 8, Rounds: 3}
	for i := 0; i < 120; i++ {
		nDef := 0
		if rng.Intn(5) == 0 {
			nDef = 1
		}
		m := c19GenPrepare(r, nDef)
		// distinct tcp addresses
		for _, mm := range m.MatchedMarkets {
			if mm == nil {
				continue
			}
			for _, mo := range mm.MatchedOrders {
				if mo == nil {
					continue
				}
				addr := func(o *auctioneerrpc.ServerOrder) {
					if o == nil {
						return
					}
					for _, a := range o.NodeAddr {
						if !c19AddrOK(a) || strings.Contains(a.Addr, ".onion") {
							continue // keep malformed and onion addresses
						}
						a.Network = "tcp"
						a.Addr = fmt.Sprintf("%d.%d.%d.%d:%d", 1+rng.Intn(220), rng.Intn(256), rng.Intn(256),
							1+rng.Intn(254), 1+rng.Intn(65535))
					}
				}
				for _, a := range mo.MatchedAsks {
					if a.Ask != nil {
						addr(a.Ask.Details)
					}
				}
				for _, b := range mo.MatchedBids {
					if b.Bid != nil {
						addr(b.Bid.Details)
					}
				}
			}
		}
		wireB, err := proto.Marshal(m)
		if err != nil {
			continue
		}
		in.Prepare = append(in.Prepare, decHex(wireB))
	}
	for i := 0; i < 20; i++ {
		if wireB, err := proto.Marshal(c19GenSign(r)); err == nil {
			in.Sign = append(in.Sign, decHex(wireB))
		}
	}
	capped := decCapped()
	for i := 0; i < 40; i++ {
		b, _ := c19GenTicketBytes(r, capped)
		if decSkip(b) {
			continue
		}
		in.Tickets = append(in.Tickets, decHex(b))
	}
	for i := 0; i < 40; i++ {
		s, _ := c19GenString(r, capped)
		if decSkipString(s) {
			continue
		}
		in.Strings = append(in.Strings, decHex([]byte(s)))
	}
	return in
}

// c19ConcCases turns the prepare messages of a concurrent scenario into
// correspondence lines: the model's parse class of each message must be the
// class every goroutine observed.
func c19EmitConc(r *Run, in c19ConcInput, classes []string) {
	for i, h := range in.Prepare {
		var m auctioneerrpc.OrderMatchPrepare
		if proto.Unmarshal(decUnhex(h), &m) != nil || i >= len(classes) {
			continue
		}
		r.Emit("C19 pcls "+c19TokPrepare(&m), classes[i])
	}
}
