//go:build verif

package main

import (
	"fmt"
	"go/ast"
	"go/constant"
	"go/token"
	"strings"
)

func init() { jobs = append(jobs, job{props: []string{"C11"}, fn: genReserveFacts}) }

// reserveExtern are the third-party constants the reserve / fee arithmetic of
// pool is defined from. They are not in /repo's source text; the C11 harness
// prints the values the Go compiler evaluated (`C11 consts`) and the model
// driver must answer with the same numbers, so a drift is a broken tie.
var reserveExtern = map[string]int64{
	"input.P2WSHOutputSize":        43,
	"input.InputSize":              41,
	"blockchain.WitnessScaleFactor": 4,
	"chainfee.FeePerKwFloor":       253,
}

// reserveUsesSelector reports whether the function body mentions pkg.name.
func reserveUsesSelector(fd *ast.FuncDecl, sel string) bool {
	found := false
	ast.Inspect(fd, func(n ast.Node) bool {
		if se, ok := n.(*ast.SelectorExpr); ok && exprString(se) == sel {
			found = true
		}
		return !found
	})
	return found
}

func genReserveFacts() {
	for k, v := range reserveExtern {
		externConsts[k] = v
	}
	l := newLean("ReserveFacts", "Constants and finite tables entering the reserved-value / fee arithmetic (C11), read from the Go source.")
	l.p("namespace Pool.Gen.Reserve")

	orderFiles := pkgFiles("order")
	order := newConstEnv(orderFiles)
	l.p("/-- order.BaseSupplyUnit -/")
	l.p("def baseSupplyUnit : Nat := %s", intConst(order, "order", "BaseSupplyUnit"))
	l.p("/-- order.FeeRateTotalParts (a float64 variable holding an integral value) -/")
	l.p("def feeRateTotalParts : Nat := %s", intConst(order, "order", "FeeRateTotalParts"))

	// State.Archived: the set of states for which it returns true, obtained by
	// evaluating the method body (switch, if-chain or boolean expression alike)
	// for every value of the uint8 receiver.
	var arch []string
	if fd := findFunc(orderFiles, "State.Archived"); fd == nil || fd.Recv == nil || len(fd.Recv.List[0].Names) != 1 {
		fail("order.State.Archived not found")
	} else {
		ev := &reserveEval{files: orderFiles, own: order, ext: map[string]*constEnv{}}
		for v := int64(0); v < 256; v++ {
			res, ok := ev.callBool(fd, []int64{v}, true)
			if !ok {
				fail("order.State.Archived: cannot evaluate the body for state %d (%s)", v, ev.why)
				break
			}
			if res {
				arch = append(arch, fmt.Sprint(v))
			}
		}
	}
	l.p("/-- the states `s` with `State.Archived(s) = true` -/")
	l.p("def archivedStates : List Nat := [%s]", strings.Join(arch, ", "))
	var all []string
	for _, n := range []string{"StateSubmitted", "StateCleared", "StatePartiallyFilled", "StateExecuted",
		"StateCanceled", "StateExpired", "StateFailed"} {
		all = append(all, intConst(order, "order", n))
	}
	l.p("/-- every declared order state: submitted, cleared, partially filled, executed, canceled, expired, failed -/")
	l.p("def orderStates : List Nat := [%s]", strings.Join(all, ", "))
	l.p("def stateSubmitted : Nat := %s", intConst(order, "order", "StateSubmitted"))
	l.p("def stateCleared : Nat := %s", intConst(order, "order", "StateCleared"))
	l.p("def statePartiallyFilled : Nat := %s", intConst(order, "order", "StatePartiallyFilled"))
	l.p("def btcInboundLiquidity : Nat := %s", intConst(order, "order", "BTCInboundLiquidity"))
	l.p("def btcOutboundLiquidity : Nat := %s", intConst(order, "order", "BTCOutboundLiquidity"))
	l.p("def versionSelfChanBalance : Nat := %s", intConst(order, "order", "VersionSelfChanBalance"))

	// EstimateTraderFee: weights and the taproot version set.
	etf := findFunc(orderFiles, "EstimateTraderFee")
	if etf == nil {
		fail("order.EstimateTraderFee not found")
	} else {
		for _, s := range []string{"input.P2WSHOutputSize", "input.InputSize", "blockchain.WitnessScaleFactor",
			"poolscript.TaprootMultiSigWitnessSize", "poolscript.MultiSigWitnessSize"} {
			if !reserveUsesSelectorDeep(orderFiles, etf, s, 2) {
				fail("order.EstimateTraderFee no longer uses %s", s)
			}
		}
	}
	l.p("/-- lnd input.P2WSHOutputSize (extern; cross-checked by `C11 consts`) -/")
	l.p("def p2wshOutputSize : Nat := %d", reserveExtern["input.P2WSHOutputSize"])
	l.p("/-- lnd input.InputSize (extern) -/")
	l.p("def inputSize : Nat := %d", reserveExtern["input.InputSize"])
	l.p("/-- btcd blockchain.WitnessScaleFactor (extern) -/")
	l.p("def witnessScaleFactor : Nat := %d", reserveExtern["blockchain.WitnessScaleFactor"])
	l.p("/-- lnd chainfee.FeePerKwFloor (extern) -/")
	l.p("def feePerKwFloor : Nat := %d", reserveExtern["chainfee.FeePerKwFloor"])
	ps := newConstEnv(pkgFiles("poolscript"))
	l.p("def multiSigWitnessSize : Nat := %s", intConst(ps, "poolscript", "MultiSigWitnessSize"))
	l.p("def taprootMultiSigWitnessSize : Nat := %s", intConst(ps, "poolscript", "TaprootMultiSigWitnessSize"))

	// the account versions that take the taproot witness size: evaluate the
	// body of EstimateTraderFee for every value of its account.Version
	// parameter and see which witness constant is added to the weight
	// (switch, if/else on a local boolean, helper call – all the same).
	acctFiles := pkgFiles("account")
	acct := newConstEnv(acctFiles)
	var tap []string
	if etf != nil {
		vparam := ""
		for _, f := range etf.Type.Params.List {
			if exprString(f.Type) == "account.Version" && len(f.Names) == 1 {
				vparam = f.Names[0].Name
			}
		}
		if vparam == "" {
			fail("EstimateTraderFee: no parameter of type account.Version")
		} else {
			ev := &reserveEval{files: orderFiles, own: order, ext: map[string]*constEnv{"account": acct}}
			wit := []string{"poolscript.TaprootMultiSigWitnessSize", "poolscript.MultiSigWitnessSize"}
			for v := int64(0); v < 256 && !curFailed; v++ {
				// the witness constants mentioned by the statements that are EXECUTED for this version, in
				// EstimateTraderFee and in the same-package helpers it calls (however the weight is assembled)
				ev.why = ""
				seen := map[string]bool{}
				ok := ev.mentions(etf, map[string]int64{vparam: v}, wit, seen, 0)
				switch {
				case !ok:
					fail("EstimateTraderFee: cannot evaluate the body for account version %d (%s)", v, ev.why)
				case len(seen) != 1:
					fail("EstimateTraderFee: account version %d uses %d witness size constants (want exactly one)", v, len(seen))
				case seen[wit[0]]:
					tap = append(tap, fmt.Sprint(v))
				}
			}
		}
	}
	// account.ValidateVersion: the known account versions (those for which it returns nil).
	var known []string
	if fd := findFunc(acctFiles, "ValidateVersion"); fd == nil || len(fd.Type.Params.List) != 1 ||
		len(fd.Type.Params.List[0].Names) != 1 {
		fail("account.ValidateVersion not found")
	} else {
		ev := &reserveEval{files: acctFiles, own: acct, ext: map[string]*constEnv{}}
		for v := int64(0); v < 256; v++ {
			var isNil, seen bool
			ok := ev.run(fd.Body.List, map[string]int64{fd.Type.Params.List[0].Names[0].Name: v}, map[string]ast.Expr{},
				func(st ast.Stmt) bool {
					if ret, isRet := st.(*ast.ReturnStmt); isRet && len(ret.Results) == 1 {
						seen = true
						isNil = exprString(ret.Results[0]) == "nil"
						return true
					}
					return false
				})
			if !ok || !seen {
				fail("account.ValidateVersion: cannot evaluate the body for version %d (%s)", v, ev.why)
				break
			}
			if isNil {
				known = append(known, fmt.Sprint(v))
			}
		}
	}
	l.p("/-- the account versions `account.ValidateVersion` accepts -/")
	l.p("def knownAccountVersions : List Nat := [%s]", strings.Join(known, ", "))
	l.p("/-- account versions for which EstimateTraderFee adds the taproot witness size (all others: MultiSigWitnessSize) -/")
	l.p("def taprootVersions : List Nat := [%s]", strings.Join(tap, ", "))

	// LinearFeeSchedule.ExecutionFee: the unique integer division in the body whose dividend multiplies the
	// amount parameter by the fee rate field and whose divisor is an integer constant (operand order, locals and
	// parentheses do not matter).
	div := "0"
	termsFiles := pkgFiles("terms")
	termsEnv := newConstEnv(termsFiles)
	if ef := findFunc(termsFiles, "LinearFeeSchedule.ExecutionFee"); ef == nil || ef.Body == nil {
		fail("terms.LinearFeeSchedule.ExecutionFee not found")
	} else {
		amtName := ""
		if len(ef.Type.Params.List) == 1 && len(ef.Type.Params.List[0].Names) == 1 {
			amtName = ef.Type.Params.List[0].Names[0].Name
		}
		locals := map[string]ast.Expr{}
		ast.Inspect(ef.Body, func(n ast.Node) bool {
			if as, ok := n.(*ast.AssignStmt); ok && as.Tok == token.DEFINE && len(as.Lhs) == 1 && len(as.Rhs) == 1 {
				if id, ok := as.Lhs[0].(*ast.Ident); ok {
					locals[id.Name] = as.Rhs[0]
				}
			}
			if vs, ok := n.(*ast.ValueSpec); ok && len(vs.Names) == len(vs.Values) {
				for i, nm := range vs.Names {
					locals[nm.Name] = vs.Values[i]
				}
			}
			return true
		})
		var mentions func(e ast.Expr, depth int) (amt, rate bool)
		mentions = func(e ast.Expr, depth int) (amt, rate bool) {
			ast.Inspect(e, func(n ast.Node) bool {
				switch x := n.(type) {
				case *ast.Ident:
					if x.Name == amtName {
						amt = true
					} else if def, ok := locals[x.Name]; ok && depth < 4 {
						a2, r2 := mentions(def, depth+1)
						amt, rate = amt || a2, rate || r2
					}
				case *ast.SelectorExpr:
					if x.Sel.Name == "feeRate" {
						rate = true
					}
				}
				return true
			})
			return
		}
		var found []string
		ast.Inspect(ef.Body, func(n ast.Node) bool {
			be, ok := n.(*ast.BinaryExpr)
			if !ok || be.Op != token.QUO {
				return true
			}
			y := be.Y
			for i := 0; i < 4; i++ {
				if id, ok := y.(*ast.Ident); ok {
					if d, ok := locals[id.Name]; ok {
						y = d
						continue
					}
				}
				break
			}
			if v, ok := termsEnv.eval(y, 0); ok && v.Kind() == constant.Int {
				if a, r := mentions(be.X, 0); a && r {
					found = append(found, v.ExactString())
				}
			}
			return true
		})
		if len(found) != 1 {
			fail("terms.LinearFeeSchedule.ExecutionFee: expected exactly one `amount * feeRate / <const>`, found %v", found)
		} else {
			div = found[0]
		}
	}
	l.p("/-- divisor of terms.LinearFeeSchedule.ExecutionFee (fee rate is in parts per …) -/")
	l.p("def execFeeRateDivisor : Nat := %s", div)

	// manager.validateOrder compares MaxBatchFeeRate with chainfee.FeePerKwFloor.
	if vo := findFunc(orderFiles, "manager.validateOrder"); vo == nil || !reserveUsesSelectorDeep(orderFiles, vo, "chainfee.FeePerKwFloor", 2) {
		fail("order.manager.validateOrder no longer references chainfee.FeePerKwFloor")
	}
	l.p("end Pool.Gen.Reserve")
}


// reserveUsesSelectorDeep: like reserveUsesSelector, also looking into same-package
// functions called from the body (an extracted helper yields the same fact).
func reserveUsesSelectorDeep(files []*ast.File, fd *ast.FuncDecl, sel string, depth int) bool {
	if fd == nil {
		return false
	}
	if reserveUsesSelector(fd, sel) {
		return true
	}
	if depth == 0 {
		return false
	}
	found := false
	ast.Inspect(fd, func(n ast.Node) bool {
		if ce, ok := n.(*ast.CallExpr); ok && !found {
			if id, ok := ce.Fun.(*ast.Ident); ok {
				if callee := findFunc(files, id.Name); callee != nil && callee != fd {
					found = reserveUsesSelectorDeep(files, callee, sel, depth-1)
				}
			}
		}
		return !found
	})
	return found
}

// reserveEval is a tiny interpreter for decision code over one small integer
// input: it executes if / else-if chains, tagged and tagless switches, simple
// local definitions, returns and calls of same-package boolean helpers, with
// integer comparisons over the input, package constants and literals. It lets
// the extractor read WHAT a function decides for every input value instead of
// how the decision is spelled.
type reserveEval struct {
	files []*ast.File
	own   *constEnv
	ext   map[string]*constEnv
	why   string
	depth int
}

func (e *reserveEval) giveUp(format string, a ...interface{}) bool {
	if e.why == "" {
		e.why = fmt.Sprintf(format, a...)
	}
	return false
}

func (e *reserveEval) intVal(x ast.Expr, vars map[string]int64, locals map[string]ast.Expr) (int64, bool) {
	switch t := x.(type) {
	case *ast.ParenExpr:
		return e.intVal(t.X, vars, locals)
	case *ast.Ident:
		if v, ok := vars[t.Name]; ok {
			return v, true
		}
		if d, ok := locals[t.Name]; ok {
			return e.intVal(d, vars, locals)
		}
		if v, ok := e.own.get(t.Name); ok && v.Kind() == constant.Int {
			if i, exact := constant.Int64Val(v); exact {
				return i, true
			}
		}
	case *ast.SelectorExpr:
		if pkg, ok := t.X.(*ast.Ident); ok {
			if env, ok := e.ext[pkg.Name]; ok {
				if v, ok := env.get(t.Sel.Name); ok && v.Kind() == constant.Int {
					if i, exact := constant.Int64Val(v); exact {
						return i, true
					}
				}
			}
		}
	case *ast.BasicLit:
		v := constant.MakeFromLiteral(t.Value, t.Kind, 0)
		if v.Kind() == constant.Int {
			if i, exact := constant.Int64Val(v); exact {
				return i, true
			}
		}
	case *ast.CallExpr: // conversion T(x)
		if len(t.Args) == 1 {
			if id, ok := t.Fun.(*ast.Ident); !ok || findFunc(e.files, id.Name) == nil {
				return e.intVal(t.Args[0], vars, locals)
			}
		}
	}
	e.giveUp("integer expression %s", exprString(x))
	return 0, false
}

func (e *reserveEval) boolVal(x ast.Expr, vars map[string]int64, locals map[string]ast.Expr) (bool, bool) {
	switch t := x.(type) {
	case *ast.ParenExpr:
		return e.boolVal(t.X, vars, locals)
	case *ast.Ident:
		switch t.Name {
		case "true":
			return true, true
		case "false":
			return false, true
		}
		if d, ok := locals[t.Name]; ok {
			return e.boolVal(d, vars, locals)
		}
	case *ast.UnaryExpr:
		if t.Op == token.NOT {
			v, ok := e.boolVal(t.X, vars, locals)
			return !v, ok
		}
	case *ast.BinaryExpr:
		switch t.Op {
		case token.LOR, token.LAND:
			a, ok1 := e.boolVal(t.X, vars, locals)
			if !ok1 {
				return false, false
			}
			if (t.Op == token.LOR && a) || (t.Op == token.LAND && !a) {
				return a, true
			}
			return e.boolVal(t.Y, vars, locals)
		case token.EQL, token.NEQ, token.LSS, token.LEQ, token.GTR, token.GEQ:
			a, ok1 := e.intVal(t.X, vars, locals)
			b, ok2 := e.intVal(t.Y, vars, locals)
			if !ok1 || !ok2 {
				return false, false
			}
			switch t.Op {
			case token.EQL:
				return a == b, true
			case token.NEQ:
				return a != b, true
			case token.LSS:
				return a < b, true
			case token.LEQ:
				return a <= b, true
			case token.GTR:
				return a > b, true
			default:
				return a >= b, true
			}
		}
	case *ast.CallExpr:
		// same-package boolean helper (function, or method on the input value)
		var callee *ast.FuncDecl
		var args []ast.Expr
		switch f := t.Fun.(type) {
		case *ast.Ident:
			callee, args = findFunc(e.files, f.Name), t.Args
		case *ast.SelectorExpr:
			for _, file := range e.files {
				for _, d := range file.Decls {
					if fd, ok := d.(*ast.FuncDecl); ok && fd.Recv != nil && fd.Name.Name == f.Sel.Name {
						callee, args = fd, append([]ast.Expr{f.X}, t.Args...)
					}
				}
			}
		}
		if callee != nil && e.depth < 3 {
			vals := make([]int64, len(args))
			for i, a := range args {
				v, ok := e.intVal(a, vars, locals)
				if !ok {
					return false, false
				}
				vals[i] = v
			}
			return e.callBool(callee, vals, callee.Recv != nil)
		}
	}
	e.giveUp("boolean expression %s", exprString(x))
	return false, false
}

// resolve follows local definitions/assignments, conversions and calls of same-package helpers (executed for the
// current input) down to the expression that finally provides the value.
func (e *reserveEval) resolve(x ast.Expr, vars map[string]int64, locals map[string]ast.Expr, depth int) ast.Expr {
	if depth > 6 {
		return x
	}
	switch t := x.(type) {
	case *ast.ParenExpr:
		return e.resolve(t.X, vars, locals, depth+1)
	case *ast.Ident:
		if d, ok := locals[t.Name]; ok && d != x {
			return e.resolve(d, vars, locals, depth+1)
		}
	case *ast.CallExpr:
		if id, ok := t.Fun.(*ast.Ident); ok {
			if callee := findFunc(e.files, id.Name); callee != nil && callee.Body != nil && e.depth < 3 {
				var names []string
				for _, f := range callee.Type.Params.List {
					for _, n := range f.Names {
						names = append(names, n.Name)
					}
				}
				if len(names) == len(t.Args) {
					cv := map[string]int64{}
					for i, a := range t.Args {
						if v, ok := e.intVal(a, vars, locals); ok {
							cv[names[i]] = v
						}
					}
					e.why = ""
					var ret ast.Expr
					cl := map[string]ast.Expr{}
					e.depth++
					ok := e.run(callee.Body.List, cv, cl, func(st ast.Stmt) bool {
						if r, isRet := st.(*ast.ReturnStmt); isRet && len(r.Results) == 1 {
							ret = e.resolve(r.Results[0], cv, cl, depth+1)
							return true
						}
						return false
					})
					e.depth--
					if ok && ret != nil {
						return ret
					}
				}
			} else if callee == nil && len(t.Args) == 1 { // conversion
				return e.resolve(t.Args[0], vars, locals, depth+1)
			}
		}
	}
	return x
}

// mentions executes fd for the given input and records which of the selectors `sels` occur in the statements that
// are executed – in fd itself and, recursively, in the same-package functions called from those statements (their
// integer-evaluable arguments bound to the callee's parameters).
func (e *reserveEval) mentions(fd *ast.FuncDecl, vars map[string]int64, sels []string, out map[string]bool, depth int) bool {
	if fd == nil || fd.Body == nil {
		return true
	}
	locals := map[string]ast.Expr{}
	good := true
	ok := e.run(fd.Body.List, vars, locals, func(st ast.Stmt) bool {
		ast.Inspect(st, func(n ast.Node) bool {
			switch x := n.(type) {
			case *ast.FuncLit:
				return false
			case *ast.SelectorExpr:
				str := exprString(x)
				for _, s := range sels {
					if s == str {
						out[s] = true
					}
				}
			case *ast.CallExpr:
				id, isID := x.Fun.(*ast.Ident)
				if !isID || depth >= 3 {
					return true
				}
				callee := findFunc(e.files, id.Name)
				if callee == nil || callee == fd {
					return true
				}
				var names []string
				for _, f := range callee.Type.Params.List {
					for _, nm := range f.Names {
						names = append(names, nm.Name)
					}
				}
				cv := map[string]int64{}
				if len(names) == len(x.Args) {
					for i, a := range x.Args {
						why := e.why
						if v, ok := e.intVal(a, vars, locals); ok {
							cv[names[i]] = v
						}
						e.why = why
					}
				}
				if !e.mentions(callee, cv, sels, out, depth+1) {
					good = false
				}
			}
			return true
		})
		return false
	})
	return ok && good
}

// callBool evaluates a function with integer parameters (receiver first if withRecv) returning one bool.
func (e *reserveEval) callBool(fd *ast.FuncDecl, args []int64, withRecv bool) (bool, bool) {
	var names []string
	if withRecv && fd.Recv != nil {
		for _, f := range fd.Recv.List {
			for _, n := range f.Names {
				names = append(names, n.Name)
			}
		}
	}
	for _, f := range fd.Type.Params.List {
		for _, n := range f.Names {
			names = append(names, n.Name)
		}
	}
	if len(names) != len(args) || fd.Body == nil {
		return false, e.giveUp("call of %s: parameter mismatch", fd.Name.Name)
	}
	vars := map[string]int64{}
	for i, n := range names {
		vars[n] = args[i]
	}
	var res, got, okRes bool
	e.depth++
	locals := map[string]ast.Expr{}
	ok := e.run(fd.Body.List, vars, locals, func(st ast.Stmt) bool {
		if ret, isRet := st.(*ast.ReturnStmt); isRet && len(ret.Results) == 1 {
			res, okRes = e.boolVal(ret.Results[0], vars, locals)
			got = true
			return true
		}
		return false
	})
	e.depth--
	if !ok || !got || !okRes {
		return false, e.giveUp("call of %s: no boolean result", fd.Name.Name)
	}
	return res, true
}

// run executes the statements for the given input; visit sees every executed
// simple statement and stops the run by returning true. Result false = the
// control flow could not be decided.
func (e *reserveEval) run(stmts []ast.Stmt, vars map[string]int64, locals map[string]ast.Expr,
	visit func(ast.Stmt) bool) bool {

	stopped := false
	var exec func(list []ast.Stmt) bool
	exec = func(list []ast.Stmt) bool {
		for _, st := range list {
			if stopped {
				return true
			}
			switch t := st.(type) {
			case *ast.BlockStmt:
				if !exec(t.List) {
					return false
				}
			case *ast.AssignStmt:
				if (t.Tok == token.DEFINE || t.Tok == token.ASSIGN) && len(t.Lhs) == 1 && len(t.Rhs) == 1 {
					if id, ok := t.Lhs[0].(*ast.Ident); ok {
						locals[id.Name] = t.Rhs[0]
					}
				}
				if visit(st) {
					stopped = true
				}
			case *ast.DeclStmt:
				if gd, ok := t.Decl.(*ast.GenDecl); ok && (gd.Tok == token.VAR || gd.Tok == token.CONST) {
					for _, sp := range gd.Specs {
						if vs, ok := sp.(*ast.ValueSpec); ok && len(vs.Names) == len(vs.Values) {
							for i, n := range vs.Names {
								locals[n.Name] = vs.Values[i]
							}
						}
					}
				}
				if visit(st) {
					stopped = true
				}
			case *ast.IfStmt:
				if t.Init != nil && !exec([]ast.Stmt{t.Init}) {
					return false
				}
				c, ok := e.boolVal(t.Cond, vars, locals)
				if !ok {
					return false
				}
				if c {
					if !exec(t.Body.List) {
						return false
					}
				} else if t.Else != nil {
					if !exec([]ast.Stmt{t.Else}) {
						return false
					}
				}
			case *ast.SwitchStmt:
				if t.Init != nil && !exec([]ast.Stmt{t.Init}) {
					return false
				}
				var tag int64
				if t.Tag != nil {
					v, ok := e.intVal(t.Tag, vars, locals)
					if !ok {
						return false
					}
					tag = v
				}
				var chosen, def *ast.CaseClause
				for _, c := range t.Body.List {
					cc := c.(*ast.CaseClause)
					if cc.List == nil {
						def = cc
						continue
					}
					for _, ce := range cc.List {
						hit := false
						if t.Tag != nil {
							v, ok := e.intVal(ce, vars, locals)
							if !ok {
								return false
							}
							hit = v == tag
						} else {
							v, ok := e.boolVal(ce, vars, locals)
							if !ok {
								return false
							}
							hit = v
						}
						if hit && chosen == nil {
							chosen = cc
						}
					}
				}
				if chosen == nil {
					chosen = def
				}
				if chosen != nil {
					for _, b := range chosen.Body {
						if br, ok := b.(*ast.BranchStmt); ok && br.Tok == token.FALLTHROUGH {
							return e.giveUp("fallthrough")
						}
					}
					if !exec(chosen.Body) {
						return false
					}
				}
			case *ast.ReturnStmt:
				visit(st)
				stopped = true
			case *ast.ForStmt, *ast.RangeStmt, *ast.GoStmt, *ast.SelectStmt, *ast.TypeSwitchStmt, *ast.LabeledStmt:
				return e.giveUp("unsupported statement %T", st)
			case *ast.BranchStmt:
				if t.Tok != token.BREAK {
					return e.giveUp("branch statement %s", t.Tok)
				}
				return true
			default:
				if visit(st) {
					stopped = true
				}
			}
		}
		return true
	}
	return exec(stmts)
}
