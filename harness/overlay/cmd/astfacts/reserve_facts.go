//go:build verif

package main

import (
	"go/ast"
	"go/token"
	"strings"
)

func init() { jobs = append(jobs, job{props: []string{"C11"}, fn: genReserveFacts}) }

// reserveExtern are the third-party constants the reserve / fee arithmetic of
// pool is defined from. They are not in /repo's source text; the C11 harness
// prints the values the Go compiler evaluated (`C11 consts`) and the model
// driver must answer with the same numbers, so a drift is a broken tie.
var reserveExtern = map[string]int64{
	"input.P2WSHOutputSize":        43,
	"input.InputSize":              41,
	"blockchain.WitnessScaleFactor": 4,
	"chainfee.FeePerKwFloor":       253,
}

// reserveUsesSelector reports whether the function body mentions pkg.name.
func reserveUsesSelector(fd *ast.FuncDecl, sel string) bool {
	found := false
	ast.Inspect(fd, func(n ast.Node) bool {
		if se, ok := n.(*ast.SelectorExpr); ok && exprString(se) == sel {
			found = true
		}
		return !found
	})
	return found
}

// switchTrueCases returns, for a method of the shape
// `switch x { case A, B: return true; default: return false }`, the case
// expressions of the `return true` arm. ok=false if the shape differs.
func reserveSwitchCasesReturning(fd *ast.FuncDecl, want string) ([]ast.Expr, bool) {
	if fd == nil || fd.Body == nil {
		return nil, false
	}
	var sw *ast.SwitchStmt
	for _, st := range fd.Body.List {
		if s, ok := st.(*ast.SwitchStmt); ok {
			sw = s
		}
	}
	if sw == nil {
		return nil, false
	}
	var res []ast.Expr
	sawDefault := false
	for _, c := range sw.Body.List {
		cc := c.(*ast.CaseClause)
		if len(cc.Body) != 1 {
			return nil, false
		}
		ret, ok := cc.Body[0].(*ast.ReturnStmt)
		if !ok || len(ret.Results) != 1 {
			return nil, false
		}
		val := exprString(ret.Results[0])
		if cc.List == nil {
			sawDefault = true
			if val == want {
				return nil, false
			}
			continue
		}
		if val == want {
			res = append(res, cc.List...)
		}
	}
	return res, sawDefault
}

func genReserveFacts() {
	for k, v := range reserveExtern {
		externConsts[k] = v
	}
	l := newLean("ReserveFacts", "Constants and finite tables entering the reserved-value / fee arithmetic (C11), read from the Go source.")
	l.p("namespace Pool.Gen.Reserve")

	orderFiles := pkgFiles("order")
	order := newConstEnv(orderFiles)
	l.p("/-- order.BaseSupplyUnit -/")
	l.p("def baseSupplyUnit : Nat := %s", intConst(order, "order", "BaseSupplyUnit"))
	l.p("/-- order.FeeRateTotalParts (a float64 variable holding an integral value) -/")
	l.p("def feeRateTotalParts : Nat := %s", intConst(order, "order", "FeeRateTotalParts"))

	// State.Archived: the set of states for which it returns true.
	cases, ok := reserveSwitchCasesReturning(findFunc(orderFiles, "State.Archived"), "true")
	if !ok || len(cases) == 0 {
		fail("order.State.Archived no longer has the shape switch{case …: return true; default: return false}")
	}
	var arch []string
	for _, c := range cases {
		id, isID := c.(*ast.Ident)
		if !isID {
			fail("State.Archived: case expression %s is not an identifier", exprString(c))
			continue
		}
		arch = append(arch, intConst(order, "order", id.Name))
	}
	l.p("/-- the states `s` with `State.Archived(s) = true` -/")
	l.p("def archivedStates : List Nat := [%s]", strings.Join(arch, ", "))
	var all []string
	for _, n := range []string{"StateSubmitted", "StateCleared", "StatePartiallyFilled", "StateExecuted",
		"StateCanceled", "StateExpired", "StateFailed"} {
		all = append(all, intConst(order, "order", n))
	}
	l.p("/-- every declared order state: submitted, cleared, partially filled, executed, canceled, expired, failed -/")
	l.p("def orderStates : List Nat := [%s]", strings.Join(all, ", "))
	l.p("def stateSubmitted : Nat := %s", intConst(order, "order", "StateSubmitted"))
	l.p("def stateCleared : Nat := %s", intConst(order, "order", "StateCleared"))
	l.p("def statePartiallyFilled : Nat := %s", intConst(order, "order", "StatePartiallyFilled"))
	l.p("def btcInboundLiquidity : Nat := %s", intConst(order, "order", "BTCInboundLiquidity"))
	l.p("def btcOutboundLiquidity : Nat := %s", intConst(order, "order", "BTCOutboundLiquidity"))
	l.p("def versionSelfChanBalance : Nat := %s", intConst(order, "order", "VersionSelfChanBalance"))

	// EstimateTraderFee: weights and the taproot version set.
	etf := findFunc(orderFiles, "EstimateTraderFee")
	if etf == nil {
		fail("order.EstimateTraderFee not found")
	} else {
		for _, s := range []string{"input.P2WSHOutputSize", "input.InputSize", "blockchain.WitnessScaleFactor",
			"poolscript.TaprootMultiSigWitnessSize", "poolscript.MultiSigWitnessSize"} {
			if !reserveUsesSelector(etf, s) {
				fail("order.EstimateTraderFee no longer uses %s", s)
			}
		}
	}
	l.p("/-- lnd input.P2WSHOutputSize (extern; cross-checked by `C11 consts`) -/")
	l.p("def p2wshOutputSize : Nat := %d", reserveExtern["input.P2WSHOutputSize"])
	l.p("/-- lnd input.InputSize (extern) -/")
	l.p("def inputSize : Nat := %d", reserveExtern["input.InputSize"])
	l.p("/-- btcd blockchain.WitnessScaleFactor (extern) -/")
	l.p("def witnessScaleFactor : Nat := %d", reserveExtern["blockchain.WitnessScaleFactor"])
	l.p("/-- lnd chainfee.FeePerKwFloor (extern) -/")
	l.p("def feePerKwFloor : Nat := %d", reserveExtern["chainfee.FeePerKwFloor"])
	ps := newConstEnv(pkgFiles("poolscript"))
	l.p("def multiSigWitnessSize : Nat := %s", intConst(ps, "poolscript", "MultiSigWitnessSize"))
	l.p("def taprootMultiSigWitnessSize : Nat := %s", intConst(ps, "poolscript", "TaprootMultiSigWitnessSize"))

	// the account versions that take the taproot witness size: the case
	// list of the switch in EstimateTraderFee whose arm assigns the
	// taproot size.
	acct := newConstEnv(pkgFiles("account"))
	var tap []string
	if etf != nil {
		var sw *ast.SwitchStmt
		ast.Inspect(etf, func(n ast.Node) bool {
			if s, ok := n.(*ast.SwitchStmt); ok {
				sw = s
			}
			return true
		})
		if sw == nil || exprString(sw.Tag) != "accountVersion" {
			fail("EstimateTraderFee: switch accountVersion not found")
		} else {
			nDefault := 0
			for _, c := range sw.Body.List {
				cc := c.(*ast.CaseClause)
				body := ""
				for _, st := range cc.Body {
					if as, ok := st.(*ast.AssignStmt); ok && as.Tok == token.ADD_ASSIGN && len(as.Rhs) == 1 {
						body += exprString(as.Lhs[0]) + "+=" + exprString(as.Rhs[0])
					} else {
						body += "?"
					}
				}
				switch {
				case cc.List == nil:
					nDefault++
					if body != "weightEstimate+=poolscript.MultiSigWitnessSize" {
						fail("EstimateTraderFee: default arm is %q", body)
					}
				case body == "weightEstimate+=poolscript.TaprootMultiSigWitnessSize":
					for _, e := range cc.List {
						se, ok := e.(*ast.SelectorExpr)
						if !ok || exprString(se.X) != "account" {
							fail("EstimateTraderFee: case %s is not account.<Version>", exprString(e))
							continue
						}
						tap = append(tap, intConst(acct, "account", se.Sel.Name))
					}
				default:
					fail("EstimateTraderFee: unexpected switch arm %q", body)
				}
			}
			if nDefault != 1 {
				fail("EstimateTraderFee: switch has no default arm")
			}
		}
	}
	// account.ValidateVersion: the known account versions (the case list returning nil).
	var known []string
	if kc, ok := reserveSwitchCasesReturning(findFunc(pkgFiles("account"), "ValidateVersion"), "nil"); !ok || len(kc) == 0 {
		fail("account.ValidateVersion no longer has the shape switch{case …: return nil; default: return <err>}")
	} else {
		for _, c := range kc {
			id, isID := c.(*ast.Ident)
			if !isID {
				fail("account.ValidateVersion: case %s is not an identifier", exprString(c))
				continue
			}
			known = append(known, intConst(acct, "account", id.Name))
		}
	}
	l.p("/-- the account versions `account.ValidateVersion` accepts -/")
	l.p("def knownAccountVersions : List Nat := [%s]", strings.Join(known, ", "))
	l.p("/-- account versions for which EstimateTraderFee adds the taproot witness size (all others: MultiSigWitnessSize) -/")
	l.p("def taprootVersions : List Nat := [%s]", strings.Join(tap, ", "))

	// LinearFeeSchedule.ExecutionFee: `amt * s.feeRate / <literal>`.
	div := "0"
	ef := findFunc(pkgFiles("terms"), "LinearFeeSchedule.ExecutionFee")
	if ef == nil || ef.Body == nil || len(ef.Body.List) != 1 {
		fail("terms.LinearFeeSchedule.ExecutionFee not found / not a single return")
	} else if ret, ok := ef.Body.List[0].(*ast.ReturnStmt); !ok || len(ret.Results) != 1 {
		fail("terms.LinearFeeSchedule.ExecutionFee is not a single return")
	} else if be, ok := ret.Results[0].(*ast.BinaryExpr); !ok || be.Op != token.QUO ||
		exprString(be.X) != "amt * s.feeRate" {
		fail("terms.LinearFeeSchedule.ExecutionFee is no longer amt * s.feeRate / <const>: %s", exprString(ret.Results[0]))
	} else if lit, ok := be.Y.(*ast.BasicLit); !ok || lit.Kind != token.INT {
		fail("terms.LinearFeeSchedule.ExecutionFee divisor is not an integer literal")
	} else {
		div = strings.ReplaceAll(lit.Value, "_", "")
	}
	l.p("/-- divisor of terms.LinearFeeSchedule.ExecutionFee (fee rate is in parts per …) -/")
	l.p("def execFeeRateDivisor : Nat := %s", div)

	// manager.validateOrder compares MaxBatchFeeRate with chainfee.FeePerKwFloor.
	if vo := findFunc(orderFiles, "manager.validateOrder"); vo == nil || !reserveUsesSelector(vo, "chainfee.FeePerKwFloor") {
		fail("order.manager.validateOrder no longer references chainfee.FeePerKwFloor")
	}
	l.p("end Pool.Gen.Reserve")
}
