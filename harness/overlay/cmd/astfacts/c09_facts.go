//go:build verif

package main

import (
	"go/ast"
	"go/token"
	"strings"
)

func init() { jobs = append(jobs, job{props: []string{"C09"}, fn: genC09}) }

// c09Negate returns the canonical negation of a canonicalised comparison
// ("a <= b" -> "b < a", "a < b" -> "b <= a"); other conditions are wrapped.
func c09Negate(c string) string {
	if i := strings.Index(c, " <= "); i > 0 && !strings.ContainsAny(c, "&|") {
		return c[i+4:] + " < " + c[:i]
	}
	if i := strings.Index(c, " < "); i > 0 && !strings.ContainsAny(c, "&|") {
		return c[i+3:] + " <= " + c[:i]
	}
	return "!(" + c + ")"
}

// c09ResolveLocal replaces an identifier that is defined exactly once in the
// function by `x := expr` with that expression, so that naming a condition
// (`expired := a <= b; if expired {…}`) yields the same fact.
func c09ResolveLocal(fd *ast.FuncDecl, e ast.Expr) ast.Expr {
	id, ok := e.(*ast.Ident)
	if !ok {
		return e
	}
	var def ast.Expr
	n := 0
	ast.Inspect(fd.Body, func(nd ast.Node) bool {
		if as, ok := nd.(*ast.AssignStmt); ok {
			for i, lhs := range as.Lhs {
				if l, ok := lhs.(*ast.Ident); ok && l.Name == id.Name && i < len(as.Rhs) {
					n++
					def = as.Rhs[i]
				}
			}
		}
		return true
	})
	if n == 1 && def != nil {
		return def
	}
	return e
}

// c09StripRecv drops a leading "w." so that `w.bestHeight` (field) and the
// `bestHeight` parameter it was just assigned from read the same.
func c09StripRecv(c string) string { return strings.ReplaceAll(c, "w.", "") }


// canonCmp prints a comparison with >=/> flipped to <=/<, so that harmless
// re-spellings of the same condition yield the same fact.
func canonCmp(e ast.Expr) string {
	if p, ok := e.(*ast.ParenExpr); ok {
		return canonCmp(p.X)
	}
	b, ok := e.(*ast.BinaryExpr)
	if !ok {
		return exprString(e)
	}
	switch b.Op {
	case token.GEQ:
		return canonCmp(b.Y) + " <= " + canonCmp(b.X)
	case token.GTR:
		return canonCmp(b.Y) + " < " + canonCmp(b.X)
	case token.LOR, token.LAND:
		return canonCmp(b.X) + " " + b.Op.String() + " " + canonCmp(b.Y)
	}
	return exprString(b.X) + " " + b.Op.String() + " " + exprString(b.Y)
}

// lockedWholeBody reports whether the method starts with
// `w.expirationsMtx.Lock()` immediately followed by
// `defer w.expirationsMtx.Unlock()`.
func lockedWholeBody(fd *ast.FuncDecl) bool {
	if fd == nil || fd.Body == nil || len(fd.Body.List) < 2 {
		return false
	}
	es, ok := fd.Body.List[0].(*ast.ExprStmt)
	if !ok || exprString(es.X) != "w.expirationsMtx.Lock()" {
		return false
	}
	ds, ok := fd.Body.List[1].(*ast.DeferStmt)
	return ok && exprString(ds.Call) == "w.expirationsMtx.Unlock()"
}

func leanBool(b bool) string {
	if b {
		return "true"
	}
	return "false"
}

// genC09 extracts the shape of account/watcher/watcher.go the C09 model
// relies on: both entry points hold the mutex for their whole body (atomic
// ops), and the three guards.
func genC09() {
	files := pkgFiles("account/watcher")
	nb := findFunc(files, "expiryWatcher.NewBlock")
	add := findFunc(files, "expiryWatcher.AddAccountExpiration")
	od := findFunc(files, "expiryWatcher.overdueExpirations")
	if nb == nil || add == nil || od == nil {
		fail("expiryWatcher methods not found")
		return
	}
	bucketCond, addCond, skipCond := "", "", ""
	ast.Inspect(nb.Body, func(n ast.Node) bool {
		if rs, ok := n.(*ast.RangeStmt); ok &&
			exprString(rs.X) == "w.expirationsPerHeight" {

			// the rule under which a bucket is visited: either
			// `if C { overdueExpirations(h) }` or the guard form
			// `if D { continue }; overdueExpirations(h)` (rule = not D)
			for _, st := range rs.Body.List {
				is, ok := st.(*ast.IfStmt)
				if !ok {
					continue
				}
				cond := canonCmp(c09ResolveLocal(nb, is.Cond))
				if len(is.Body.List) == 1 {
					if br, ok := is.Body.List[0].(*ast.BranchStmt); ok &&
						br.Tok == token.CONTINUE {

						cond = c09Negate(cond)
					}
				}
				bucketCond = cond
			}
		}
		return true
	})
	if bucketCond == "" {
		// the pre-fix shape: a single call for exactly the new height
		bucketCond = "exact-height-only"
	}
	for _, st := range add.Body.List {
		if is, ok := st.(*ast.IfStmt); ok && addCond == "" {
			addCond = c09StripRecv(canonCmp(c09ResolveLocal(add, is.Cond)))
		}
	}
	ast.Inspect(od.Body, func(n ast.Node) bool {
		if is, ok := n.(*ast.IfStmt); ok && skipCond == "" {
			if len(is.Body.List) == 1 {
				if br, ok := is.Body.List[0].(*ast.BranchStmt); ok &&
					br.Tok == token.CONTINUE {

					skipCond = canonCmp(is.Cond)
				}
			}
		}
		return true
	})
	// every use of the mutex anywhere in the package, as "func:stmt"
	var mutexUses []string
	for _, f := range files {
		for _, d := range f.Decls {
			fd, ok := d.(*ast.FuncDecl)
			if !ok || fd.Body == nil {
				continue
			}
			ast.Inspect(fd.Body, func(n ast.Node) bool {
				switch x := n.(type) {
				case *ast.DeferStmt:
					if s := exprString(x.Call); len(s) > 16 && s[:16] == "w.expirationsMtx" {
						mutexUses = append(mutexUses, fd.Name.Name+":defer "+s)
						return false
					}
				case *ast.CallExpr:
					if s := exprString(x); len(s) > 16 && s[:16] == "w.expirationsMtx" {
						mutexUses = append(mutexUses, fd.Name.Name+":"+s)
					}
				}
				return true
			})
		}
	}
	l := newLean("C09Facts", "Shape of account/watcher/watcher.go consumed by the C09 theorems.")
	l.p("namespace Pool.Gen.C09")
	l.p("def newBlockLocked : Bool := %s", leanBool(lockedWholeBody(nb)))
	l.p("def addLocked : Bool := %s", leanBool(lockedWholeBody(add)))
	l.p("def bucketCond : String := %q", bucketCond)
	l.p("def addExpiredCond : String := %q", addCond)
	l.p("def overdueSkipCond : String := %q", skipCond)
	l.p("def mutexUses : List String := %s", leanStrList(mutexUses))
	l.p("end Pool.Gen.C09")
}
