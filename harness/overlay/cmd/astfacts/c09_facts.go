//go:build verif

package main

import (
	"go/ast"
	"go/token"
	"sort"
	"strings"
)

func init() { jobs = append(jobs, job{props: []string{"C09"}, fn: genC09}) }

// c09Negate returns the canonical negation of a canonicalised comparison
// ("a <= b" -> "b < a", "a < b" -> "b <= a"); other conditions are wrapped.
func c09Negate(c string) string {
	if i := strings.Index(c, " <= "); i > 0 && !strings.ContainsAny(c, "&|") {
		return c[i+4:] + " < " + c[:i]
	}
	if i := strings.Index(c, " < "); i > 0 && !strings.ContainsAny(c, "&|") {
		return c[i+3:] + " <= " + c[:i]
	}
	return "!(" + c + ")"
}

// c09ResolveLocal replaces an identifier that is defined exactly once in the
// function by `x := expr` with that expression, so that naming a condition
// (`expired := a <= b; if expired {…}`) yields the same fact.
func c09ResolveLocal(fd *ast.FuncDecl, e ast.Expr) ast.Expr {
	id, ok := e.(*ast.Ident)
	if !ok {
		return e
	}
	var def ast.Expr
	n := 0
	ast.Inspect(fd.Body, func(nd ast.Node) bool {
		if as, ok := nd.(*ast.AssignStmt); ok {
			for i, lhs := range as.Lhs {
				if l, ok := lhs.(*ast.Ident); ok && l.Name == id.Name && i < len(as.Rhs) {
					n++
					def = as.Rhs[i]
				}
			}
		}
		return true
	})
	if n == 1 && def != nil {
		return def
	}
	return e
}

// c09StripRecv drops a leading "w." so that `w.bestHeight` (field) and the
// `bestHeight` parameter it was just assigned from read the same.
func c09StripRecv(c string) string { return strings.ReplaceAll(c, "w.", "") }


// canonCmp prints a comparison with >=/> flipped to <=/<, so that harmless
// re-spellings of the same condition yield the same fact.
func canonCmp(e ast.Expr) string {
	if p, ok := e.(*ast.ParenExpr); ok {
		return canonCmp(p.X)
	}
	b, ok := e.(*ast.BinaryExpr)
	if !ok {
		return exprString(e)
	}
	switch b.Op {
	case token.GEQ:
		return canonCmp(b.Y) + " <= " + canonCmp(b.X)
	case token.GTR:
		return canonCmp(b.Y) + " < " + canonCmp(b.X)
	case token.LOR, token.LAND:
		return canonCmp(b.X) + " " + b.Op.String() + " " + canonCmp(b.Y)
	}
	return exprString(b.X) + " " + b.Op.String() + " " + exprString(b.Y)
}

// lockedWholeBody reports whether the method starts with
// `w.expirationsMtx.Lock()` immediately followed by
// `defer w.expirationsMtx.Unlock()`.
func lockedWholeBody(fd *ast.FuncDecl) bool {
	if fd == nil || fd.Body == nil || len(fd.Body.List) < 2 {
		return false
	}
	es, ok := fd.Body.List[0].(*ast.ExprStmt)
	if !ok || exprString(es.X) != "w.expirationsMtx.Lock()" {
		return false
	}
	ds, ok := fd.Body.List[1].(*ast.DeferStmt)
	return ok && exprString(ds.Call) == "w.expirationsMtx.Unlock()"
}

func leanBool(b bool) string {
	if b {
		return "true"
	}
	return "false"
}

// genC09 extracts the shape of account/watcher/watcher.go the C09 model
// relies on: both entry points hold the mutex for their whole body (atomic
// ops), and the three guards.
func genC09() {
	files := pkgFiles("account/watcher")
	nb := findFunc(files, "expiryWatcher.NewBlock")
	add := findFunc(files, "expiryWatcher.AddAccountExpiration")
	if nb == nil || add == nil {
		fail("expiryWatcher.NewBlock / AddAccountExpiration not found")
		return
	}
	// the per-height worker: whatever method of the watcher NewBlock calls
	// from inside its loop over expirationsPerHeight (its name is free)
	var od *ast.FuncDecl
	ast.Inspect(nb.Body, func(n ast.Node) bool {
		rs, ok := n.(*ast.RangeStmt)
		if !ok || exprString(rs.X) != "w.expirationsPerHeight" {
			return true
		}
		ast.Inspect(rs.Body, func(m ast.Node) bool {
			if ce, ok := m.(*ast.CallExpr); ok && od == nil {
				if se, ok := ce.Fun.(*ast.SelectorExpr); ok {
					if id, ok := se.X.(*ast.Ident); ok && id.Name == "w" {
						od = findFunc(files, "expiryWatcher."+se.Sel.Name)
					}
				}
			}
			return true
		})
		return false
	})
	if od == nil {
		// the pre-fix shape: NewBlock calls the worker directly
		od = findFunc(files, "expiryWatcher.overdueExpirations")
	}
	if od == nil {
		fail("expiryWatcher: per-height worker called by NewBlock not found")
		return
	}
	bucketCond, addCond, skipCond := "", "", ""
	ast.Inspect(nb.Body, func(n ast.Node) bool {
		if rs, ok := n.(*ast.RangeStmt); ok &&
			exprString(rs.X) == "w.expirationsPerHeight" {

			// the rule under which a bucket is visited: either
			// `if C { overdueExpirations(h) }` or the guard form
			// `if D { continue }; overdueExpirations(h)` (rule = not D)
			for _, st := range rs.Body.List {
				is, ok := st.(*ast.IfStmt)
				if !ok {
					continue
				}
				cond := canonCmp(c09ResolveLocal(nb, is.Cond))
				if len(is.Body.List) == 1 {
					if br, ok := is.Body.List[0].(*ast.BranchStmt); ok &&
						br.Tok == token.CONTINUE {

						cond = c09Negate(cond)
					}
				}
				bucketCond = cond
			}
		}
		return true
	})
	if bucketCond == "" {
		// the pre-fix shape: a single call for exactly the new height
		bucketCond = "exact-height-only"
	}
	for _, st := range add.Body.List {
		if is, ok := st.(*ast.IfStmt); ok && addCond == "" {
			addCond = c09StripRecv(canonCmp(c09ResolveLocal(add, is.Cond)))
		}
	}
	skipCond = c09SkipCond(od)
	// every use of the mutex anywhere in the package, as "func:stmt"
	var mutexUses []string
	for _, f := range files {
		for _, d := range f.Decls {
			fd, ok := d.(*ast.FuncDecl)
			if !ok || fd.Body == nil {
				continue
			}
			ast.Inspect(fd.Body, func(n ast.Node) bool {
				switch x := n.(type) {
				case *ast.DeferStmt:
					if s := exprString(x.Call); len(s) > 16 && s[:16] == "w.expirationsMtx" {
						mutexUses = append(mutexUses, fd.Name.Name+":defer "+s)
						return false
					}
				case *ast.CallExpr:
					if s := exprString(x); len(s) > 16 && s[:16] == "w.expirationsMtx" {
						mutexUses = append(mutexUses, fd.Name.Name+":"+s)
					}
				}
				return true
			})
		}
	}
	l := newLean("C09Facts", "Shape of account/watcher/watcher.go consumed by the C09 theorems.")
	l.p("namespace Pool.Gen.C09")
	l.p("def newBlockLocked : Bool := %s", leanBool(lockedWholeBody(nb)))
	l.p("def addLocked : Bool := %s", leanBool(lockedWholeBody(add)))
	l.p("def bucketCond : String := %q", bucketCond)
	l.p("def addExpiredCond : String := %q", addCond)
	l.p("def overdueSkipCond : String := %q", skipCond)
	l.p("def mutexUses : List String := %s", leanStrList(mutexUses))
	l.p("end Pool.Gen.C09")
}

// c09SkipCond returns, in a name-independent canonical form, the condition
// under which the per-height worker skips an entry (`continue`): the
// disjunction of all guards of `continue` branches (if statements or cases of
// a tagless switch). Roles: $height = the worker's first parameter, $cur / $ok
// = the two results of the lookup in w.expirations.
func c09SkipCond(fd *ast.FuncDecl) string {
	roles := map[string]string{}
	if fd.Type.Params != nil && len(fd.Type.Params.List) > 0 &&
		len(fd.Type.Params.List[0].Names) > 0 {

		roles[fd.Type.Params.List[0].Names[0].Name] = "$height"
	}
	ast.Inspect(fd.Body, func(n ast.Node) bool {
		as, ok := n.(*ast.AssignStmt)
		if !ok || len(as.Lhs) != 2 || len(as.Rhs) != 1 {
			return true
		}
		ix, ok := as.Rhs[0].(*ast.IndexExpr)
		if !ok || exprString(ix.X) != "w.expirations" {
			return true
		}
		if a, ok := as.Lhs[0].(*ast.Ident); ok {
			roles[a.Name] = "$cur"
		}
		if b, ok := as.Lhs[1].(*ast.Ident); ok {
			roles[b.Name] = "$ok"
		}
		return true
	})
	var render func(e ast.Expr) string
	render = func(e ast.Expr) string {
		switch x := e.(type) {
		case *ast.ParenExpr:
			return render(x.X)
		case *ast.Ident:
			if r, ok := roles[x.Name]; ok {
				return r
			}
			return x.Name
		case *ast.UnaryExpr:
			return x.Op.String() + render(x.X)
		case *ast.BinaryExpr:
			a, b := render(x.X), render(x.Y)
			if (x.Op == token.EQL || x.Op == token.NEQ) && b < a {
				a, b = b, a
			}
			return a + " " + x.Op.String() + " " + b
		}
		return exprString(e)
	}
	var disj []string
	var split func(e ast.Expr)
	split = func(e ast.Expr) {
		if p, ok := e.(*ast.ParenExpr); ok {
			split(p.X)
			return
		}
		if b, ok := e.(*ast.BinaryExpr); ok && b.Op == token.LOR {
			split(b.X)
			split(b.Y)
			return
		}
		disj = append(disj, render(e))
	}
	endsInContinue := func(body []ast.Stmt) bool {
		if len(body) == 0 {
			return false
		}
		br, ok := body[len(body)-1].(*ast.BranchStmt)
		return ok && br.Tok == token.CONTINUE
	}
	ast.Inspect(fd.Body, func(n ast.Node) bool {
		switch x := n.(type) {
		case *ast.IfStmt:
			if endsInContinue(x.Body.List) {
				split(x.Cond)
			}
		case *ast.SwitchStmt:
			if x.Tag != nil {
				return true
			}
			for _, st := range x.Body.List {
				cc := st.(*ast.CaseClause)
				if endsInContinue(cc.Body) {
					for _, c := range cc.List {
						split(c)
					}
				}
			}
		}
		return true
	})
	sort.Strings(disj)
	return strings.Join(disj, " || ")
}
