//go:build verif

// Command astfacts regenerates lean/PoolModel/Generated/*.lean from the
// *source text* of /repo (go/parser + go/ast only): constants, ordered field
// lists of digests / serialisers, TLV type numbers and switch tables. The Lean
// model consumes these definitions, so the theorems are re-checked against what
// the code says now. An extraction pattern that no longer matches the source
// makes this tool exit non-zero (= the tie to the code is broken).
package main

import (
	"encoding/json"
	"flag"
	"fmt"
	"go/ast"
	"go/constant"
	"go/parser"
	"go/printer"
	"go/token"
	"os"
	"path/filepath"
	"sort"
	"strings"
)

var (
	repo   string
	fset   = token.NewFileSet()
	failed []string

	// curFailed is set when the job being run hit a pattern that no longer
	// matches the source.
	curFailed bool
)

func fail(format string, a ...interface{}) {
	failed = append(failed, fmt.Sprintf(format, a...))
	curFailed = true
}

// pkgFiles parses all non-test Go files of a package directory.
func pkgFiles(dir string) []*ast.File {
	ents, err := os.ReadDir(filepath.Join(repo, dir))
	if err != nil {
		fail("read dir %s: %v", dir, err)
		return nil
	}
	var files []*ast.File
	for _, e := range ents {
		n := e.Name()
		if !strings.HasSuffix(n, ".go") || strings.HasSuffix(n, "_test.go") {
			continue
		}
		f, err := parser.ParseFile(fset, filepath.Join(repo, dir, n), nil, parser.ParseComments)
		if err != nil {
			fail("parse %s/%s: %v", dir, n, err)
			continue
		}
		files = append(files, f)
	}
	return files
}

func exprString(e ast.Expr) string {
	var sb strings.Builder
	printer.Fprint(&sb, fset, e)
	return sb.String()
}

// constEnv evaluates package-level integer constants (incl. iota blocks and
// references to other constants of the same package).
type constEnv struct {
	vals map[string]constant.Value
	expr map[string]ast.Expr
	iota map[string]int
}

func newConstEnv(files []*ast.File) *constEnv {
	ce := &constEnv{vals: map[string]constant.Value{}, expr: map[string]ast.Expr{}, iota: map[string]int{}}
	for _, f := range files {
		for _, d := range f.Decls {
			gd, ok := d.(*ast.GenDecl)
			if !ok || (gd.Tok != token.CONST && gd.Tok != token.VAR) {
				continue
			}
			var last []ast.Expr
			for i, s := range gd.Specs {
				vs := s.(*ast.ValueSpec)
				vals := vs.Values
				if len(vals) == 0 && gd.Tok == token.CONST {
					vals = last
				} else {
					last = vals
				}
				for j, n := range vs.Names {
					if j < len(vals) {
						ce.expr[n.Name] = vals[j]
						ce.iota[n.Name] = i
					}
				}
			}
		}
	}
	return ce
}

func (ce *constEnv) eval(e ast.Expr, iota int) (constant.Value, bool) {
	switch x := e.(type) {
	case *ast.BasicLit:
		v := constant.MakeFromLiteral(x.Value, x.Kind, 0)
		return v, v.Kind() != constant.Unknown
	case *ast.Ident:
		if x.Name == "iota" {
			return constant.MakeInt64(int64(iota)), true
		}
		return ce.get(x.Name)
	case *ast.ParenExpr:
		return ce.eval(x.X, iota)
	case *ast.CallExpr:
		// type conversion T(x)
		if len(x.Args) == 1 {
			return ce.eval(x.Args[0], iota)
		}
	case *ast.UnaryExpr:
		v, ok := ce.eval(x.X, iota)
		if !ok {
			return nil, false
		}
		return constant.UnaryOp(x.Op, v, 0), true
	case *ast.BinaryExpr:
		a, ok1 := ce.eval(x.X, iota)
		b, ok2 := ce.eval(x.Y, iota)
		if !ok1 || !ok2 {
			return nil, false
		}
		if x.Op == token.SHL || x.Op == token.SHR {
			s, _ := constant.Uint64Val(b)
			return constant.Shift(a, x.Op, uint(s)), true
		}
		if x.Op == token.QUO && a.Kind() == constant.Int && b.Kind() == constant.Int {
			return constant.BinaryOp(a, token.QUO_ASSIGN, b), true
		}
		return constant.BinaryOp(a, x.Op, b), true
	case *ast.SelectorExpr:
		// foreign constant: resolved through the extern table
		if v, ok := externConsts[exprString(x)]; ok {
			return constant.MakeInt64(v), true
		}
	}
	return nil, false
}

func (ce *constEnv) get(name string) (constant.Value, bool) {
	if v, ok := ce.vals[name]; ok {
		return v, true
	}
	e, ok := ce.expr[name]
	if !ok {
		return nil, false
	}
	v, ok := ce.eval(e, ce.iota[name])
	if ok {
		ce.vals[name] = v
	}
	return v, ok
}

// externConsts are constants of third-party packages that pool constants are
// defined from. They are cross-checked against the compiled values by the
// harness (`verifharness -prop FACTS`).
var externConsts = map[string]int64{}

// intConst returns the integer value of a package-level constant.
func intConst(ce *constEnv, pkg, name string) string {
	v, ok := ce.get(name)
	if !ok {
		fail("constant %s.%s not found / not evaluable", pkg, name)
		return "0"
	}
	if v.Kind() == constant.Float {
		v = constant.ToInt(v)
	}
	if v.Kind() != constant.Int {
		fail("constant %s.%s is not an integer (%v)", pkg, name, v)
		return "0"
	}
	return v.ExactString()
}

// findFunc locates a function or method declaration: "Name" or "Recv.Name".
func findFunc(files []*ast.File, name string) *ast.FuncDecl {
	recv, fn := "", name
	if i := strings.Index(name, "."); i >= 0 {
		recv, fn = name[:i], name[i+1:]
	}
	for _, f := range files {
		for _, d := range f.Decls {
			fd, ok := d.(*ast.FuncDecl)
			if !ok || fd.Name.Name != fn {
				continue
			}
			if recv == "" && fd.Recv == nil {
				return fd
			}
			if recv != "" && fd.Recv != nil && len(fd.Recv.List) == 1 {
				t := fd.Recv.List[0].Type
				if st, ok := t.(*ast.StarExpr); ok {
					t = st.X
				}
				if id, ok := t.(*ast.Ident); ok && id.Name == recv {
					return fd
				}
			}
		}
	}
	return nil
}

type leanFile struct {
	name string
	sb   strings.Builder
}

func (l *leanFile) p(format string, a ...interface{}) { fmt.Fprintf(&l.sb, format+"\n", a...) }

func leanStrList(xs []string) string {
	q := make([]string, len(xs))
	for i, x := range xs {
		q[i] = fmt.Sprintf("%q", x)
	}
	return "[" + strings.Join(q, ", ") + "]"
}

var outputs []*leanFile

func newLean(name, doc string) *leanFile {
	l := &leanFile{name: name}
	l.p("/- GENERATED by /verif/harness/overlay/cmd/astfacts from the source of /repo. Do not edit. -/")
	l.p("/-! %s -/", doc)
	outputs = append(outputs, l)
	return l
}

func main() {
	out := flag.String("out", "", "output dir (lean/PoolModel/Generated)")
	flag.StringVar(&repo, "repo", "/repo", "repository root")
	flag.Parse()

	// Every job is tagged with the properties whose model consumes its
	// output. A failing job keeps its previous generated file (so the
	// model still builds) and is reported in facts_status.json; ./check
	// treats that as a broken tie for exactly the tagged properties.
	status := map[string][]string{}
	var good []*leanFile
	for _, job := range jobs {
		curFailed = false
		before := len(outputs)
		nFailed := len(failed)
		job.fn()
		if curFailed {
			for _, p := range job.props {
				status[p] = append(status[p], failed[nFailed:]...)
			}
			continue
		}
		good = append(good, outputs[before:]...)
	}
	sort.Strings(failed)
	for _, f := range failed {
		fmt.Fprintln(os.Stderr, "astfacts:", f)
	}
	sb, _ := json.MarshalIndent(map[string]interface{}{"failed": status}, "", " ")
	_ = os.WriteFile(filepath.Join(*out, "facts_status.json"), sb, 0o644)
	for _, l := range good {
		path := filepath.Join(*out, l.name+".lean")
		newTxt := l.sb.String()
		// only touch the file when its content changes, so that lake
		// does not rebuild the world on every run
		if old, err := os.ReadFile(path); err == nil && string(old) == newTxt {
			continue
		}
		if err := os.WriteFile(path, []byte(newTxt), 0o644); err != nil {
			fmt.Fprintln(os.Stderr, err)
			os.Exit(1)
		}
	}
	fmt.Printf("astfacts: %d files\n", len(outputs))
}

type job struct {
	props []string
	fn    func()
}

var jobs []job
