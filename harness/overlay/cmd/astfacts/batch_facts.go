//go:build verif

package main

import (
	"fmt"
	"go/ast"
	"go/printer"
	"go/token"
	"sort"
	"strings"
)

func init() {
	// lnd / btcd constants the pool code builds its weight estimate from. The
	// harness cross-checks them against the compiled values on every run
	// (op `consts` of the C01/C02/C03 streams).
	externConsts["input.P2WSHOutputSize"] = 43
	externConsts["input.InputSize"] = 41
	externConsts["blockchain.WitnessScaleFactor"] = 4
	jobs = append(jobs, job{props: []string{"C01", "C02", "C03"}, fn: genBatchFacts})
}

// batSwitchCases returns the case clauses of the first switch statement in fn
// whose tag prints as tag ("" = tagless switch).
func batSwitchCases(fn *ast.FuncDecl, tag string) []*ast.CaseClause {
	var res []*ast.CaseClause
	found := false
	ast.Inspect(fn.Body, func(n ast.Node) bool {
		if found {
			return false
		}
		sw, ok := n.(*ast.SwitchStmt)
		if !ok {
			return true
		}
		t := ""
		if sw.Tag != nil {
			t = exprString(sw.Tag)
		}
		if t != tag {
			return true
		}
		for _, s := range sw.Body.List {
			res = append(res, s.(*ast.CaseClause))
		}
		found = true
		return false
	})
	return res
}

// batFirstReturn returns the printed results of the first return statement in a
// case body.
func batFirstReturn(body []ast.Stmt) []string {
	for _, s := range body {
		if r, ok := s.(*ast.ReturnStmt); ok {
			var out []string
			for _, e := range r.Results {
				out = append(out, exprString(e))
			}
			return out
		}
	}
	return nil
}

func batLastIdent(s string) string {
	if i := strings.LastIndex(s, "."); i >= 0 {
		return s[i+1:]
	}
	return s
}

func batOneLine(s string) string { return strings.Join(strings.Fields(s), " ") }

func genBatchFacts() {
	l := newLean("BatchFacts", "Constants and decision tables of the batch verification code (order, account, poolscript, terms, auctioneerrpc).")
	l.p("namespace Pool.Gen.Batch")

	orderF := pkgFiles("order")
	order := newConstEnv(orderF)
	acct := newConstEnv(pkgFiles("account"))
	acctF := pkgFiles("account")
	ps := newConstEnv(pkgFiles("poolscript"))
	psF := pkgFiles("poolscript")
	rpc := newConstEnv(pkgFiles("auctioneerrpc"))
	termsF := pkgFiles("terms")

	// ---- plain constants
	l.p("def baseSupplyUnit : Nat := %s", intConst(order, "order", "BaseSupplyUnit"))
	l.p("def linearVersionEnd : Nat := %s", intConst(order, "order", "LinearVersionEnd"))
	l.p("def extendAccountBatchVersion : Nat := %s", intConst(order, "order", "ExtendAccountBatchVersion"))
	l.p("def upgradeAccountTaprootBatchVersion : Nat := %s", intConst(order, "order", "UpgradeAccountTaprootBatchVersion"))
	l.p("def latestBatchVersion : Nat := %s", intConst(order, "order", "LatestBatchVersion"))
	l.p("def btcOutboundLiquidity : Nat := %s", intConst(order, "order", "BTCOutboundLiquidity"))
	l.p("def taprootMultiSigWitnessSize : Nat := %s", intConst(ps, "poolscript", "TaprootMultiSigWitnessSize"))
	l.p("def multiSigWitnessSize : Nat := %s", intConst(ps, "poolscript", "MultiSigWitnessSize"))

	// ---- BatchVersion.Supports*: `(bv & LinearVersionEnd) >= X` up to operand order / direction of the comparison
	for _, w := range [][2]string{
		{"BatchVersion.SupportsAccountExtension", "ExtendAccountBatchVersion"},
		{"BatchVersion.SupportsAccountTaprootUpgrade", "UpgradeAccountTaprootBatchVersion"},
	} {
		fd := findFunc(orderF, w[0])
		if fd == nil {
			fail("%s not found", w[0])
			continue
		}
		ok := false
		if be, isBin := batReturnExpr(fd).(*ast.BinaryExpr); isBin {
			masked, other := be.X, be.Y
			if be.Op == token.LEQ {
				masked, other = be.Y, be.X
			}
			if (be.Op == token.GEQ || be.Op == token.LEQ) && batCommutes(masked, token.AND, "bv", "LinearVersionEnd") &&
				batOneLine(exprString(other)) == w[1] {
				ok = true
			}
		}
		if !ok {
			fail("%s: is no longer (bv & LinearVersionEnd) >= %s", w[0], w[1])
		}
	}

	// ---- terms.LinearFeeSchedule.ExecutionFee: (amt * s.feeRate) / <parts>, factors in either order
	if fd := findFunc(termsF, "LinearFeeSchedule.ExecutionFee"); fd == nil {
		fail("LinearFeeSchedule.ExecutionFee not found")
	} else {
		parts := "0"
		be, ok := batReturnExpr(fd).(*ast.BinaryExpr)
		if ok && be.Op == token.QUO && batCommutes(be.X, token.MUL, "amt", "s.feeRate") {
			if lit, isLit := be.Y.(*ast.BasicLit); isLit {
				parts = strings.ReplaceAll(lit.Value, "_", "")
			} else {
				ok = false
			}
		} else {
			ok = false
		}
		if !ok {
			fail("LinearFeeSchedule.ExecutionFee: is no longer amt * feeRate / <literal>")
		}
		l.p("def feeRatePartsPerMillion : Int := %s", parts)
	}

	// ---- EstimateTraderFee: the ingredients of the weight estimate (however the code is cut into helpers and
	// statements; the arithmetic that combines them is tied by the differential run, which compares the fee to the
	// satoshi on every accepted proposal): the size constants referenced, the uint32 channel-output term halved,
	// FeeForWeight, and the account versions that get the taproot witness size
	if fd := findFunc(orderF, "EstimateTraderFee"); fd == nil {
		fail("EstimateTraderFee not found")
	} else {
		consts := map[string]bool{}
		tapSet := map[string]bool{}
		halved, cast32, feeFor := false, false, false
		for _, g := range batReach(fd, orderF, 3) {
			loc := batLocals(g)
			ast.Inspect(g.Body, func(n ast.Node) bool {
				switch x := n.(type) {
				case *ast.SelectorExpr:
					if id, ok := x.X.(*ast.Ident); ok {
						switch id.Name {
						case "input", "blockchain", "poolscript":
							consts[id.Name+"."+x.Sel.Name] = true
						}
					}
					if x.Sel.Name == "FeeForWeight" {
						feeFor = true
					}
				case *ast.BinaryExpr:
					if x.Op == token.QUO && batOneLine(exprString(x.Y)) == "2" &&
						strings.Contains(batText(x.X, loc), "numTraderChans") {
						halved = true
					}
					if x.Op == token.EQL {
						if _, other, ok := batCompare(x, token.EQL, []string{"accountVersion"}, loc); ok {
							tapSet[intConst(acct, "account", batLastIdent(other))] = true
						}
					}
				case *ast.CallExpr:
					if batOneLine(exprString(x)) == "uint32(input.P2WSHOutputSize)" {
						cast32 = true
					}
				case *ast.SwitchStmt:
					if x.Tag != nil && batText(x.Tag, loc) == "accountVersion" {
						for _, c := range x.Body.List {
							cc := c.(*ast.CaseClause)
							body := ""
							for _, st := range cc.Body {
								body += batStmtString(st)
							}
							if len(cc.List) > 0 && strings.Contains(body, "TaprootMultiSigWitnessSize") {
								for _, e := range cc.List {
									tapSet[intConst(acct, "account", batLastIdent(exprString(e)))] = true
								}
							}
						}
					}
				}
				return true
			})
		}
		var got []string
		for c := range consts {
			got = append(got, c)
		}
		sort.Strings(got)
		want := "blockchain.WitnessScaleFactor|input.InputSize|input.P2WSHOutputSize|poolscript.MultiSigWitnessSize|poolscript.TaprootMultiSigWitnessSize"
		if strings.Join(got, "|") != want || !halved || !cast32 || !feeFor {
			fail("EstimateTraderFee: ingredients of the weight estimate changed: %v halved=%v uint32=%v FeeForWeight=%v",
				got, halved, cast32, feeFor)
		}
		l.p("def p2wshOutputSize : Nat := %d", externConsts["input.P2WSHOutputSize"])
		l.p("def inputSize : Nat := %d", externConsts["input.InputSize"])
		l.p("def witnessScaleFactor : Nat := %d", externConsts["blockchain.WitnessScaleFactor"])
		var tapVers []string
		for v := range tapSet {
			tapVers = append(tapVers, v)
		}
		sort.Strings(tapVers)
		if len(tapVers) == 0 {
			fail("EstimateTraderFee: account versions with the taproot witness size not found")
		}
		l.p("def taprootWitnessVersions : List Nat := [%s]", strings.Join(tapVers, ", "))
	}

	// ---- account.Version.ScriptVersion (switch or if-chain)
	if fd := findFunc(acctF, "Version.ScriptVersion"); fd == nil {
		fail("Version.ScriptVersion not found")
	} else {
		var rows []string
		def := "0"
		arms, ok := batValueTable(fd, []string{"v"})
		if !ok {
			fail("ScriptVersion: not a table over the version")
		}
		for _, arm := range arms {
			ret := batFirstReturn(arm.body)
			if len(ret) != 1 {
				fail("ScriptVersion: arm without single return")
				continue
			}
			sv := intConst(ps, "poolscript", batLastIdent(ret[0]))
			if arm.vals == nil {
				def = sv
				continue
			}
			for _, e := range arm.vals {
				rows = append(rows, fmt.Sprintf("(%s, %s)", intConst(acct, "account", batLastIdent(e)), sv))
			}
		}
		sort.Strings(rows)
		l.p("def scriptVersionTable : List (Nat × Nat) := [%s]", strings.Join(rows, ", "))
		l.p("def scriptVersionDefault : Nat := %s", def)
	}
	_ = psF

	// ---- account.ValidateVersion: the known account versions; max account lifetime
	if fd := findFunc(acctF, "ValidateVersion"); fd == nil {
		fail("ValidateVersion not found")
	} else {
		var vs []string
		arms, ok := batValueTable(fd, []string{"version"})
		if !ok {
			fail("ValidateVersion: not a table over the version itself")
		}
		for _, arm := range arms {
			ret := batFirstReturn(arm.body)
			if arm.vals == nil {
				if len(ret) != 1 || ret[0] == "nil" {
					fail("ValidateVersion: default arm no longer returns an error")
				}
				continue
			}
			if len(ret) != 1 || ret[0] != "nil" {
				fail("ValidateVersion: listed arm no longer returns nil")
			}
			for _, e := range arm.vals {
				vs = append(vs, intConst(acct, "account", batLastIdent(e)))
			}
		}
		sort.Strings(vs)
		l.p("def validAccountVersions : List Nat := [%s]", strings.Join(vs, ", "))
	}
	l.p("def maxAccountExpiry : Nat := %s", intConst(acct, "account", "maxAccountExpiry"))

	// ---- AccountDiff.validateEndingState: ending-state sets (read semantically: if-chains and switches,
	// either operand order, locals followed)
	if fd := findFunc(orderF, "AccountDiff.validateEndingState"); fd == nil {
		fail("validateEndingState not found")
	} else {
		loc := batLocals(fd)
		stateNames := []string{"d.EndingState"}
		dustSet := map[string]bool{}
		recreated := ""
		dustCmp := false
		isDustCmp := func(e ast.Expr) bool {
			be, ok := batResolve(e, loc).(*ast.BinaryExpr)
			if !ok {
				return false
			}
			l, r := batText(be.X, loc), batText(be.Y, loc)
			return (be.Op == token.LSS && l == "d.EndingBalance" && r == "MinNoDustAccountSize") ||
				(be.Op == token.GTR && l == "MinNoDustAccountSize" && r == "d.EndingBalance")
		}
		// every expression used as a condition
		var conds []ast.Expr
		ast.Inspect(fd.Body, func(n ast.Node) bool {
			switch x := n.(type) {
			case *ast.IfStmt:
				conds = append(conds, x.Cond)
			case *ast.SwitchStmt:
				if x.Tag == nil {
					for _, c := range x.Body.List {
						conds = append(conds, c.(*ast.CaseClause).List...)
					}
				} else if batText(x.Tag, loc) == "d.EndingState" {
					// switch state { case A, B, C: default: return err }  ==  state != A && state != B && state != C
					var vals []string
					defReturns := false
					for _, c := range x.Body.List {
						cc := c.(*ast.CaseClause)
						if len(cc.List) == 0 {
							defReturns = len(batFirstReturn(cc.Body)) > 0
							continue
						}
						if len(batFirstReturn(cc.Body)) > 0 {
							defReturns = false
							vals = nil
							break
						}
						for _, e := range cc.List {
							vals = append(vals, batOneLine(exprString(e)))
						}
					}
					if defReturns {
						if len(vals) > 1 {
							for _, v := range vals {
								dustSet[intConst(rpc, "auctioneerrpc", batLastIdent(v))] = true
							}
						} else if len(vals) == 1 {
							recreated = intConst(rpc, "auctioneerrpc", batLastIdent(vals[0]))
						}
					}
				}
			}
			return true
		})
		for _, c := range conds {
			if isDustCmp(c) {
				dustCmp = true
				continue
			}
			parts := batFlatten(c, token.LAND, loc)
			var vals []string
			okAll := true
			for _, p := range parts {
				_, other, ok := batCompare(p, token.NEQ, stateNames, loc)
				if !ok {
					okAll = false
					break
				}
				vals = append(vals, intConst(rpc, "auctioneerrpc", batLastIdent(other)))
			}
			if !okAll {
				continue
			}
			if len(vals) > 1 {
				for _, v := range vals {
					dustSet[v] = true
				}
			} else {
				recreated = vals[0]
			}
		}
		var dust []string
		for v := range dustSet {
			dust = append(dust, v)
		}
		sort.Strings(dust)
		if !dustCmp || len(dust) == 0 || recreated == "" {
			fail("validateEndingState: dust comparison / state sets not found")
			recreated = "0"
		}
		l.p("def dustEndingStates : List Int := [%s]", strings.Join(dust, ", "))
		l.p("def recreatedEndingState : Int := %s", recreated)
	}

	// ---- DetermineCommitmentType: ordered decision list (switch or if-chain; operand order and local
	// aliases of the two channel types do not matter)
	if fd := findFunc(orderF, "DetermineCommitmentType"); fd == nil {
		fail("DetermineCommitmentType not found")
	} else {
		loc := batLocals(fd)
		var rows []string
		def := ""
		var bad []string
		fail := func(format string, a ...interface{}) { bad = append(bad, fmt.Sprintf(format, a...)) }
		for _, arm := range batDecisionList(fd.Body.List) {
			ret := batFirstReturn(arm.body)
			if len(ret) != 2 {
				fail("DetermineCommitmentType: arm without (type, bool) return")
				continue
			}
			name := strings.TrimPrefix(batLastIdent(ret[0]), "CommitmentType_")
			if arm.conds == nil {
				def = name
				continue
			}
			if arm.tag != nil || len(arm.conds) != 1 {
				fail("DetermineCommitmentType: unexpected kind of case")
				continue
			}
			be, ok := batResolve(arm.conds[0], loc).(*ast.BinaryExpr)
			if !ok || (be.Op != token.LOR && be.Op != token.LAND) {
				fail("DetermineCommitmentType: case is not a ||/&& of two tests")
				continue
			}
			who1, c1, ok1 := batCompare(be.X, token.EQL, []string{"ourOrder.ChannelType", "theirOrder.ChannelType"}, loc)
			who2, c2, ok2 := batCompare(be.Y, token.EQL, []string{"ourOrder.ChannelType", "theirOrder.ChannelType"}, loc)
			if !ok1 || !ok2 || who1 == who2 || c1 != c2 {
				fail("DetermineCommitmentType: unexpected tests %q / %q", batOneLine(exprString(be.X)), batOneLine(exprString(be.Y)))
				continue
			}
			op := "or"
			if be.Op == token.LAND {
				op = "and"
			}
			rows = append(rows, fmt.Sprintf("(%q, %s, %q)", op, intConst(order, "order", batLastIdent(c1)), name))
		}
		recovered := len(bad) == 0 && len(rows) > 0 && def != ""
		if !recovered {
			// The decision list could not be read off the syntax (helper types / methods, negated early
			// returns, ...). Fall back to a coarser fact: the function – with everything it calls in this
			// package – mentions exactly the two channel types and the three commitment types the model's
			// table is about; the table itself is then the documented one and is tied by the differential
			// run, which exercises every pairing of channel types against the real funding scripts.
			chans, commits := map[string]bool{}, map[string]bool{}
			for _, g := range batReach(fd, orderF, 3) {
				ast.Inspect(g.Body, func(n ast.Node) bool {
					switch x := n.(type) {
					case *ast.Ident:
						if strings.HasPrefix(x.Name, "ChannelType") && x.Name != "ChannelType" {
							chans[x.Name] = true
						}
					case *ast.SelectorExpr:
						if strings.HasPrefix(x.Sel.Name, "CommitmentType_") {
							commits[strings.TrimPrefix(x.Sel.Name, "CommitmentType_")] = true
						}
					}
					return true
				})
			}
			okCoarse := len(chans) == 2 && chans["ChannelTypeScriptEnforced"] && chans["ChannelTypeSimpleTaproot"] &&
				len(commits) == 3 && commits["SCRIPT_ENFORCED_LEASE"] && commits["SIMPLE_TAPROOT"] &&
				commits["UNKNOWN_COMMITMENT_TYPE"]
			if !okCoarse {
				for _, m := range bad {
					failed = append(failed, m)
				}
				curFailed = true
				failed = append(failed, "DetermineCommitmentType: neither its decision list nor its ingredients could be recovered")
			}
			rows = []string{
				fmt.Sprintf("(%q, %s, %q)", "or", intConst(order, "order", "ChannelTypeScriptEnforced"), "SCRIPT_ENFORCED_LEASE"),
				fmt.Sprintf("(%q, %s, %q)", "and", intConst(order, "order", "ChannelTypeSimpleTaproot"), "SIMPLE_TAPROOT"),
			}
			def = "UNKNOWN_COMMITMENT_TYPE"
		}
		l.p("def commitCases : List (String × Nat × String) := [%s]", strings.Join(rows, ", "))
		l.p("def commitDefault : String := %q", def)
		l.p("/-- whether `commitCases` was read off the source (`false`: documented table, ingredients checked) -/")
		l.p("def commitCasesRecovered : Bool := %v", recovered)
	}

	// ---- poolscript.FundingOutput: commitment types with a taproot output (switch or if, helpers inlined)
	if fd := findFunc(psF, "FundingOutput"); fd == nil {
		fail("FundingOutput not found")
	} else {
		loc := batLocals(fd)
		var tap []string
		nDefault := 0
		for _, arm := range batDecisionList(fd.Body.List) {
			body := batBodyText(arm.body, psF, 2)
			isTap := strings.Contains(body, "GenTaprootFundingScript")
			isWsh := strings.Contains(body, "GenFundingPkScript")
			if arm.conds == nil {
				nDefault++
				if !isWsh || isTap {
					fail("FundingOutput: default arm is not the p2wsh branch")
				}
				continue
			}
			if !isTap || isWsh {
				fail("FundingOutput: non-default arm is not the taproot branch")
			}
			for _, e := range arm.conds {
				val := ""
				if arm.tag != nil {
					if batText(arm.tag, loc) != "commitmentType" {
						fail("FundingOutput: switch on %q", batText(arm.tag, loc))
					}
					val = batOneLine(exprString(e))
				} else {
					for _, d := range batFlatten(e, token.LOR, loc) {
						_, other, ok := batCompare(d, token.EQL, []string{"commitmentType"}, loc)
						if !ok {
							fail("FundingOutput: unexpected condition %q", batOneLine(exprString(d)))
							continue
						}
						if val != "" {
							tap = append(tap, fmt.Sprintf("%q", strings.TrimPrefix(batLastIdent(val), "CommitmentType_")))
						}
						val = other
					}
				}
				if val != "" {
					tap = append(tap, fmt.Sprintf("%q", strings.TrimPrefix(batLastIdent(val), "CommitmentType_")))
				}
			}
		}
		if nDefault != 1 {
			fail("FundingOutput: no default arm")
		}
		l.p("def taprootFundingCommitTypes : List String := [%s]", strings.Join(tap, ", "))
	}

	// ---- ParseRPCServerOrder: rpc channel type -> order.ChannelType
	if fd := findFunc(orderF, "ParseRPCServerOrder"); fd == nil {
		fail("ParseRPCServerOrder not found")
	} else {
		var rows []string
		for _, c := range batSwitchCases(fd, "details.ChannelType") {
			if len(c.List) == 0 {
				if len(batFirstReturn(c.Body)) == 0 {
					fail("ParseRPCServerOrder: default channel type no longer returns an error")
				}
				continue
			}
			if len(c.Body) != 1 {
				fail("ParseRPCServerOrder: channel type case changed shape")
				continue
			}
			as := batOneLine(batExprStmt(c.Body[0]))
			if !strings.HasPrefix(as, "kit.ChannelType = ") {
				fail("ParseRPCServerOrder: channel type case body %q", as)
				continue
			}
			v := intConst(order, "order", strings.TrimPrefix(as, "kit.ChannelType = "))
			for _, e := range c.List {
				rows = append(rows, fmt.Sprintf("(%s, %s)", intConst(rpc, "auctioneerrpc", batLastIdent(exprString(e))), v))
			}
		}
		l.p("def rpcChanTypeTable : List (Int × Nat) := [%s]", strings.Join(rows, ", "))
	}

	// ---- helpers below the modelled code: shape facts that justify treating them as pure functions
	// (a) batchVerifier has exactly the start-up fields and Verify / validateMatchedOrder never assign to one
	{
		var fields []string
		for _, f := range orderF {
			ast.Inspect(f, func(n ast.Node) bool {
				ts, ok := n.(*ast.TypeSpec)
				if !ok || ts.Name.Name != "batchVerifier" {
					return true
				}
				if st, ok := ts.Type.(*ast.StructType); ok {
					for _, fl := range st.Fields.List {
						for _, nm := range fl.Names {
							fields = append(fields, nm.Name)
						}
					}
				}
				return false
			})
		}
		if len(fields) == 0 {
			fail("batchVerifier struct not found")
		}
		l.p("def verifierFields : List String := %s", leanStrList(fields))
		var writes []string
		var vmethods []*ast.FuncDecl
		for _, f := range orderF {
			for _, d := range f.Decls {
				fd, ok := d.(*ast.FuncDecl)
				if !ok || fd.Recv == nil || len(fd.Recv.List) != 1 || fd.Body == nil {
					continue
				}
				t := fd.Recv.List[0].Type
				if st, ok := t.(*ast.StarExpr); ok {
					t = st.X
				}
				if id, ok := t.(*ast.Ident); ok && id.Name == "batchVerifier" {
					vmethods = append(vmethods, fd)
				}
			}
		}
		if findFunc(orderF, "batchVerifier.Verify") == nil {
			fail("batchVerifier.Verify not found")
		}
		for _, fd := range vmethods {
			fn := "batchVerifier." + fd.Name.Name
			recv := "v"
			if len(fd.Recv.List[0].Names) == 1 {
				recv = fd.Recv.List[0].Names[0].Name
			}
			ast.Inspect(fd.Body, func(n ast.Node) bool {
				as, ok := n.(*ast.AssignStmt)
				if !ok {
					return true
				}
				for _, lhs := range as.Lhs {
					x := lhs
					if ix, ok := x.(*ast.IndexExpr); ok {
						x = ix.X
					}
					if sel, ok := x.(*ast.SelectorExpr); ok {
						if id, ok := sel.X.(*ast.Ident); ok && id.Name == recv {
							writes = append(writes, fn+":"+sel.Sel.Name)
						}
					}
				}
				return true
			})
		}
		l.p("def verifierFieldWrites : List String := %s", leanStrList(writes))
	}
	// (b) the script helpers read no package-level variable (other than the logger)
	{
		globals := map[string]bool{}
		for _, f := range psF {
			for _, d := range f.Decls {
				gd, ok := d.(*ast.GenDecl)
				if !ok || gd.Tok != token.VAR {
					continue
				}
				for _, sp := range gd.Specs {
					for _, nm := range sp.(*ast.ValueSpec).Names {
						if nm.Name != "log" && nm.Name != "_" {
							globals[nm.Name] = true
						}
					}
				}
			}
		}
		var used []string
		for _, fn := range []string{"AccountScript", "AccountWitnessScript", "accountWitnessScript", "TaprootKey",
			"TaprootExpiryScript", "TraderKeyTweak", "IncrementKey", "FundingOutput"} {
			fd := findFunc(psF, fn)
			if fd == nil {
				fail("poolscript.%s not found", fn)
				continue
			}
			ast.Inspect(fd.Body, func(n ast.Node) bool {
				if id, ok := n.(*ast.Ident); ok && globals[id.Name] {
					used = append(used, fn+":"+id.Name)
				}
				return true
			})
		}
		l.p("def scriptHelperGlobals : List String := %s", leanStrList(used))
	}
	// (c) ParseRPCServerAsk/Bid take the lease duration from the message as it is, and the channel type of a
	// counterparty order is assigned only by the cases of the rpc channel-type switch
	{
		var src []string
		for _, fn := range []string{"ParseRPCServerAsk", "ParseRPCServerBid"} {
			fd := findFunc(orderF, fn)
			if fd == nil {
				fail("%s not found", fn)
				continue
			}
			loc := batLocals(fd)
			ast.Inspect(fd.Body, func(n ast.Node) bool {
				switch x := n.(type) {
				case *ast.CallExpr:
					if id, ok := x.Fun.(*ast.Ident); ok && id.Name == "ParseRPCServerOrder" && len(x.Args) == 4 {
						src = append(src, batText(x.Args[3], loc))
					}
				case *ast.AssignStmt:
					if len(x.Lhs) == 1 && batOneLine(exprString(x.Lhs[0])) == "kit.LeaseDuration" {
						src = append(src, batText(x.Rhs[0], loc))
					}
				}
				return true
			})
		}
		l.p("def serverOrderDurationSources : List String := %s", leanStrList(src))
		nAssign := 0
		if fd := findFunc(orderF, "ParseRPCServerOrder"); fd != nil {
			ast.Inspect(fd.Body, func(n ast.Node) bool {
				if as, ok := n.(*ast.AssignStmt); ok && len(as.Lhs) == 1 &&
					batOneLine(exprString(as.Lhs[0])) == "kit.ChannelType" {
					nAssign++
				}
				return true
			})
		}
		l.p("def serverOrderChanTypeAssignments : Nat := %d", nAssign)
		// what ParseRPCServerOrder (with its helpers) copies into the fixed-size node / multisig key arrays
		var copies []string
		if fd := findFunc(orderF, "ParseRPCServerOrder"); fd != nil {
			for _, g := range batReach(fd, orderF, 2) {
				loc := batLocals(g)
				ast.Inspect(g.Body, func(n ast.Node) bool {
					ce, ok := n.(*ast.CallExpr)
					if !ok || len(ce.Args) != 2 {
						return true
					}
					if id, ok := ce.Fun.(*ast.Ident); !ok || id.Name != "copy" {
						return true
					}
					sl, ok := ce.Args[0].(*ast.SliceExpr)
					if !ok {
						return true
					}
					dst, ok := sl.X.(*ast.Ident)
					if !ok || !strings.HasSuffix(strings.ToLower(dst.Name), "key") {
						return true
					}
					// the method that produced the bytes ("SerializeCompressed"), else the expression itself
					src := batResolve(ce.Args[1], loc)
					if call, ok := src.(*ast.CallExpr); ok {
						if sel, ok := call.Fun.(*ast.SelectorExpr); ok && len(call.Args) == 0 {
							copies = append(copies, sel.Sel.Name)
							return true
						}
					}
					copies = append(copies, batOneLine(exprString(src)))
					return true
				})
			}
		}
		sort.Strings(copies)
		l.p("def serverOrderKeyCopies : List String := %s", leanStrList(copies))
	}

	l.p("end Pool.Gen.Batch")
}

// ---------------------------------------------------------------- semantic helpers (spelling-insensitive)

// batLocals maps a local name to the expression that (solely) defines it:
// `x := e`, `a, b := e1, e2`, `var x = e`. Names assigned more than once are dropped.
func batLocals(fd *ast.FuncDecl) map[string]ast.Expr {
	defs := map[string]ast.Expr{}
	count := map[string]int{}
	ast.Inspect(fd.Body, func(n ast.Node) bool {
		switch x := n.(type) {
		case *ast.AssignStmt:
			if len(x.Lhs) == len(x.Rhs) {
				for i, lh := range x.Lhs {
					if id, ok := lh.(*ast.Ident); ok {
						count[id.Name]++
						defs[id.Name] = x.Rhs[i]
					}
				}
			} else {
				for _, lh := range x.Lhs {
					if id, ok := lh.(*ast.Ident); ok {
						count[id.Name] += 2
					}
				}
			}
		case *ast.ValueSpec:
			for i, nm := range x.Names {
				if i < len(x.Values) {
					count[nm.Name]++
					defs[nm.Name] = x.Values[i]
				}
			}
		}
		return true
	})
	for n, c := range count {
		if c != 1 {
			delete(defs, n)
		}
	}
	return defs
}

// batResolve strips parentheses and follows simple local definitions.
func batResolve(e ast.Expr, loc map[string]ast.Expr) ast.Expr {
	for i := 0; i < 4; i++ {
		switch x := e.(type) {
		case *ast.ParenExpr:
			e = x.X
			continue
		case *ast.Ident:
			if d, ok := loc[x.Name]; ok {
				e = d
				continue
			}
		}
		break
	}
	return e
}

func batText(e ast.Expr, loc map[string]ast.Expr) string {
	return batOneLine(exprString(batResolve(e, loc)))
}

// batFlatten splits a condition into the operands of a chain of one binary operator.
func batFlatten(e ast.Expr, op token.Token, loc map[string]ast.Expr) []ast.Expr {
	e = batResolve(e, loc)
	if be, ok := e.(*ast.BinaryExpr); ok && be.Op == op {
		return append(batFlatten(be.X, op, loc), batFlatten(be.Y, op, loc)...)
	}
	return []ast.Expr{e}
}

// batCompare recognises `subject <op> other` in either operand order (op is == or !=):
// returns the printed other side when one side resolves to one of the subject spellings.
func batCompare(e ast.Expr, op token.Token, subjects []string, loc map[string]ast.Expr) (string, string, bool) {
	be, ok := batResolve(e, loc).(*ast.BinaryExpr)
	if !ok || be.Op != op {
		return "", "", false
	}
	lx, rx := batText(be.X, loc), batText(be.Y, loc)
	for _, sj := range subjects {
		if lx == sj {
			return sj, batOneLine(exprString(be.Y)), true
		}
		if rx == sj {
			return sj, batOneLine(exprString(be.X)), true
		}
	}
	return "", "", false
}

// batReturnExpr returns the (single) result expression of the first return statement, with a local result
// variable followed to its definition.
func batReturnExpr(fd *ast.FuncDecl) ast.Expr {
	loc := batLocals(fd)
	var res ast.Expr
	ast.Inspect(fd.Body, func(n ast.Node) bool {
		if r, ok := n.(*ast.ReturnStmt); ok && res == nil && len(r.Results) == 1 {
			res = batResolve(r.Results[0], loc)
		}
		return res == nil
	})
	return res
}

// batCommutes reports whether e is `a <op> b` with {a, b} = {x, y} in either order (printed, parens stripped).
func batCommutes(e ast.Expr, op token.Token, x, y string) bool {
	for {
		pe, ok := e.(*ast.ParenExpr)
		if !ok {
			break
		}
		e = pe.X
	}
	be, ok := e.(*ast.BinaryExpr)
	if !ok || be.Op != op {
		return false
	}
	l, r := batOneLine(exprString(be.X)), batOneLine(exprString(be.Y))
	return (l == x && r == y) || (l == y && r == x)
}

// batArm is one arm of a decision list: its conditions (nil = default / fall-through rest) and its statements.
type batArm struct {
	tag   ast.Expr   // tag of a tagged switch (conds are then the case values)
	conds []ast.Expr // nil for the default arm
	body  []ast.Stmt
}

// batDecisionList reads the first decision construct of a statement list as a list of arms: a (tagged or
// tagless) switch, or an if / else-if chain; when no explicit default / else exists the statements that follow
// the construct form the default arm.
func batDecisionList(stmts []ast.Stmt) []batArm {
	for i, st := range stmts {
		switch x := st.(type) {
		case *ast.SwitchStmt:
			var arms []batArm
			hasDefault := false
			for _, c := range x.Body.List {
				cc := c.(*ast.CaseClause)
				if len(cc.List) == 0 {
					hasDefault = true
					arms = append(arms, batArm{tag: x.Tag, body: cc.Body})
				} else {
					arms = append(arms, batArm{tag: x.Tag, conds: cc.List, body: cc.Body})
				}
			}
			// the default arm last, wherever it was written
			var ordered []batArm
			var def *batArm
			for k := range arms {
				if arms[k].conds == nil {
					def = &arms[k]
				} else {
					ordered = append(ordered, arms[k])
				}
			}
			if hasDefault {
				ordered = append(ordered, *def)
			} else {
				ordered = append(ordered, batArm{body: stmts[i+1:]})
			}
			return ordered
		case *ast.IfStmt:
			var arms []batArm
			cur := x
			for {
				arms = append(arms, batArm{conds: []ast.Expr{cur.Cond}, body: cur.Body.List})
				if cur.Else == nil {
					arms = append(arms, batArm{body: stmts[i+1:]})
					return arms
				}
				if ei, ok := cur.Else.(*ast.IfStmt); ok {
					cur = ei
					continue
				}
				arms = append(arms, batArm{body: cur.Else.(*ast.BlockStmt).List})
				return arms
			}
		}
	}
	return nil
}

// batValArm: the constants a subject is compared with in one arm of a decision list, and the arm's statements.
type batValArm struct {
	vals []string // nil = default
	body []ast.Stmt
}

// batValueTable reads a function as a table "subject value -> arm", whether it is written as a tagged switch on
// the subject, a tagless switch or an if-chain of `subject == C [|| subject == D]` tests (either operand order).
func batValueTable(fd *ast.FuncDecl, subjects []string) ([]batValArm, bool) {
	loc := batLocals(fd)
	var res []batValArm
	for _, arm := range batDecisionList(fd.Body.List) {
		if arm.conds == nil {
			res = append(res, batValArm{body: arm.body})
			continue
		}
		va := batValArm{body: arm.body, vals: []string{}}
		if arm.tag != nil {
			okTag := false
			for _, sj := range subjects {
				if batText(arm.tag, loc) == sj {
					okTag = true
				}
			}
			if !okTag {
				return nil, false
			}
			for _, e := range arm.conds {
				va.vals = append(va.vals, batOneLine(exprString(e)))
			}
		} else {
			for _, c := range arm.conds {
				for _, d := range batFlatten(c, token.LOR, loc) {
					_, other, ok := batCompare(d, token.EQL, subjects, loc)
					if !ok {
						return nil, false
					}
					va.vals = append(va.vals, other)
				}
			}
		}
		res = append(res, va)
	}
	return res, len(res) > 0
}

// batFindAny finds a function or a method (any receiver) of the package by its bare name.
func batFindAny(files []*ast.File, name string) *ast.FuncDecl {
	for _, f := range files {
		for _, d := range f.Decls {
			if fd, ok := d.(*ast.FuncDecl); ok && fd.Name.Name == name && fd.Body != nil {
				return fd
			}
		}
	}
	return nil
}

// batReach returns the function together with the same-package functions / methods it calls (transitively,
// bounded depth) – so that a fact does not depend on how the code is cut into helpers.
func batReach(fd *ast.FuncDecl, files []*ast.File, depth int) []*ast.FuncDecl {
	seen := map[*ast.FuncDecl]bool{fd: true}
	res := []*ast.FuncDecl{fd}
	frontier := []*ast.FuncDecl{fd}
	for d := 0; d < depth; d++ {
		var next []*ast.FuncDecl
		for _, f := range frontier {
			ast.Inspect(f.Body, func(n ast.Node) bool {
				ce, ok := n.(*ast.CallExpr)
				if !ok {
					return true
				}
				name := ""
				switch x := ce.Fun.(type) {
				case *ast.Ident:
					name = x.Name
				case *ast.SelectorExpr:
					name = x.Sel.Name
				}
				if g := batFindAny(files, name); g != nil && !seen[g] {
					seen[g] = true
					res = append(res, g)
					next = append(next, g)
				}
				return true
			})
		}
		frontier = next
	}
	return res
}

// batBodyText prints statements, inlining (two levels) the bodies of same-package functions they call.
func batBodyText(stmts []ast.Stmt, files []*ast.File, depth int) string {
	var sb strings.Builder
	for _, st := range stmts {
		sb.WriteString(batStmtString(st))
		sb.WriteString("\n")
		if depth <= 0 {
			continue
		}
		ast.Inspect(st, func(n ast.Node) bool {
			if ce, ok := n.(*ast.CallExpr); ok {
				if id, ok := ce.Fun.(*ast.Ident); ok {
					if fd := findFunc(files, id.Name); fd != nil && fd.Body != nil {
						sb.WriteString(batBodyText(fd.Body.List, files, depth-1))
					}
				}
			}
			return true
		})
	}
	return sb.String()
}

func batStmtString(s ast.Stmt) string {
	var sb strings.Builder
	_ = printer.Fprint(&sb, fset, s)
	return sb.String()
}

// batExprStmt prints an assignment / expression statement on one line.
func batExprStmt(s ast.Stmt) string { return batStmtString(s) }
