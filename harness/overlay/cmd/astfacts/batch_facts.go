//go:build verif

package main

import (
	"fmt"
	"go/ast"
	"go/printer"
	"go/token"
	"strings"
)

func init() {
	// lnd / btcd constants the pool code builds its weight estimate from. The
	// harness cross-checks them against the compiled values on every run
	// (op `consts` of the C01/C02/C03 streams).
	externConsts["input.P2WSHOutputSize"] = 43
	externConsts["input.InputSize"] = 41
	externConsts["blockchain.WitnessScaleFactor"] = 4
	jobs = append(jobs, job{props: []string{"C01", "C02", "C03"}, fn: genBatchFacts})
}

// batSwitchCases returns the case clauses of the first switch statement in fn
// whose tag prints as tag ("" = tagless switch).
func batSwitchCases(fn *ast.FuncDecl, tag string) []*ast.CaseClause {
	var res []*ast.CaseClause
	found := false
	ast.Inspect(fn.Body, func(n ast.Node) bool {
		if found {
			return false
		}
		sw, ok := n.(*ast.SwitchStmt)
		if !ok {
			return true
		}
		t := ""
		if sw.Tag != nil {
			t = exprString(sw.Tag)
		}
		if t != tag {
			return true
		}
		for _, s := range sw.Body.List {
			res = append(res, s.(*ast.CaseClause))
		}
		found = true
		return false
	})
	return res
}

// batFirstReturn returns the printed results of the first return statement in a
// case body.
func batFirstReturn(body []ast.Stmt) []string {
	for _, s := range body {
		if r, ok := s.(*ast.ReturnStmt); ok {
			var out []string
			for _, e := range r.Results {
				out = append(out, exprString(e))
			}
			return out
		}
	}
	return nil
}

func batLastIdent(s string) string {
	if i := strings.LastIndex(s, "."); i >= 0 {
		return s[i+1:]
	}
	return s
}

func batOneLine(s string) string { return strings.Join(strings.Fields(s), " ") }

func genBatchFacts() {
	l := newLean("BatchFacts", "Constants and decision tables of the batch verification code (order, account, poolscript, terms, auctioneerrpc).")
	l.p("namespace Pool.Gen.Batch")

	orderF := pkgFiles("order")
	order := newConstEnv(orderF)
	acct := newConstEnv(pkgFiles("account"))
	acctF := pkgFiles("account")
	ps := newConstEnv(pkgFiles("poolscript"))
	psF := pkgFiles("poolscript")
	rpc := newConstEnv(pkgFiles("auctioneerrpc"))
	termsF := pkgFiles("terms")

	// ---- plain constants
	l.p("def baseSupplyUnit : Nat := %s", intConst(order, "order", "BaseSupplyUnit"))
	l.p("def linearVersionEnd : Nat := %s", intConst(order, "order", "LinearVersionEnd"))
	l.p("def extendAccountBatchVersion : Nat := %s", intConst(order, "order", "ExtendAccountBatchVersion"))
	l.p("def upgradeAccountTaprootBatchVersion : Nat := %s", intConst(order, "order", "UpgradeAccountTaprootBatchVersion"))
	l.p("def latestBatchVersion : Nat := %s", intConst(order, "order", "LatestBatchVersion"))
	l.p("def btcOutboundLiquidity : Nat := %s", intConst(order, "order", "BTCOutboundLiquidity"))
	l.p("def taprootMultiSigWitnessSize : Nat := %s", intConst(ps, "poolscript", "TaprootMultiSigWitnessSize"))
	l.p("def multiSigWitnessSize : Nat := %s", intConst(ps, "poolscript", "MultiSigWitnessSize"))

	// ---- BatchVersion.Supports*: the return expressions must have the shape
	// the model hard-wires ((bv & LinearVersionEnd) >= X)
	for fn, want := range map[string]string{
		"BatchVersion.SupportsAccountExtension":      "(bv & LinearVersionEnd) >= ExtendAccountBatchVersion",
		"BatchVersion.SupportsAccountTaprootUpgrade": "(bv & LinearVersionEnd) >= UpgradeAccountTaprootBatchVersion",
	} {
		fd := findFunc(orderF, fn)
		if fd == nil {
			fail("%s not found", fn)
			continue
		}
		got := batFirstReturn(fd.Body.List)
		if len(got) != 1 || batOneLine(got[0]) != want {
			fail("%s: return expression is %q, model expects %q", fn, got, want)
		}
	}

	// ---- terms.LinearFeeSchedule.ExecutionFee: amt * s.feeRate / <parts>
	if fd := findFunc(termsF, "LinearFeeSchedule.ExecutionFee"); fd == nil {
		fail("LinearFeeSchedule.ExecutionFee not found")
	} else {
		got := batFirstReturn(fd.Body.List)
		parts := "0"
		if len(got) == 1 && strings.HasPrefix(batOneLine(got[0]), "amt * s.feeRate / ") {
			parts = strings.ReplaceAll(strings.TrimPrefix(batOneLine(got[0]), "amt * s.feeRate / "), "_", "")
		} else {
			fail("LinearFeeSchedule.ExecutionFee: unexpected return %q", got)
		}
		l.p("def feeRatePartsPerMillion : Int := %s", parts)
	}

	// ---- EstimateTraderFee: weight constants and the witness-size switch
	if fd := findFunc(orderF, "EstimateTraderFee"); fd == nil {
		fail("EstimateTraderFee not found")
	} else {
		// the statements of the function body, printed, must match the
		// sequence the model mirrors
		var stm []string
		for _, s := range fd.Body.List {
			switch x := s.(type) {
			case *ast.AssignStmt:
				stm = append(stm, batOneLine(exprString(x.Lhs[0])+" "+x.Tok.String()+" "+exprString(x.Rhs[0])))
			case *ast.ReturnStmt:
				stm = append(stm, "return "+batOneLine(exprString(x.Results[0])))
			}
		}
		want := []string{
			"weightEstimate += input.P2WSHOutputSize",
			"weightEstimate += input.InputSize",
			"chanOutputSize := uint32(input.P2WSHOutputSize)",
			"weightEstimate += int64(chanOutputSize*numTraderChans+1) / 2",
			"weightEstimate *= blockchain.WitnessScaleFactor",
			"return feeRate.FeeForWeight(lntypes.WeightUnit(weightEstimate))",
		}
		if strings.Join(stm, "|") != strings.Join(want, "|") {
			fail("EstimateTraderFee: statement sequence changed: %q", stm)
		}
		l.p("def p2wshOutputSize : Nat := %d", externConsts["input.P2WSHOutputSize"])
		l.p("def inputSize : Nat := %d", externConsts["input.InputSize"])
		l.p("def witnessScaleFactor : Nat := %d", externConsts["blockchain.WitnessScaleFactor"])
		cases := batSwitchCases(fd, "accountVersion")
		var tapVers []string
		okShape := len(cases) == 2
		for _, c := range cases {
			if len(c.List) == 0 {
				// default
				if len(c.Body) != 1 || batOneLine(batExprStmt(c.Body[0])) != "weightEstimate += poolscript.MultiSigWitnessSize" {
					okShape = false
				}
				continue
			}
			if len(c.Body) != 1 || batOneLine(batExprStmt(c.Body[0])) != "weightEstimate += poolscript.TaprootMultiSigWitnessSize" {
				okShape = false
			}
			for _, e := range c.List {
				tapVers = append(tapVers, intConst(acct, "account", batLastIdent(exprString(e))))
			}
		}
		if !okShape {
			fail("EstimateTraderFee: witness-size switch changed shape")
		}
		l.p("def taprootWitnessVersions : List Nat := [%s]", strings.Join(tapVers, ", "))
	}

	// ---- account.Version.ScriptVersion
	if fd := findFunc(acctF, "Version.ScriptVersion"); fd == nil {
		fail("Version.ScriptVersion not found")
	} else {
		var rows []string
		def := "0"
		for _, c := range batSwitchCases(fd, "v") {
			ret := batFirstReturn(c.Body)
			if len(ret) != 1 {
				fail("ScriptVersion: case without single return")
				continue
			}
			sv := intConst(ps, "poolscript", batLastIdent(ret[0]))
			if len(c.List) == 0 {
				def = sv
				continue
			}
			for _, e := range c.List {
				rows = append(rows, fmt.Sprintf("(%s, %s)", intConst(acct, "account", batLastIdent(exprString(e))), sv))
			}
		}
		l.p("def scriptVersionTable : List (Nat × Nat) := [%s]", strings.Join(rows, ", "))
		l.p("def scriptVersionDefault : Nat := %s", def)
	}
	_ = psF

	// ---- account.ValidateVersion: the known account versions; max account lifetime
	if fd := findFunc(acctF, "ValidateVersion"); fd == nil {
		fail("ValidateVersion not found")
	} else {
		var vs []string
		for _, c := range batSwitchCases(fd, "version") {
			ret := batFirstReturn(c.Body)
			if len(c.List) == 0 {
				if len(ret) != 1 || ret[0] == "nil" {
					fail("ValidateVersion: default case no longer returns an error")
				}
				continue
			}
			if len(ret) != 1 || ret[0] != "nil" {
				fail("ValidateVersion: listed case no longer returns nil")
			}
			for _, e := range c.List {
				vs = append(vs, intConst(acct, "account", batLastIdent(exprString(e))))
			}
		}
		l.p("def validAccountVersions : List Nat := [%s]", strings.Join(vs, ", "))
	}
	l.p("def maxAccountExpiry : Nat := %s", intConst(acct, "account", "maxAccountExpiry"))

	// ---- AccountDiff.validateEndingState: ending-state sets
	if fd := findFunc(orderF, "AccountDiff.validateEndingState"); fd == nil {
		fail("validateEndingState not found")
	} else {
		var dust []string
		recreated := ""
		dustCmp := false
		ast.Inspect(fd.Body, func(n ast.Node) bool {
			ifs, ok := n.(*ast.IfStmt)
			if !ok {
				return true
			}
			cond := batOneLine(exprString(ifs.Cond))
			if cond == "d.EndingBalance < MinNoDustAccountSize" {
				dustCmp = true
			}
			if strings.HasPrefix(cond, "state != ") {
				parts := strings.Split(cond, " && ")
				var vals []string
				for _, p := range parts {
					if !strings.HasPrefix(p, "state != ") {
						fail("validateEndingState: unexpected state condition %q", cond)
						return true
					}
					vals = append(vals, intConst(rpc, "auctioneerrpc", batLastIdent(strings.TrimPrefix(p, "state != "))))
				}
				if len(vals) > 1 {
					dust = vals
				} else {
					recreated = vals[0]
				}
			}
			return true
		})
		if !dustCmp || len(dust) == 0 || recreated == "" {
			fail("validateEndingState: dust comparison / state sets not found")
			recreated = "0"
		}
		l.p("def dustEndingStates : List Int := [%s]", strings.Join(dust, ", "))
		l.p("def recreatedEndingState : Int := %s", recreated)
	}

	// ---- DetermineCommitmentType: ordered cases
	if fd := findFunc(orderF, "DetermineCommitmentType"); fd == nil {
		fail("DetermineCommitmentType not found")
	} else {
		var rows []string
		def := ""
		for _, c := range batSwitchCases(fd, "") {
			ret := batFirstReturn(c.Body)
			if len(ret) != 2 {
				fail("DetermineCommitmentType: case without (type, bool) return")
				continue
			}
			name := strings.TrimPrefix(batLastIdent(ret[0]), "CommitmentType_")
			if len(c.List) == 0 {
				def = name
				continue
			}
			if len(c.List) != 1 {
				fail("DetermineCommitmentType: multi-expression case")
				continue
			}
			be, ok := c.List[0].(*ast.BinaryExpr)
			if !ok || (be.Op != token.LOR && be.Op != token.LAND) {
				fail("DetermineCommitmentType: case is not a ||/&& of two tests")
				continue
			}
			lhs, rhs := batOneLine(exprString(be.X)), batOneLine(exprString(be.Y))
			const lp, rp = "ourOrder.ChannelType == ", "theirOrder.ChannelType == "
			if !strings.HasPrefix(lhs, lp) || !strings.HasPrefix(rhs, rp) ||
				strings.TrimPrefix(lhs, lp) != strings.TrimPrefix(rhs, rp) {
				fail("DetermineCommitmentType: unexpected tests %q / %q", lhs, rhs)
				continue
			}
			op := "or"
			if be.Op == token.LAND {
				op = "and"
			}
			rows = append(rows, fmt.Sprintf("(%q, %s, %q)", op,
				intConst(order, "order", strings.TrimPrefix(lhs, lp)), name))
		}
		l.p("def commitCases : List (String × Nat × String) := [%s]", strings.Join(rows, ", "))
		l.p("def commitDefault : String := %q", def)
	}

	// ---- poolscript.FundingOutput: commitment types with a taproot output
	if fd := findFunc(psF, "FundingOutput"); fd == nil {
		fail("FundingOutput not found")
	} else {
		var tap []string
		nDefault := 0
		for _, c := range batSwitchCases(fd, "commitmentType") {
			body := ""
			for _, s := range c.Body {
				body += batStmtString(s)
			}
			isTap := strings.Contains(body, "GenTaprootFundingScript")
			isWsh := strings.Contains(body, "GenFundingPkScript")
			if len(c.List) == 0 {
				nDefault++
				if !isWsh || isTap {
					fail("FundingOutput: default case is not the p2wsh branch")
				}
				continue
			}
			if !isTap || isWsh {
				fail("FundingOutput: non-default case is not the taproot branch")
			}
			for _, e := range c.List {
				tap = append(tap, fmt.Sprintf("%q", strings.TrimPrefix(batLastIdent(exprString(e)), "CommitmentType_")))
			}
		}
		if nDefault != 1 {
			fail("FundingOutput: no default case")
		}
		l.p("def taprootFundingCommitTypes : List String := [%s]", strings.Join(tap, ", "))
	}

	// ---- ParseRPCServerOrder: rpc channel type -> order.ChannelType
	if fd := findFunc(orderF, "ParseRPCServerOrder"); fd == nil {
		fail("ParseRPCServerOrder not found")
	} else {
		var rows []string
		for _, c := range batSwitchCases(fd, "details.ChannelType") {
			if len(c.List) == 0 {
				if len(batFirstReturn(c.Body)) == 0 {
					fail("ParseRPCServerOrder: default channel type no longer returns an error")
				}
				continue
			}
			if len(c.Body) != 1 {
				fail("ParseRPCServerOrder: channel type case changed shape")
				continue
			}
			as := batOneLine(batExprStmt(c.Body[0]))
			if !strings.HasPrefix(as, "kit.ChannelType = ") {
				fail("ParseRPCServerOrder: channel type case body %q", as)
				continue
			}
			v := intConst(order, "order", strings.TrimPrefix(as, "kit.ChannelType = "))
			for _, e := range c.List {
				rows = append(rows, fmt.Sprintf("(%s, %s)", intConst(rpc, "auctioneerrpc", batLastIdent(exprString(e))), v))
			}
		}
		l.p("def rpcChanTypeTable : List (Int × Nat) := [%s]", strings.Join(rows, ", "))
	}

	// ---- helpers below the modelled code: shape facts that justify treating them as pure functions
	// (a) batchVerifier has exactly the start-up fields and Verify / validateMatchedOrder never assign to one
	{
		var fields []string
		for _, f := range orderF {
			ast.Inspect(f, func(n ast.Node) bool {
				ts, ok := n.(*ast.TypeSpec)
				if !ok || ts.Name.Name != "batchVerifier" {
					return true
				}
				if st, ok := ts.Type.(*ast.StructType); ok {
					for _, fl := range st.Fields.List {
						for _, nm := range fl.Names {
							fields = append(fields, nm.Name)
						}
					}
				}
				return false
			})
		}
		if len(fields) == 0 {
			fail("batchVerifier struct not found")
		}
		l.p("def verifierFields : List String := %s", leanStrList(fields))
		var writes []string
		for _, fn := range []string{"batchVerifier.Verify", "batchVerifier.validateMatchedOrder", "batchVerifier.validateChannelOutput"} {
			fd := findFunc(orderF, fn)
			if fd == nil {
				fail("%s not found", fn)
				continue
			}
			ast.Inspect(fd.Body, func(n ast.Node) bool {
				as, ok := n.(*ast.AssignStmt)
				if !ok {
					return true
				}
				for _, lhs := range as.Lhs {
					x := lhs
					if ix, ok := x.(*ast.IndexExpr); ok {
						x = ix.X
					}
					if sel, ok := x.(*ast.SelectorExpr); ok {
						if id, ok := sel.X.(*ast.Ident); ok && id.Name == "v" {
							writes = append(writes, fn+":"+sel.Sel.Name)
						}
					}
				}
				return true
			})
		}
		l.p("def verifierFieldWrites : List String := %s", leanStrList(writes))
	}
	// (b) the script helpers read no package-level variable (other than the logger)
	{
		globals := map[string]bool{}
		for _, f := range psF {
			for _, d := range f.Decls {
				gd, ok := d.(*ast.GenDecl)
				if !ok || gd.Tok != token.VAR {
					continue
				}
				for _, sp := range gd.Specs {
					for _, nm := range sp.(*ast.ValueSpec).Names {
						if nm.Name != "log" && nm.Name != "_" {
							globals[nm.Name] = true
						}
					}
				}
			}
		}
		var used []string
		for _, fn := range []string{"AccountScript", "AccountWitnessScript", "accountWitnessScript", "TaprootKey",
			"TaprootExpiryScript", "TraderKeyTweak", "IncrementKey", "FundingOutput"} {
			fd := findFunc(psF, fn)
			if fd == nil {
				fail("poolscript.%s not found", fn)
				continue
			}
			ast.Inspect(fd.Body, func(n ast.Node) bool {
				if id, ok := n.(*ast.Ident); ok && globals[id.Name] {
					used = append(used, fn+":"+id.Name)
				}
				return true
			})
		}
		l.p("def scriptHelperGlobals : List String := %s", leanStrList(used))
	}
	// (c) ParseRPCServerAsk/Bid take the lease duration from the message as it is, and the channel type of a
	// counterparty order is assigned only by the cases of the rpc channel-type switch
	{
		var src []string
		for _, fn := range []string{"ParseRPCServerAsk", "ParseRPCServerBid"} {
			fd := findFunc(orderF, fn)
			if fd == nil {
				fail("%s not found", fn)
				continue
			}
			ast.Inspect(fd.Body, func(n ast.Node) bool {
				switch x := n.(type) {
				case *ast.CallExpr:
					if id, ok := x.Fun.(*ast.Ident); ok && id.Name == "ParseRPCServerOrder" && len(x.Args) == 4 {
						src = append(src, batOneLine(exprString(x.Args[3])))
					}
				case *ast.AssignStmt:
					if len(x.Lhs) == 1 && batOneLine(exprString(x.Lhs[0])) == "kit.LeaseDuration" {
						src = append(src, batOneLine(exprString(x.Rhs[0])))
					}
				}
				return true
			})
		}
		l.p("def serverOrderDurationSources : List String := %s", leanStrList(src))
		nAssign := 0
		if fd := findFunc(orderF, "ParseRPCServerOrder"); fd != nil {
			ast.Inspect(fd.Body, func(n ast.Node) bool {
				if as, ok := n.(*ast.AssignStmt); ok && len(as.Lhs) == 1 &&
					batOneLine(exprString(as.Lhs[0])) == "kit.ChannelType" {
					nAssign++
				}
				return true
			})
		}
		l.p("def serverOrderChanTypeAssignments : Nat := %d", nAssign)
	}

	l.p("end Pool.Gen.Batch")
}

func batStmtString(s ast.Stmt) string {
	var sb strings.Builder
	_ = printer.Fprint(&sb, fset, s)
	return sb.String()
}

// batExprStmt prints an assignment / expression statement on one line.
func batExprStmt(s ast.Stmt) string { return batStmtString(s) }
