//go:build verif

package main

import (
	"fmt"
	"go/ast"
	"go/token"
	"sort"
	"strings"
)

func init() { jobs = append(jobs, job{props: []string{"C17"}, fn: genC17Facts}) }

// c17RPCCommit: values of lnd's lnrpc.CommitmentType enum (third party; the
// values the model uses are cross-checked against the compiled ones by the
// harness op `C17 consts`).
var c17RPCCommit = map[string]int{
	"lnrpc.CommitmentType_UNKNOWN_COMMITMENT_TYPE": 0,
	"lnrpc.CommitmentType_LEGACY":                  1,
	"lnrpc.CommitmentType_STATIC_REMOTE_KEY":       2,
	"lnrpc.CommitmentType_ANCHORS":                 3,
	"lnrpc.CommitmentType_SCRIPT_ENFORCED_LEASE":   4,
	"lnrpc.CommitmentType_SIMPLE_TAPROOT":          5,
	"lnrpc.CommitmentType_SIMPLE_TAPROOT_OVERLAY":  6,
}

// c17Squash collapses all whitespace of a printed expression.
func c17Squash(s string) string {
	return strings.ReplaceAll(strings.Join(strings.Fields(s), " "), ". ", ".")
}

// c17Literal finds the first composite literal of the given (printed) type
// inside a function body and returns its ordered (field, expression) list.
// c17SingleDefs: locals of a function that are defined exactly once by a 1:1
// `:=` / `var x = e` and never assigned again - their name is irrelevant, a use
// of them means the defining expression.
func c17SingleDefs(fd *ast.FuncDecl) map[string]ast.Expr {
	count := map[string]int{}
	def := map[string]ast.Expr{}
	ast.Inspect(fd.Body, func(n ast.Node) bool {
		switch x := n.(type) {
		case *ast.AssignStmt:
			for i, l := range x.Lhs {
				if id, ok := l.(*ast.Ident); ok && id.Name != "_" {
					count[id.Name]++
					if x.Tok == token.DEFINE && len(x.Lhs) == len(x.Rhs) {
						def[id.Name] = x.Rhs[i]
					} else {
						count[id.Name] += 2 // multi-value definition or re-assignment: keep the name
					}
				}
			}
		case *ast.IncDecStmt:
			if id, ok := x.X.(*ast.Ident); ok {
				count[id.Name] += 2
			}
		case *ast.ValueSpec:
			for i, n := range x.Names {
				count[n.Name]++
				if len(x.Values) == len(x.Names) {
					def[n.Name] = x.Values[i]
				} else {
					count[n.Name] += 2
				}
			}
		case *ast.RangeStmt:
			for _, e := range []ast.Expr{x.Key, x.Value} {
				if id, ok := e.(*ast.Ident); ok {
					count[id.Name] += 3
				}
			}
		case *ast.UnaryExpr:
			if id, ok := x.X.(*ast.Ident); ok && x.Op == token.AND {
				count[id.Name] += 3 // address taken
			}
		}
		return true
	})
	res := map[string]ast.Expr{}
	for n, e := range def {
		if count[n] == 1 {
			// only pure, cheap-to-read definitions: selectors, conversions, type assertions
			switch e.(type) {
			case *ast.SelectorExpr, *ast.TypeAssertExpr, *ast.Ident, *ast.ParenExpr, *ast.StarExpr:
				res[n] = e
			}
		}
	}
	return res
}

func c17ResolveLocals(e ast.Expr, defs map[string]ast.Expr) ast.Expr {
	for i := 0; i < 4; i++ {
		e = c17Subst(e, defs)
	}
	return e
}

func c17Literal(fd *ast.FuncDecl, typ string) [][2]string {
	res := c17LiteralWith(fd, typ, nil)
	// the order in which the fields of a literal are written is irrelevant
	sort.Slice(res, func(i, j int) bool { return res[i][0] < res[j][0] })
	return res
}

// c17LiteralWith: `params` maps parameter names of fd to the (resolved)
// argument expressions of the call through which fd was reached.
func c17LiteralWith(fd *ast.FuncDecl, typ string, params map[string]ast.Expr) [][2]string {
	var res [][2]string
	found := false
	defs := c17SingleDefs(fd)
	for k, v := range params {
		defs[k] = v
	}
	ast.Inspect(fd.Body, func(n ast.Node) bool {
		if found {
			return false
		}
		cl, ok := n.(*ast.CompositeLit)
		if !ok || cl.Type == nil || exprString(cl.Type) != typ {
			return true
		}
		found = true
		for _, e := range cl.Elts {
			kv, ok := e.(*ast.KeyValueExpr)
			if !ok {
				fail("%s literal in %s: positional element", typ, fd.Name.Name)
				continue
			}
			res = append(res, [2]string{exprString(kv.Key), c17Squash(exprString(c17ResolveLocals(kv.Value, defs)))})
		}
		return false
	})
	if !found && c17LitDepth < 2 && c17LitFiles != nil {
		// extracted helper: look into the same-package functions this one calls,
		// substituting the call's arguments for the helper's parameters
		type callee struct {
			fd   *ast.FuncDecl
			call *ast.CallExpr
		}
		var callees []callee
		ast.Inspect(fd.Body, func(n ast.Node) bool {
			c, ok := n.(*ast.CallExpr)
			if !ok {
				return true
			}
			name := ""
			switch f := c.Fun.(type) {
			case *ast.Ident:
				name = f.Name
			case *ast.SelectorExpr:
				name = f.Sel.Name
			}
			for _, file := range c17LitFiles {
				for _, d := range file.Decls {
					if g, ok := d.(*ast.FuncDecl); ok && g.Name.Name == name && g.Body != nil && g != fd {
						callees = append(callees, callee{g, c})
					}
				}
			}
			return true
		})
		for _, ce := range callees {
			g := ce.fd
			has := false
			ast.Inspect(g.Body, func(n ast.Node) bool {
				if cl, ok := n.(*ast.CompositeLit); ok && cl.Type != nil && exprString(cl.Type) == typ {
					has = true
				}
				return !has
			})
			if has {
				pm := map[string]ast.Expr{}
				i := 0
				if g.Type.Params != nil {
					for _, f := range g.Type.Params.List {
						for _, n := range f.Names {
							if i < len(ce.call.Args) {
								pm[n.Name] = c17ResolveLocals(ce.call.Args[i], defs)
							}
							i++
						}
					}
				}
				c17LitDepth++
				r := c17LiteralWith(g, typ, pm)
				c17LitDepth--
				return r
			}
		}
	}
	if !found {
		fail("no %s literal in %s", typ, fd.Name.Name)
	}
	return res
}

// files of the package c17Literal currently works in (for helper lookup)
var (
	c17LitFiles []*ast.File
	c17LitDepth int
)

func c17PairList(xs [][2]string) string {
	q := make([]string, len(xs))
	for i, x := range xs {
		q[i] = fmt.Sprintf("(%q, %q)", x[0], x[1])
	}
	return "[" + strings.Join(q, ", ") + "]"
}

// c17Dec extracts the decision list of a function of two *Kit parameters that
// returns (commitment type, musig2): whatever mixture of tagless / tagged
// switches, if / else-if chains, early returns and a final return the body is
// written in, it is normalised to an ordered list of (condition, result) with
// first-match semantics. Conditions are boolean combinations of comparisons of
// `<param>.ChannelType` with a package constant (operand order irrelevant);
// simple local definitions (`t := ourOrder.ChannelType`) are followed and
// same-package helper functions whose body is a single `return <expr>` are
// inlined.
type c17Dec struct {
	ce      *constEnv
	files   []*ast.File
	ours    string
	theirs  string
	locals  map[string]ast.Expr
	entries []string
	depth   int
}

// subst replaces identifiers by expressions (parameters of an inlined helper,
// followed locals).
func c17Subst(e ast.Expr, m map[string]ast.Expr) ast.Expr {
	switch x := e.(type) {
	case *ast.Ident:
		if r, ok := m[x.Name]; ok {
			return r
		}
		return x
	case *ast.ParenExpr:
		return &ast.ParenExpr{X: c17Subst(x.X, m)}
	case *ast.UnaryExpr:
		return &ast.UnaryExpr{Op: x.Op, X: c17Subst(x.X, m)}
	case *ast.BinaryExpr:
		return &ast.BinaryExpr{Op: x.Op, X: c17Subst(x.X, m), Y: c17Subst(x.Y, m)}
	case *ast.SelectorExpr:
		return &ast.SelectorExpr{X: c17Subst(x.X, m), Sel: x.Sel}
	case *ast.StarExpr:
		return &ast.StarExpr{X: c17Subst(x.X, m)}
	case *ast.SliceExpr:
		return &ast.SliceExpr{X: c17Subst(x.X, m), Low: x.Low, High: x.High, Max: x.Max, Slice3: x.Slice3}
	case *ast.IndexExpr:
		return &ast.IndexExpr{X: c17Subst(x.X, m), Index: c17Subst(x.Index, m)}
	case *ast.TypeAssertExpr:
		return &ast.TypeAssertExpr{X: c17Subst(x.X, m), Type: x.Type}
	case *ast.CallExpr:
		c := &ast.CallExpr{Fun: x.Fun}
		for _, a := range x.Args {
			c.Args = append(c.Args, c17Subst(a, m))
		}
		return c
	}
	return e
}

// resolve follows locals and inlines single-return helpers.
func (d *c17Dec) resolve(e ast.Expr) ast.Expr {
	for i := 0; i < 8; i++ {
		switch x := e.(type) {
		case *ast.ParenExpr:
			e = x.X
			continue
		case *ast.Ident:
			if r, ok := d.locals[x.Name]; ok {
				e = r
				continue
			}
		case *ast.CallExpr:
			// type conversion of one argument: transparent
			if id, ok := x.Fun.(*ast.Ident); ok && len(x.Args) >= 1 {
				if fd := findFunc(d.files, id.Name); fd != nil && fd.Body != nil && len(fd.Body.List) == 1 {
					if ret, ok := fd.Body.List[0].(*ast.ReturnStmt); ok && len(ret.Results) == 1 {
						m := map[string]ast.Expr{}
						i := 0
						for _, f := range fd.Type.Params.List {
							for _, n := range f.Names {
								if i < len(x.Args) {
									m[n.Name] = c17Subst(x.Args[i], d.locals)
								}
								i++
							}
						}
						e = c17Subst(ret.Results[0], m)
						continue
					}
				}
			}
			// x.M() where M is a single-return method: inline with the receiver
			if sel, ok := x.Fun.(*ast.SelectorExpr); ok && len(x.Args) == 0 {
				for _, f := range d.files {
					for _, dd := range f.Decls {
						fd, ok := dd.(*ast.FuncDecl)
						if !ok || fd.Recv == nil || fd.Name.Name != sel.Sel.Name || fd.Body == nil || len(fd.Body.List) != 1 ||
							len(fd.Recv.List) != 1 || len(fd.Recv.List[0].Names) != 1 {
							continue
						}
						if ret, ok := fd.Body.List[0].(*ast.ReturnStmt); ok && len(ret.Results) == 1 {
							e = c17Subst(ret.Results[0], map[string]ast.Expr{fd.Recv.List[0].Names[0].Name: c17Subst(sel.X, d.locals)})
							return d.resolve(e)
						}
					}
				}
			}
		}
		break
	}
	return e
}

// side: which parameter's channel type an expression denotes
func (d *c17Dec) side(e ast.Expr) string {
	e = d.resolve(e)
	switch c17Squash(exprString(e)) {
	case d.ours + ".ChannelType", "(*" + d.ours + ").ChannelType":
		return ".ours"
	case d.theirs + ".ChannelType", "(*" + d.theirs + ").ChannelType":
		return ".theirs"
	}
	return ""
}

func (d *c17Dec) constVal(e ast.Expr) (string, bool) {
	e = d.resolve(e)
	if id, ok := e.(*ast.Ident); ok {
		if v, ok := d.ce.get(id.Name); ok {
			return v.ExactString(), true
		}
	}
	if bl, ok := e.(*ast.BasicLit); ok && bl.Kind == token.INT {
		return bl.Value, true
	}
	return "", false
}

func (d *c17Dec) cmp(op token.Token, l, r ast.Expr) (string, bool) {
	for k := 0; k < 2; k++ {
		if sd := d.side(l); sd != "" {
			if v, ok := d.constVal(r); ok {
				o := ".eq"
				if op == token.NEQ {
					o = ".ne"
				}
				return fmt.Sprintf("(%s %s %s)", o, sd, v), true
			}
		}
		l, r = r, l
	}
	return "", false
}

func (d *c17Dec) cond(e ast.Expr) string {
	e = d.resolve(e)
	switch x := e.(type) {
	case *ast.Ident:
		if x.Name == "true" {
			return "(.not (.and (.eq .ours 0) (.ne .ours 0)))"
		}
	case *ast.UnaryExpr:
		if x.Op == token.NOT {
			return "(.not " + d.cond(x.X) + ")"
		}
	case *ast.BinaryExpr:
		switch x.Op {
		case token.LOR:
			return "(.or " + d.cond(x.X) + " " + d.cond(x.Y) + ")"
		case token.LAND:
			return "(.and " + d.cond(x.X) + " " + d.cond(x.Y) + ")"
		case token.EQL, token.NEQ:
			if c, ok := d.cmp(x.Op, x.X, x.Y); ok {
				return c
			}
		}
	}
	return fmt.Sprintf("(.unknown %q)", c17Squash(exprString(e)))
}

func c17And(g, c string) string {
	switch {
	case g == "":
		return c
	case c == "":
		return g
	}
	return "(.and " + g + " " + c + ")"
}

func c17Not(c string) string { return "(.not " + c + ")" }

func (d *c17Dec) emit(guard string, ret *ast.ReturnStmt) {
	commit, musig, src := "none", "none", "?"
	if len(ret.Results) == 2 {
		r0 := d.resolve(ret.Results[0])
		if v, ok := c17RPCCommit[exprString(r0)]; ok {
			commit = fmt.Sprintf("(some %d)", v)
		}
		if s := exprString(d.resolve(ret.Results[1])); s == "true" || s == "false" {
			musig = "(some " + s + ")"
		}
		src = c17Squash(exprString(ret.Results[0]) + ", " + exprString(ret.Results[1]))
	}
	cond := "none"
	if guard != "" {
		cond = "(some " + guard + ")"
	}
	d.entries = append(d.entries, fmt.Sprintf("{ cond := %s, commit := %s, musig2 := %s, src := %q }", cond, commit, musig, src))
}

// block walks a statement list under a guard; it reports whether every path
// through the list returns.
func (d *c17Dec) block(stmts []ast.Stmt, guard string) bool {
	for _, st := range stmts {
		switch x := st.(type) {
		case *ast.ReturnStmt:
			d.emit(guard, x)
			return true
		case *ast.AssignStmt:
			// follow simple local definitions
			if len(x.Lhs) == len(x.Rhs) {
				for i, l := range x.Lhs {
					if id, ok := l.(*ast.Ident); ok {
						d.locals[id.Name] = c17Subst(x.Rhs[i], d.locals)
					}
				}
				continue
			}
			fail("DetermineCommitmentType: unsupported assignment %s", c17Squash(exprString(x.Lhs[0])))
		case *ast.DeclStmt:
			if gd, ok := x.Decl.(*ast.GenDecl); ok {
				for _, sp := range gd.Specs {
					if vs, ok := sp.(*ast.ValueSpec); ok && len(vs.Names) == len(vs.Values) {
						for i, n := range vs.Names {
							d.locals[n.Name] = c17Subst(vs.Values[i], d.locals)
						}
					}
				}
			}
		case *ast.ExprStmt:
			// logging and the like: no influence on the result
		case *ast.BlockStmt:
			if d.block(x.List, guard) {
				return true
			}
		case *ast.IfStmt:
			if d.ifChain(x, guard) {
				return true
			}
		case *ast.SwitchStmt:
			if d.switchStmt(x, guard) {
				return true
			}
		default:
			fail("DetermineCommitmentType: unsupported statement %T", st)
		}
	}
	return false
}

func (d *c17Dec) ifChain(x *ast.IfStmt, guard string) bool {
	if x.Init != nil {
		d.block([]ast.Stmt{x.Init}, guard)
	}
	c := d.cond(x.Cond)
	thenRet := d.block(x.Body.List, c17And(guard, c))
	// the else branch is only reached when the condition is false; with
	// first-match semantics that is implicit if the then-branch always returns
	elseGuard := guard
	if !thenRet {
		elseGuard = c17And(guard, c17Not(c))
	}
	switch e := x.Else.(type) {
	case nil:
		return false
	case *ast.IfStmt:
		return d.ifChain(e, elseGuard) && thenRet
	case *ast.BlockStmt:
		return d.block(e.List, elseGuard) && thenRet
	}
	return false
}

func (d *c17Dec) switchStmt(x *ast.SwitchStmt, guard string) bool {
	if x.Init != nil {
		d.block([]ast.Stmt{x.Init}, guard)
	}
	allRet, hasDefault := true, false
	var defaultClause *ast.CaseClause
	neg := "" // conjunction of the negations of earlier cases whose body may fall out of the switch
	for _, cs := range x.Body.List {
		cc := cs.(*ast.CaseClause)
		if cc.List == nil {
			hasDefault, defaultClause = true, cc
			continue
		}
		c := ""
		for _, e := range cc.List {
			var one string
			if x.Tag == nil {
				one = d.cond(e)
			} else if s, ok := d.cmp(token.EQL, x.Tag, e); ok {
				one = s
			} else {
				one = fmt.Sprintf("(.unknown %q)", c17Squash(exprString(x.Tag)+" == "+exprString(e)))
			}
			if c == "" {
				c = one
			} else {
				c = "(.or " + c + " " + one + ")"
			}
		}
		for _, st := range cc.Body {
			if b, ok := st.(*ast.BranchStmt); ok && b.Tok == token.FALLTHROUGH {
				fail("DetermineCommitmentType: fallthrough is not supported")
			}
		}
		ret := d.block(cc.Body, c17And(c17And(guard, neg), c))
		if !ret {
			allRet = false
			neg = c17And(neg, c17Not(c))
		}
	}
	if hasDefault {
		// the default clause is taken when no case matched, wherever it is written
		if !d.block(defaultClause.Body, c17And(guard, neg)) {
			allRet = false
		}
	}
	return allRet && hasDefault
}

// genC17Facts emits the source-derived data the C17 model and theorems use.
func genC17Facts() {
	l := newLean("C17Facts", "C17: channel-type enums, BaseSupplyUnit, the DetermineCommitmentType case table and "+
		"the field mappings of the composite literals that carry the funding parameters.")
	orderFiles := pkgFiles("order")
	ce := newConstEnv(orderFiles)

	l.p("namespace Pool.Gen.C17")
	l.p("def chanTypePeerDependent : Nat := %s", intConst(ce, "order", "ChannelTypePeerDependent"))
	l.p("def chanTypeScriptEnforced : Nat := %s", intConst(ce, "order", "ChannelTypeScriptEnforced"))
	l.p("def chanTypeSimpleTaproot : Nat := %s", intConst(ce, "order", "ChannelTypeSimpleTaproot"))
	l.p("def baseSupplyUnit : Nat := %s", intConst(ce, "order", "BaseSupplyUnit"))
	l.p("")

	// --- DetermineCommitmentType: decision list (first match), `return <commit type>, <musig2>` per entry
	l.p("inductive Side where | ours | theirs")
	l.p("deriving Repr, DecidableEq")
	l.p("inductive Cond where")
	l.p("  | eq (s : Side) (c : Nat) | ne (s : Side) (c : Nat) | and (a b : Cond) | or (a b : Cond) | not (a : Cond)")
	l.p("  | unknown (src : String)")
	l.p("deriving Repr, DecidableEq")
	l.p("/-- one entry of the decision list (first match wins): condition (`none` = always), returned lnrpc commitment type name, musig2 flag -/")
	l.p("structure DetCase where")
	l.p("  cond : Option Cond")
	l.p("  commit : Option Nat      -- lnrpc.CommitmentType value of the returned constant (`none` = not a known constant)")
	l.p("  musig2 : Option Bool     -- returned literal (`none` = not a literal)")
	l.p("  src : String")
	l.p("deriving Repr, DecidableEq")
	var cases []string
	fd := findFunc(orderFiles, "DetermineCommitmentType")
	if fd == nil || fd.Type.Params == nil || len(fd.Type.Params.List) == 0 || fd.Body == nil {
		fail("order.DetermineCommitmentType not found")
	} else {
		var names []string
		for _, f := range fd.Type.Params.List {
			for _, n := range f.Names {
				names = append(names, n.Name)
			}
		}
		if len(names) != 2 {
			fail("order.DetermineCommitmentType: expected two parameters")
		} else {
			d := &c17Dec{ce: ce, files: orderFiles, ours: names[0], theirs: names[1], locals: map[string]ast.Expr{}}
			if !d.block(fd.Body.List, "") {
				// a path without return cannot exist in compiled Go; keep the
				// data valid and let the theorem decide
				d.entries = append(d.entries, `{ cond := none, commit := none, musig2 := none, src := "no return found" }`)
			}
			cases = d.entries
		}
	}
	l.p("def detCases : List DetCase := [")
	l.p("  %s", strings.Join(cases, ",\n  "))
	l.p("]")
	l.p("")

	// --- composite literals carrying the funding parameters
	funding := pkgFiles("funding")
	c17LitFiles = funding
	if fd := findFunc(funding, "Manager.BatchChannelSetup"); fd != nil {
		l.p("/-- `lnrpc.OpenChannelRequest{…}` in `Manager.BatchChannelSetup` -/")
		l.p("def openChannelRequestFields : List (String × String) := %s", c17PairList(c17Literal(fd, "lnrpc.OpenChannelRequest")))
	} else {
		fail("funding.Manager.BatchChannelSetup not found")
	}
	if fd := findFunc(funding, "Manager.deriveFundingShim"); fd != nil {
		l.p("/-- `lnrpc.ChanPointShim{…}` in `Manager.deriveFundingShim` -/")
		l.p("def chanPointShimFields : List (String × String) := %s", c17PairList(c17Literal(fd, "lnrpc.ChanPointShim")))
		l.p("/-- `lnrpc.ChannelPoint{…}` in `Manager.deriveFundingShim` -/")
		l.p("def channelPointFields : List (String × String) := %s", c17PairList(c17Literal(fd, "lnrpc.ChannelPoint")))
	} else {
		fail("funding.Manager.deriveFundingShim not found")
	}
	c17LitFiles = orderFiles
	if fd := findFunc(orderFiles, "ParseRPCServerBid"); fd != nil {
		l.p("/-- `Bid{…}` in `order.ParseRPCServerBid` (what the asker sees of the bid) -/")
		l.p("def parseServerBidFields : List (String × String) := %s", c17PairList(c17Literal(fd, "Bid")))
	} else {
		fail("order.ParseRPCServerBid not found")
	}
	auct := pkgFiles("auctioneer")
	c17LitFiles = auct
	if fd := findFunc(auct, "Client.SubmitOrder"); fd != nil {
		l.p("/-- `auctioneerrpc.ServerBid{…}` in `Client.SubmitOrder` (what the bidder sends) -/")
		l.p("def submitServerBidFields : List (String × String) := %s", c17PairList(c17Literal(fd, "auctioneerrpc.ServerBid")))
		l.p("/-- `auctioneerrpc.ServerAsk{…}` in `Client.SubmitOrder` -/")
		l.p("def submitServerAskFields : List (String × String) := %s", c17PairList(c17Literal(fd, "auctioneerrpc.ServerAsk")))
	} else {
		fail("auctioneer.Client.SubmitOrder not found")
	}
	root := pkgFiles(".")
	c17LitFiles = root
	if fd := findFunc(root, "SidecarAcceptor.getSidecarAsOrder"); fd != nil {
		l.p("/-- `order.Bid{…}` in `SidecarAcceptor.getSidecarAsOrder` (the recipient's dummy bid) -/")
		l.p("def sidecarAsOrderFields : List (String × String) := %s", c17PairList(c17Literal(fd, "order.Bid")))
	} else {
		fail("SidecarAcceptor.getSidecarAsOrder not found")
	}
	l.p("end Pool.Gen.C17")
}
