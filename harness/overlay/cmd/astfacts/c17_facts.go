//go:build verif

package main

import (
	"fmt"
	"go/ast"
	"go/token"
	"strings"
)

func init() { jobs = append(jobs, job{props: []string{"C17"}, fn: genC17Facts}) }

// c17RPCCommit: values of lnd's lnrpc.CommitmentType enum (third party; the
// values the model uses are cross-checked against the compiled ones by the
// harness op `C17 consts`).
var c17RPCCommit = map[string]int{
	"lnrpc.CommitmentType_UNKNOWN_COMMITMENT_TYPE": 0,
	"lnrpc.CommitmentType_LEGACY":                  1,
	"lnrpc.CommitmentType_STATIC_REMOTE_KEY":       2,
	"lnrpc.CommitmentType_ANCHORS":                 3,
	"lnrpc.CommitmentType_SCRIPT_ENFORCED_LEASE":   4,
	"lnrpc.CommitmentType_SIMPLE_TAPROOT":          5,
	"lnrpc.CommitmentType_SIMPLE_TAPROOT_OVERLAY":  6,
}

// c17Squash collapses all whitespace of a printed expression.
func c17Squash(s string) string { return strings.Join(strings.Fields(s), " ") }

// c17Literal finds the first composite literal of the given (printed) type
// inside a function body and returns its ordered (field, expression) list.
func c17Literal(fd *ast.FuncDecl, typ string) [][2]string {
	var res [][2]string
	found := false
	ast.Inspect(fd.Body, func(n ast.Node) bool {
		if found {
			return false
		}
		cl, ok := n.(*ast.CompositeLit)
		if !ok || cl.Type == nil || exprString(cl.Type) != typ {
			return true
		}
		found = true
		for _, e := range cl.Elts {
			kv, ok := e.(*ast.KeyValueExpr)
			if !ok {
				fail("%s literal in %s: positional element", typ, fd.Name.Name)
				continue
			}
			res = append(res, [2]string{exprString(kv.Key), c17Squash(exprString(kv.Value))})
		}
		return false
	})
	if !found {
		fail("no %s literal in %s", typ, fd.Name.Name)
	}
	return res
}

func c17PairList(xs [][2]string) string {
	q := make([]string, len(xs))
	for i, x := range xs {
		q[i] = fmt.Sprintf("(%q, %q)", x[0], x[1])
	}
	return "[" + strings.Join(q, ", ") + "]"
}

// c17Cond translates a boolean condition over `ourOrder.ChannelType` /
// `theirOrder.ChannelType` into the generated Cond data type.
func c17Cond(ce *constEnv, ours, theirs string, e ast.Expr) string {
	switch x := e.(type) {
	case *ast.ParenExpr:
		return c17Cond(ce, ours, theirs, x.X)
	case *ast.UnaryExpr:
		if x.Op == token.NOT {
			return "(.not " + c17Cond(ce, ours, theirs, x.X) + ")"
		}
	case *ast.BinaryExpr:
		switch x.Op {
		case token.LOR:
			return "(.or " + c17Cond(ce, ours, theirs, x.X) + " " + c17Cond(ce, ours, theirs, x.Y) + ")"
		case token.LAND:
			return "(.and " + c17Cond(ce, ours, theirs, x.X) + " " + c17Cond(ce, ours, theirs, x.Y) + ")"
		case token.EQL, token.NEQ:
			l, r := x.X, x.Y
			if _, ok := l.(*ast.SelectorExpr); !ok {
				l, r = r, l
			}
			side := ""
			switch exprString(l) {
			case ours + ".ChannelType":
				side = ".ours"
			case theirs + ".ChannelType":
				side = ".theirs"
			}
			if id, ok := r.(*ast.Ident); ok && side != "" {
				if v, ok := ce.get(id.Name); ok {
					op := ".eq"
					if x.Op == token.NEQ {
						op = ".ne"
					}
					return fmt.Sprintf("(%s %s %s)", op, side, v.ExactString())
				}
			}
		}
	}
	return fmt.Sprintf("(.unknown %q)", c17Squash(exprString(e)))
}

// genC17Facts emits the source-derived data the C17 model and theorems use.
func genC17Facts() {
	l := newLean("C17Facts", "C17: channel-type enums, BaseSupplyUnit, the DetermineCommitmentType case table and "+
		"the field mappings of the composite literals that carry the funding parameters.")
	orderFiles := pkgFiles("order")
	ce := newConstEnv(orderFiles)

	l.p("namespace Pool.Gen.C17")
	l.p("def chanTypePeerDependent : Nat := %s", intConst(ce, "order", "ChannelTypePeerDependent"))
	l.p("def chanTypeScriptEnforced : Nat := %s", intConst(ce, "order", "ChannelTypeScriptEnforced"))
	l.p("def chanTypeSimpleTaproot : Nat := %s", intConst(ce, "order", "ChannelTypeSimpleTaproot"))
	l.p("def baseSupplyUnit : Nat := %s", intConst(ce, "order", "BaseSupplyUnit"))
	l.p("")

	// --- DetermineCommitmentType: tagless switch, one condition per case, `return <commit type>, <musig2>`
	l.p("inductive Side where | ours | theirs")
	l.p("deriving Repr, DecidableEq")
	l.p("inductive Cond where")
	l.p("  | eq (s : Side) (c : Nat) | ne (s : Side) (c : Nat) | and (a b : Cond) | or (a b : Cond) | not (a : Cond)")
	l.p("  | unknown (src : String)")
	l.p("deriving Repr, DecidableEq")
	l.p("/-- one `case` of the switch: condition (`none` = `default:`), returned lnrpc commitment type name, musig2 flag -/")
	l.p("structure DetCase where")
	l.p("  cond : Option Cond")
	l.p("  commit : Option Nat      -- lnrpc.CommitmentType value of the returned constant (`none` = not a known constant)")
	l.p("  musig2 : Option Bool     -- returned literal (`none` = not a literal)")
	l.p("  src : String")
	l.p("deriving Repr, DecidableEq")
	var cases []string
	fd := findFunc(orderFiles, "DetermineCommitmentType")
	if fd == nil || fd.Type.Params == nil || len(fd.Type.Params.List) == 0 {
		fail("order.DetermineCommitmentType not found")
	} else {
		var names []string
		for _, f := range fd.Type.Params.List {
			for _, n := range f.Names {
				names = append(names, n.Name)
			}
		}
		var sw *ast.SwitchStmt
		for _, st := range fd.Body.List {
			if s, ok := st.(*ast.SwitchStmt); ok {
				sw = s
			}
		}
		if len(names) != 2 || sw == nil || sw.Tag != nil || sw.Init != nil || len(fd.Body.List) != 1 {
			fail("order.DetermineCommitmentType: body is not a single tagless switch over two parameters")
		} else {
			for _, c := range sw.Body.List {
				cc := c.(*ast.CaseClause)
				cond := "none"
				if len(cc.List) == 1 {
					cond = "(some " + c17Cond(ce, names[0], names[1], cc.List[0]) + ")"
				} else if len(cc.List) > 1 {
					fail("DetermineCommitmentType: case with %d expressions", len(cc.List))
				}
				var ret *ast.ReturnStmt
				if len(cc.Body) == 1 {
					ret, _ = cc.Body[0].(*ast.ReturnStmt)
				}
				if ret == nil || len(ret.Results) != 2 {
					fail("DetermineCommitmentType: case body is not a single two-value return")
					continue
				}
				commit := "none"
				if v, ok := c17RPCCommit[exprString(ret.Results[0])]; ok {
					commit = fmt.Sprintf("(some %d)", v)
				}
				musig := "none"
				if s := exprString(ret.Results[1]); s == "true" || s == "false" {
					musig = "(some " + s + ")"
				}
				cases = append(cases, fmt.Sprintf("{ cond := %s, commit := %s, musig2 := %s, src := %q }",
					cond, commit, musig, c17Squash(exprString(ret.Results[0])+", "+exprString(ret.Results[1]))))
			}
		}
	}
	l.p("def detCases : List DetCase := [")
	l.p("  %s", strings.Join(cases, ",\n  "))
	l.p("]")
	l.p("")

	// --- composite literals carrying the funding parameters
	funding := pkgFiles("funding")
	if fd := findFunc(funding, "Manager.BatchChannelSetup"); fd != nil {
		l.p("/-- `lnrpc.OpenChannelRequest{…}` in `Manager.BatchChannelSetup` -/")
		l.p("def openChannelRequestFields : List (String × String) := %s", c17PairList(c17Literal(fd, "lnrpc.OpenChannelRequest")))
	} else {
		fail("funding.Manager.BatchChannelSetup not found")
	}
	if fd := findFunc(funding, "Manager.deriveFundingShim"); fd != nil {
		l.p("/-- `lnrpc.ChanPointShim{…}` in `Manager.deriveFundingShim` -/")
		l.p("def chanPointShimFields : List (String × String) := %s", c17PairList(c17Literal(fd, "lnrpc.ChanPointShim")))
		l.p("/-- `lnrpc.ChannelPoint{…}` in `Manager.deriveFundingShim` -/")
		l.p("def channelPointFields : List (String × String) := %s", c17PairList(c17Literal(fd, "lnrpc.ChannelPoint")))
	} else {
		fail("funding.Manager.deriveFundingShim not found")
	}
	if fd := findFunc(orderFiles, "ParseRPCServerBid"); fd != nil {
		l.p("/-- `Bid{…}` in `order.ParseRPCServerBid` (what the asker sees of the bid) -/")
		l.p("def parseServerBidFields : List (String × String) := %s", c17PairList(c17Literal(fd, "Bid")))
	} else {
		fail("order.ParseRPCServerBid not found")
	}
	auct := pkgFiles("auctioneer")
	if fd := findFunc(auct, "Client.SubmitOrder"); fd != nil {
		l.p("/-- `auctioneerrpc.ServerBid{…}` in `Client.SubmitOrder` (what the bidder sends) -/")
		l.p("def submitServerBidFields : List (String × String) := %s", c17PairList(c17Literal(fd, "auctioneerrpc.ServerBid")))
		l.p("/-- `auctioneerrpc.ServerAsk{…}` in `Client.SubmitOrder` -/")
		l.p("def submitServerAskFields : List (String × String) := %s", c17PairList(c17Literal(fd, "auctioneerrpc.ServerAsk")))
	} else {
		fail("auctioneer.Client.SubmitOrder not found")
	}
	root := pkgFiles(".")
	if fd := findFunc(root, "SidecarAcceptor.getSidecarAsOrder"); fd != nil {
		l.p("/-- `order.Bid{…}` in `SidecarAcceptor.getSidecarAsOrder` (the recipient's dummy bid) -/")
		l.p("def sidecarAsOrderFields : List (String × String) := %s", c17PairList(c17Literal(fd, "order.Bid")))
	} else {
		fail("SidecarAcceptor.getSidecarAsOrder not found")
	}
	l.p("end Pool.Gen.C17")
}
