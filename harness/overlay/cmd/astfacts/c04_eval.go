//go:build verif

package main

// Semantic helpers of the C04 fact extractors: a canonical printer for
// expressions (role names instead of local names, normalised comparisons,
// sorted && / || operands) and a small evaluator for straight-line decision
// code (local definitions, if / else-if chains, tagged and tagless switches,
// returns, calls into same-package helpers) so that decision TABLES are read
// off by evaluation on class representatives instead of by matching the
// shape of the source.

import (
	"fmt"
	"go/ast"
	"go/constant"
	"go/token"
	"sort"
	"strings"
)

// ---------------------------------------------------------------- canonical printing

func c04Flatten(e ast.Expr, op token.Token) []ast.Expr {
	for {
		p, ok := e.(*ast.ParenExpr)
		if !ok {
			break
		}
		e = p.X
	}
	if b, ok := e.(*ast.BinaryExpr); ok && b.Op == op {
		return append(c04Flatten(b.X, op), c04Flatten(b.Y, op)...)
	}
	return []ast.Expr{e}
}

// c04Canon prints e with identifiers renamed through roles, comparisons in
// the forms `a == b` / `a != b` (operands sorted) and `a < b` / `a <= b`,
// and the operands of && and || sorted.
func c04Canon(e ast.Expr, roles map[string]string) string {
	switch x := e.(type) {
	case nil:
		return ""
	case *ast.ParenExpr:
		return c04Canon(x.X, roles)
	case *ast.Ident:
		if r, ok := roles[x.Name]; ok {
			return r
		}
		return x.Name
	case *ast.BasicLit:
		return x.Value
	case *ast.SelectorExpr:
		return c04Canon(x.X, roles) + "." + x.Sel.Name
	case *ast.StarExpr:
		return "*" + c04Canon(x.X, roles)
	case *ast.UnaryExpr:
		if x.Op == token.NOT {
			// !(a == b) etc. are pushed inwards
			if b, ok := c04Unparen(x.X).(*ast.BinaryExpr); ok {
				neg := map[token.Token]token.Token{token.EQL: token.NEQ, token.NEQ: token.EQL, token.LSS: token.GEQ,
					token.GEQ: token.LSS, token.GTR: token.LEQ, token.LEQ: token.GTR}
				if n, ok := neg[b.Op]; ok {
					return c04Canon(&ast.BinaryExpr{X: b.X, Op: n, Y: b.Y}, roles)
				}
			}
			return "!(" + c04Canon(x.X, roles) + ")"
		}
		return x.Op.String() + c04Canon(x.X, roles)
	case *ast.BinaryExpr:
		switch x.Op {
		case token.LAND, token.LOR:
			parts := c04Flatten(x, x.Op)
			strs := make([]string, len(parts))
			for i, p := range parts {
				strs[i] = c04Canon(p, roles)
				if b, ok := c04Unparen(p).(*ast.BinaryExpr); ok && (b.Op == token.LAND || b.Op == token.LOR) {
					strs[i] = "(" + strs[i] + ")"
				}
			}
			sort.Strings(strs)
			return strings.Join(strs, " "+x.Op.String()+" ")
		case token.EQL, token.NEQ:
			a, b := c04Canon(x.X, roles), c04Canon(x.Y, roles)
			if b < a {
				a, b = b, a
			}
			return a + " " + x.Op.String() + " " + b
		case token.GTR:
			return c04Canon(x.Y, roles) + " < " + c04Canon(x.X, roles)
		case token.GEQ:
			return c04Canon(x.Y, roles) + " <= " + c04Canon(x.X, roles)
		}
		return c04Canon(x.X, roles) + " " + x.Op.String() + " " + c04Canon(x.Y, roles)
	case *ast.CallExpr:
		args := make([]string, len(x.Args))
		for i, a := range x.Args {
			args[i] = c04Canon(a, roles)
		}
		return c04Canon(x.Fun, roles) + "(" + strings.Join(args, ", ") + ")"
	case *ast.IndexExpr:
		return c04Canon(x.X, roles) + "[" + c04Canon(x.Index, roles) + "]"
	case *ast.CompositeLit:
		return strings.Join(strings.Fields(exprString(x)), " ")
	}
	return strings.Join(strings.Fields(exprString(e)), " ")
}

func c04Unparen(e ast.Expr) ast.Expr {
	for {
		p, ok := e.(*ast.ParenExpr)
		if !ok {
			return e
		}
		e = p.X
	}
}

// c04ParamNames returns the names of a function's parameters in order.
func c04ParamNames(ft *ast.FuncType) []string {
	var res []string
	if ft == nil || ft.Params == nil {
		return res
	}
	for _, f := range ft.Params.List {
		if len(f.Names) == 0 {
			res = append(res, "_")
		}
		for _, n := range f.Names {
			res = append(res, n.Name)
		}
	}
	return res
}

// c04LocalDefs maps every local that is defined exactly once by `x := e`
// (and never assigned again) to e.
func c04LocalDefs(body *ast.BlockStmt) map[string]ast.Expr {
	defs := map[string]ast.Expr{}
	count := map[string]int{}
	ast.Inspect(body, func(n ast.Node) bool {
		as, ok := n.(*ast.AssignStmt)
		if !ok {
			return true
		}
		for i, l := range as.Lhs {
			id, ok := l.(*ast.Ident)
			if !ok || id.Name == "_" {
				continue
			}
			count[id.Name]++
			if as.Tok == token.DEFINE && len(as.Lhs) == len(as.Rhs) {
				defs[id.Name] = as.Rhs[i]
			}
		}
		return true
	})
	for n, c := range count {
		if c != 1 {
			delete(defs, n)
		}
	}
	return defs
}

// c04Subst replaces identifiers that have a single local definition by that
// definition (recursively, bounded).
func c04Subst(e ast.Expr, defs map[string]ast.Expr, depth int) ast.Expr {
	if depth > 6 {
		return e
	}
	switch x := e.(type) {
	case *ast.Ident:
		if d, ok := defs[x.Name]; ok {
			return &ast.ParenExpr{X: c04Subst(d, defs, depth+1)}
		}
		return x
	case *ast.ParenExpr:
		return &ast.ParenExpr{X: c04Subst(x.X, defs, depth)}
	case *ast.UnaryExpr:
		return &ast.UnaryExpr{Op: x.Op, X: c04Subst(x.X, defs, depth)}
	case *ast.BinaryExpr:
		return &ast.BinaryExpr{X: c04Subst(x.X, defs, depth), Op: x.Op, Y: c04Subst(x.Y, defs, depth)}
	case *ast.CallExpr:
		args := make([]ast.Expr, len(x.Args))
		for i, a := range x.Args {
			args[i] = c04Subst(a, defs, depth)
		}
		return &ast.CallExpr{Fun: x.Fun, Args: args}
	}
	return e
}

// ---------------------------------------------------------------- evaluator

type c04V struct {
	k byte // 'i' integer, 'b' bool, 's' symbolic (canonical text)
	i int64
	b bool
	s string
}

func c04Int(i int64) c04V  { return c04V{k: 'i', i: i} }
func c04Bool(b bool) c04V  { return c04V{k: 'b', b: b} }
func c04Sym(s string) c04V { return c04V{k: 's', s: s} }

func (v c04V) String() string {
	switch v.k {
	case 'i':
		return fmt.Sprintf("%d", v.i)
	case 'b':
		return fmt.Sprintf("%v", v.b)
	}
	return v.s
}

type c04Ev struct {
	ce    *constEnv
	files []*ast.File
	vars  map[string]c04V // locals and parameters
	sel   map[string]c04V // values of selector expressions such as "account.Version"
	roles map[string]string
	depth int
	bad   string // first unsupported construct met
	arith bool   // an arithmetic operator was evaluated
}

func (ev *c04Ev) fail(format string, a ...interface{}) {
	if ev.bad == "" {
		ev.bad = fmt.Sprintf(format, a...)
	}
}

var c04ConvNames = map[string]bool{"uint8": true, "uint16": true, "uint32": true, "uint64": true, "int": true,
	"int8": true, "int16": true, "int32": true, "int64": true, "uint": true}

func (ev *c04Ev) expr(e ast.Expr) c04V {
	switch x := e.(type) {
	case *ast.ParenExpr:
		return ev.expr(x.X)
	case *ast.BasicLit:
		v := constant.MakeFromLiteral(x.Value, x.Kind, 0)
		if i, ok := constant.Int64Val(constant.ToInt(v)); ok && v.Kind() == constant.Int {
			return c04Int(i)
		}
		return c04Sym(x.Value)
	case *ast.Ident:
		if v, ok := ev.vars[x.Name]; ok {
			return v
		}
		switch x.Name {
		case "true":
			return c04Bool(true)
		case "false":
			return c04Bool(false)
		case "nil":
			return c04Sym("nil")
		}
		if cv, ok := ev.ce.get(x.Name); ok && cv.Kind() == constant.Int {
			if i, ok := constant.Int64Val(cv); ok {
				return c04Int(i)
			}
		}
		return c04Sym(c04Canon(x, ev.roles))
	case *ast.SelectorExpr:
		if v, ok := ev.sel[exprString(x)]; ok {
			return v
		}
		return c04Sym(c04Canon(x, ev.roles))
	case *ast.UnaryExpr:
		v := ev.expr(x.X)
		if x.Op == token.NOT {
			if v.k == 'b' {
				return c04Bool(!v.b)
			}
			return c04Sym("!(" + v.String() + ")")
		}
		if x.Op == token.SUB && v.k == 'i' {
			return c04Int(-v.i)
		}
		return c04Sym(c04Canon(x, ev.roles))
	case *ast.BinaryExpr:
		a, b := ev.expr(x.X), ev.expr(x.Y)
		switch x.Op {
		case token.LAND:
			if (a.k == 'b' && !a.b) || (b.k == 'b' && !b.b) {
				return c04Bool(false)
			}
			if a.k == 'b' && b.k == 'b' {
				return c04Bool(true)
			}
			if a.k == 'b' {
				return b
			}
			if b.k == 'b' {
				return a
			}
			ps := []string{a.String(), b.String()}
			sort.Strings(ps)
			return c04Sym(ps[0] + " && " + ps[1])
		case token.LOR:
			if (a.k == 'b' && a.b) || (b.k == 'b' && b.b) {
				return c04Bool(true)
			}
			if a.k == 'b' && b.k == 'b' {
				return c04Bool(false)
			}
			if a.k == 'b' {
				return b
			}
			if b.k == 'b' {
				return a
			}
			ps := []string{a.String(), b.String()}
			sort.Strings(ps)
			return c04Sym("(" + ps[0] + " || " + ps[1] + ")")
		case token.EQL, token.NEQ, token.LSS, token.LEQ, token.GTR, token.GEQ:
			if a.k == 'i' && b.k == 'i' {
				r := map[token.Token]bool{token.EQL: a.i == b.i, token.NEQ: a.i != b.i, token.LSS: a.i < b.i,
					token.LEQ: a.i <= b.i, token.GTR: a.i > b.i, token.GEQ: a.i >= b.i}[x.Op]
				return c04Bool(r)
			}
			if a.k == 's' && b.k == 's' && (x.Op == token.EQL || x.Op == token.NEQ) &&
				c04IsConstName(a.s) && c04IsConstName(b.s) {
				// two named constants / enum values: equal iff the same name
				return c04Bool((a.s == b.s) == (x.Op == token.EQL))
			}
			if a.k == 'b' && b.k == 'b' && (x.Op == token.EQL || x.Op == token.NEQ) {
				return c04Bool((a.b == b.b) == (x.Op == token.EQL))
			}
			if x.Op == token.EQL || x.Op == token.NEQ {
				if eq, ok := c04NilCmp(a, b); ok {
					return c04Bool(eq == (x.Op == token.EQL))
				}
			}
			return c04Sym(c04CanonCmp(a.String(), x.Op, b.String()))
		case token.ADD, token.SUB, token.MUL:
			ev.arith = true
			if a.k == 'i' && b.k == 'i' {
				switch x.Op {
				case token.ADD:
					return c04Int(a.i + b.i)
				case token.SUB:
					return c04Int(a.i - b.i)
				default:
					return c04Int(a.i * b.i)
				}
			}
		}
		return c04Sym(a.String() + " " + x.Op.String() + " " + b.String())
	case *ast.CallExpr:
		if ret, ok := ev.call(x); ok && len(ret) > 0 {
			return ret[0]
		}
		return c04Sym(c04Canon(x, ev.roles))
	}
	return c04Sym(c04Canon(e, ev.roles))
}

// call evaluates a conversion, a same-package function or a method of a
// same-package type (any receiver) by inlining its body; all results are
// returned.
func (ev *c04Ev) call(x *ast.CallExpr) ([]c04V, bool) {
	if id, ok := x.Fun.(*ast.Ident); ok {
		if (c04ConvNames[id.Name] || id.Name == "Version" || id.Name == "State" || id.Name == "witnessType") &&
			len(x.Args) == 1 {
			return []c04V{ev.expr(x.Args[0])}, true
		}
		if fd := findFunc(ev.files, id.Name); fd != nil && fd.Body != nil && ev.depth < 3 {
			return ev.inline(fd, nil, x.Args)
		}
		return nil, false
	}
	se, ok := x.Fun.(*ast.SelectorExpr)
	if !ok || ev.depth >= 3 {
		return nil, false
	}
	rid, ok := c04Unparen(se.X).(*ast.Ident)
	if !ok {
		return nil, false
	}
	if _, known := ev.vars[rid.Name]; !known {
		hasSel := false
		for k := range ev.sel {
			hasSel = hasSel || strings.HasPrefix(k, rid.Name+".")
		}
		if !hasSel {
			return nil, false
		}
	}
	for _, f := range ev.files {
		for _, d := range f.Decls {
			fd, ok := d.(*ast.FuncDecl)
			if !ok || fd.Recv == nil || fd.Body == nil || fd.Name.Name != se.Sel.Name {
				continue
			}
			if len(c04ParamNames(fd.Type)) != len(x.Args) {
				continue
			}
			if ret, ok := ev.inline(fd, rid, x.Args); ok {
				return ret, true
			}
		}
	}
	return nil, false
}

func (ev *c04Ev) inline(fd *ast.FuncDecl, recv *ast.Ident, args []ast.Expr) ([]c04V, bool) {
	names := c04ParamNames(fd.Type)
	if len(names) != len(args) {
		return nil, false
	}
	sub := &c04Ev{ce: ev.ce, files: ev.files, vars: map[string]c04V{}, sel: map[string]c04V{},
		roles: ev.roles, depth: ev.depth + 1}
	pass := func(from *ast.Ident, to string) {
		if v, ok := ev.vars[from.Name]; ok {
			sub.vars[to] = v
		}
		for k, sv := range ev.sel {
			if strings.HasPrefix(k, from.Name+".") {
				sub.sel[to+k[len(from.Name):]] = sv
			}
		}
	}
	if recv != nil {
		rn := c04RecvNameOf(fd)
		if rn == "" {
			return nil, false
		}
		pass(recv, rn)
	}
	for i, a := range args {
		sub.vars[names[i]] = ev.expr(a)
		if aid, ok := c04Unparen(a).(*ast.Ident); ok {
			pass(aid, names[i])
		}
	}
	ret, ok := sub.stmts(fd.Body.List)
	ev.arith = ev.arith || sub.arith
	if sub.bad != "" || !ok {
		return nil, false
	}
	return ret, true
}

func c04RecvNameOf(fd *ast.FuncDecl) string {
	if fd.Recv != nil && len(fd.Recv.List) == 1 && len(fd.Recv.List[0].Names) == 1 {
		return fd.Recv.List[0].Names[0].Name
	}
	return ""
}

// c04NilCmp decides `x == nil` / `x != nil` for symbolic values: the literal
// nil, or a freshly constructed value (a call) which is not nil.
func c04NilCmp(a, b c04V) (equal, ok bool) {
	if a.k != 's' || b.k != 's' || (a.s != "nil" && b.s != "nil") {
		return false, false
	}
	if a.s == "nil" && b.s == "nil" {
		return true, true
	}
	other := a.s
	if other == "nil" {
		other = b.s
	}
	if strings.Contains(other, "(") {
		return false, true
	}
	return false, false
}

func c04IsConstName(s string) bool {
	if s == "" || strings.ContainsAny(s, " ()$!<>=&|") {
		return false
	}
	// a (possibly qualified) identifier starting with a letter
	c := s[0]
	return (c >= 'a' && c <= 'z') || (c >= 'A' && c <= 'Z')
}

func c04CanonCmp(a string, op token.Token, b string) string {
	switch op {
	case token.EQL, token.NEQ:
		if b < a {
			a, b = b, a
		}
		return a + " " + op.String() + " " + b
	case token.GTR:
		return b + " < " + a
	case token.GEQ:
		return b + " <= " + a
	}
	return a + " " + op.String() + " " + b
}

// stmts executes a statement list; it returns the values of the `return` it
// reached (ok = true) or ok = false when it fell through the end.
func (ev *c04Ev) stmts(list []ast.Stmt) ([]c04V, bool) {
	for _, st := range list {
		if ret, ok := ev.stmt(st); ok {
			return ret, true
		}
		if ev.bad != "" {
			return nil, false
		}
	}
	return nil, false
}

func (ev *c04Ev) stmt(st ast.Stmt) ([]c04V, bool) {
	switch x := st.(type) {
	case *ast.BlockStmt:
		return ev.stmts(x.List)
	case *ast.ExprStmt, *ast.EmptyStmt:
		return nil, false // calls for effect (logging …) carry no decision
	case *ast.DeclStmt:
		if gd, ok := x.Decl.(*ast.GenDecl); ok {
			for _, sp := range gd.Specs {
				if vs, ok := sp.(*ast.ValueSpec); ok {
					for i, n := range vs.Names {
						if i < len(vs.Values) {
							ev.vars[n.Name] = ev.expr(vs.Values[i])
						} else {
							ev.vars[n.Name] = c04Int(0)
						}
					}
				}
			}
		}
		return nil, false
	case *ast.AssignStmt:
		if len(x.Lhs) == len(x.Rhs) {
			for i, l := range x.Lhs {
				if id, ok := l.(*ast.Ident); ok {
					ev.vars[id.Name] = ev.expr(x.Rhs[i])
				} else if se, ok := l.(*ast.SelectorExpr); ok {
					ev.sel[exprString(se)] = ev.expr(x.Rhs[i])
				}
			}
		} else {
			var ret []c04V
			if c, ok := c04Unparen(x.Rhs[0]).(*ast.CallExpr); ok && len(x.Rhs) == 1 {
				if r, ok := ev.call(c); ok && len(r) == len(x.Lhs) {
					ret = r
				}
			}
			for i, l := range x.Lhs {
				if id, ok := l.(*ast.Ident); ok {
					if ret != nil {
						ev.vars[id.Name] = ret[i]
					} else {
						ev.vars[id.Name] = c04Sym("?" + id.Name)
					}
				}
			}
		}
		return nil, false
	case *ast.ReturnStmt:
		var res []c04V
		for _, r := range x.Results {
			res = append(res, ev.expr(r))
		}
		return res, true
	case *ast.IfStmt:
		if x.Init != nil {
			if ret, ok := ev.stmt(x.Init); ok {
				return ret, true
			}
		}
		c := ev.expr(x.Cond)
		if c.k != 'b' {
			ev.fail("condition %q not decidable", c.String())
			return nil, false
		}
		if c.b {
			return ev.stmts(x.Body.List)
		}
		if x.Else != nil {
			return ev.stmt(x.Else)
		}
		return nil, false
	case *ast.SwitchStmt:
		if x.Init != nil {
			if ret, ok := ev.stmt(x.Init); ok {
				return ret, true
			}
		}
		var tag *c04V
		if x.Tag != nil {
			t := ev.expr(x.Tag)
			tag = &t
		}
		var deflt *ast.CaseClause
		for _, c := range x.Body.List {
			cc := c.(*ast.CaseClause)
			if cc.List == nil {
				deflt = cc
				continue
			}
			for _, ce := range cc.List {
				v := ev.expr(ce)
				hit := false
				if tag == nil {
					if v.k != 'b' {
						ev.fail("case %q not decidable", v.String())
						return nil, false
					}
					hit = v.b
				} else {
					switch {
					case tag.k == 'i' && v.k == 'i':
						hit = tag.i == v.i
					case tag.k == 's' && v.k == 's' && c04IsConstName(tag.s) && c04IsConstName(v.s):
						hit = tag.s == v.s
					default:
						ev.fail("switch %q case %q not decidable", tag.String(), v.String())
						return nil, false
					}
				}
				if hit {
					return ev.stmts(cc.Body)
				}
			}
		}
		if deflt != nil {
			return ev.stmts(deflt.Body)
		}
		return nil, false
	}
	ev.fail("unsupported statement %T", st)
	return nil, false
}

// c04HasArith reports whether a function body contains an arithmetic operator.
func c04HasArith(body *ast.BlockStmt) bool {
	found := false
	ast.Inspect(body, func(n ast.Node) bool {
		if b, ok := n.(*ast.BinaryExpr); ok {
			switch b.Op {
			case token.ADD, token.SUB, token.MUL, token.QUO, token.REM, token.SHL, token.SHR:
				found = true
			}
		}
		return true
	})
	return found
}
