//go:build verif

package main

import (
	"fmt"
	"go/ast"
	"go/printer"
	"go/token"
	"strings"
)

func init() { jobs = append(jobs, job{props: []string{"C04"}, fn: genC04}) }

// c04BuilderCalls returns the ordered (method, first-argument expression)
// list of the `builder.<Method>(<arg>)` statements of a function body.
func c04BuilderCalls(fd *ast.FuncDecl, what string) [][2]string {
	var res [][2]string
	if fd == nil {
		fail("C04: function %s not found", what)
		return nil
	}
	ast.Inspect(fd.Body, func(n ast.Node) bool {
		es, ok := n.(*ast.ExprStmt)
		if !ok {
			return true
		}
		call, ok := es.X.(*ast.CallExpr)
		if !ok {
			return true
		}
		sel, ok := call.Fun.(*ast.SelectorExpr)
		if !ok {
			return true
		}
		id, ok := sel.X.(*ast.Ident)
		if !ok || id.Name != "builder" {
			return true
		}
		arg := ""
		if len(call.Args) == 1 {
			arg = exprString(call.Args[0])
		} else {
			fail("C04: %s: builder.%s with %d args", what, sel.Sel.Name, len(call.Args))
		}
		res = append(res, [2]string{sel.Sel.Name, arg})
		return true
	})
	if len(res) == 0 {
		fail("C04: no builder calls found in %s", what)
	}
	return res
}

func c04Pairs(xs [][2]string) string {
	q := make([]string, len(xs))
	for i, x := range xs {
		q[i] = fmt.Sprintf("(%q, %q)", x[0], x[1])
	}
	return "[" + strings.Join(q, ", ") + "]"
}

// c04WitnessLayout returns the element expressions of
// `witness := make(wire.TxWitness, N); witness[i] = <expr>`.
func c04WitnessLayout(fd *ast.FuncDecl, what string) []string {
	if fd == nil {
		fail("C04: function %s not found", what)
		return nil
	}
	n := -1
	elems := map[int]string{}
	for _, st := range fd.Body.List {
		as, ok := st.(*ast.AssignStmt)
		if !ok || len(as.Lhs) != 1 || len(as.Rhs) != 1 {
			continue
		}
		if id, ok := as.Lhs[0].(*ast.Ident); ok && id.Name == "witness" {
			call, ok := as.Rhs[0].(*ast.CallExpr)
			if ok && len(call.Args) == 2 && exprString(call.Fun) == "make" {
				if lit, ok := call.Args[1].(*ast.BasicLit); ok {
					fmt.Sscanf(lit.Value, "%d", &n)
				}
			}
			continue
		}
		if ix, ok := as.Lhs[0].(*ast.IndexExpr); ok {
			if id, ok := ix.X.(*ast.Ident); ok && id.Name == "witness" {
				if lit, ok := ix.Index.(*ast.BasicLit); ok {
					var i int
					fmt.Sscanf(lit.Value, "%d", &i)
					elems[i] = exprString(as.Rhs[0])
				}
			}
		}
	}
	if n < 0 || len(elems) != n {
		fail("C04: %s: witness layout not recognised (n=%d, %d elems)", what, n, len(elems))
		return nil
	}
	res := make([]string, n)
	for i := 0; i < n; i++ {
		e, ok := elems[i]
		if !ok {
			fail("C04: %s: witness[%d] not assigned", what, i)
		}
		res[i] = e
	}
	return res
}

func c04FlattenOr(e ast.Expr) []string {
	if p, ok := e.(*ast.ParenExpr); ok {
		return c04FlattenOr(p.X)
	}
	if b, ok := e.(*ast.BinaryExpr); ok && b.Op == token.LOR {
		return append(c04FlattenOr(b.X), c04FlattenOr(b.Y)...)
	}
	if c, ok := e.(*ast.CallExpr); ok {
		s := exprString(c.Fun)
		if i := strings.LastIndex(s, "."); i >= 0 {
			s = s[i+1:]
		}
		return []string{s}
	}
	return []string{"?" + exprString(e)}
}

func c04CaseNames(cc *ast.CaseClause) []string {
	var res []string
	for _, e := range cc.List {
		res = append(res, exprString(e))
	}
	return res
}

func c04ListOfLists(xs [][]string) string {
	q := make([]string, len(xs))
	for i, x := range xs {
		q[i] = leanStrList(x)
	}
	return "[" + strings.Join(q, ", ") + "]"
}

// c04SwitchReturnTable: `switch <tag> { case A, B: return X ... default: return Y }`
// → rows (case names, returned expression); default has no names.
func c04SwitchReturnTable(fd *ast.FuncDecl, what string) (rows [][]string, rets []string) {
	if fd == nil {
		fail("C04: function %s not found", what)
		return
	}
	var sw *ast.SwitchStmt
	for _, st := range fd.Body.List {
		if s, ok := st.(*ast.SwitchStmt); ok {
			sw = s
			break
		}
	}
	if sw == nil {
		fail("C04: %s: no switch", what)
		return
	}
	for _, c := range sw.Body.List {
		cc := c.(*ast.CaseClause)
		ret := ""
		for _, st := range cc.Body {
			if r, ok := st.(*ast.ReturnStmt); ok && len(r.Results) >= 1 {
				ret = exprString(r.Results[0])
			}
		}
		if ret == "" {
			fail("C04: %s: case without return", what)
		}
		rows = append(rows, c04CaseNames(cc))
		rets = append(rets, ret)
	}
	return
}

func c04NodeString(n ast.Node) string {
	var sb strings.Builder
	printer.Fprint(&sb, fset, n)
	return sb.String()
}

// c04WalkConds visits every node of a body together with the conditions of
// the enclosing `if` statements and `case` clauses (outermost first).
func c04WalkConds(n ast.Node, conds []string, visit func(ast.Node, []string)) {
	switch x := n.(type) {
	case nil:
		return
	case *ast.BlockStmt:
		for _, st := range x.List {
			c04WalkConds(st, conds, visit)
		}
	case *ast.IfStmt:
		if x.Init != nil {
			c04WalkConds(x.Init, conds, visit)
		}
		cond := strings.Join(strings.Fields(exprString(x.Cond)), " ")
		c04WalkConds(x.Body, append(append([]string{}, conds...), cond), visit)
		if x.Else != nil {
			c04WalkConds(x.Else, append(append([]string{}, conds...), "!("+cond+")"), visit)
		}
	case *ast.SwitchStmt:
		tag := ""
		if x.Tag != nil {
			tag = exprString(x.Tag)
		}
		for _, c := range x.Body.List {
			cc := c.(*ast.CaseClause)
			var names []string
			for _, e := range cc.List {
				names = append(names, exprString(e))
			}
			label := "switch " + tag + " default"
			if cc.List != nil {
				label = "switch " + tag + " case " + strings.Join(names, ",")
			}
			for _, st := range cc.Body {
				c04WalkConds(st, append(append([]string{}, conds...), label), visit)
			}
		}
	case *ast.ForStmt:
		c04WalkConds(x.Body, conds, visit)
	case *ast.RangeStmt:
		c04WalkConds(x.Body, conds, visit)
	default:
		visit(n, conds)
		ast.Inspect(n, func(m ast.Node) bool {
			if m == nil || m == n {
				return true
			}
			if _, isFn := m.(*ast.FuncLit); isFn {
				return false
			}
			visit(m, conds)
			return true
		})
	}
}

func genC04() {
	l := newLean("C04Facts", "C04: script builder call lists, witness layouts, classifier order, "+
		"witness-type tables and size constants read from poolscript/script.go and account/manager.go.")
	l.p("namespace Pool.Gen.C04")

	ps := pkgFiles("poolscript")
	acct := pkgFiles("account")

	// --- script builder call sequences ---------------------------------
	l.p("/-- ordered `builder.<Method>(<arg>)` calls of poolscript.accountWitnessScript -/")
	l.p("def accountWitnessScriptCalls : List (String × String) := %s",
		c04Pairs(c04BuilderCalls(findFunc(ps, "accountWitnessScript"), "accountWitnessScript")))
	l.p("/-- ordered builder calls of poolscript.TaprootExpiryScript -/")
	l.p("def taprootExpiryScriptCalls : List (String × String) := %s",
		c04Pairs(c04BuilderCalls(findFunc(ps, "TaprootExpiryScript"), "TaprootExpiryScript")))

	// --- size constants ---------------------------------------------------
	ce := newConstEnv(ps)
	for _, n := range []string{"MaxWitnessSigLen", "AccountWitnessScriptSize", "MultiSigWitnessSize",
		"ExpiryWitnessSize", "TaprootMultiSigWitnessSize", "TaprootExpiryScriptSize",
		"TaprootExpiryWitnessSize"} {
		l.p("def %s : Nat := %s", n, intConst(ce, "poolscript", n))
	}
	// local const minScriptLen = TaprootExpiryScriptSize - 3 in IsTaprootExpirySpend
	minLen := ""
	if fd := findFunc(ps, "IsTaprootExpirySpend"); fd != nil {
		ast.Inspect(fd.Body, func(n ast.Node) bool {
			vs, ok := n.(*ast.ValueSpec)
			if ok && len(vs.Names) == 1 && vs.Names[0].Name == "minScriptLen" && len(vs.Values) == 1 {
				if v, ok := ce.eval(vs.Values[0], 0); ok {
					minLen = v.ExactString()
				}
			}
			return true
		})
	}
	if minLen == "" {
		fail("C04: IsTaprootExpirySpend.minScriptLen not found")
		minLen = "0"
	}
	l.p("def taprootExpiryMinScriptLen : Nat := %s", minLen)

	// --- witness layouts --------------------------------------------------
	for _, fn := range []string{"SpendMultiSig", "SpendExpiry", "SpendMuSig2Taproot", "SpendExpiryTaproot"} {
		lay := c04WitnessLayout(findFunc(ps, fn), fn)
		name := strings.ToLower(fn[:1]) + fn[1:] + "Layout"
		l.p("def %s : List String := %s", name, leanStrList(lay))
	}

	// --- HandleAccountSpend classification order ------------------------
	var cases [][]string
	if fd := findFunc(acct, "manager.HandleAccountSpend"); fd != nil {
		var sw *ast.SwitchStmt
		for _, st := range fd.Body.List {
			if s, ok := st.(*ast.SwitchStmt); ok && s.Tag == nil {
				sw = s
				break
			}
		}
		if sw == nil {
			fail("C04: HandleAccountSpend: tagless switch not found")
		} else {
			for _, c := range sw.Body.List {
				cc := c.(*ast.CaseClause)
				if cc.List == nil {
					cases = append(cases, []string{})
					continue
				}
				if len(cc.List) != 1 {
					fail("C04: HandleAccountSpend: case with %d exprs", len(cc.List))
					continue
				}
				cases = append(cases, c04FlattenOr(cc.List[0]))
			}
		}
	} else {
		fail("C04: manager.HandleAccountSpend not found")
	}
	l.p("/-- the `switch {…}` of manager.HandleAccountSpend: per case the `||`-ed classifier calls; [] = default -/")
	l.p("def handleAccountSpendCases : List (List String) := %s", c04ListOfLists(cases))

	// --- witnessType enum and tables --------------------------------------
	ace := newConstEnv(acct)
	var wtNames []string
	for _, n := range []string{"expiryWitness", "multiSigWitness", "expiryTaproot", "muSig2Taproot"} {
		wtNames = append(wtNames, fmt.Sprintf("(%q, %s)", n, intConst(ace, "account", n)))
	}
	l.p("def witnessTypeValues : List (String × Nat) := [%s]", strings.Join(wtNames, ", "))

	var vNames []string
	for _, n := range []string{"VersionInitialNoVersion", "VersionTaprootEnabled", "VersionMuSig2V100RC2"} {
		vNames = append(vNames, fmt.Sprintf("(%q, %s)", n, intConst(ace, "account", n)))
	}
	l.p("def accountVersionValues : List (String × Nat) := [%s]", strings.Join(vNames, ", "))
	l.p("def stateExpired : Nat := %s", intConst(ace, "account", "StateExpired"))

	emitTable := func(name, doc string, rows [][]string, rets []string) {
		q := make([]string, len(rows))
		for i := range rows {
			q[i] = fmt.Sprintf("(%s, %q)", leanStrList(rows[i]), rets[i])
		}
		l.p("/-- %s -/", doc)
		l.p("def %s : List (List String × String) := [%s]", name, strings.Join(q, ", "))
	}
	rows, rets := c04SwitchReturnTable(findFunc(acct, "witnessType.witnessSize"), "witnessType.witnessSize")
	emitTable("witnessSizeTable", "witnessType.witnessSize: case names → returned constant ([] = default)", rows, rets)
	rows, rets = c04SwitchReturnTable(findFunc(acct, "witnessType.IsExpirySpend"), "witnessType.IsExpirySpend")
	emitTable("witnessTypeIsExpiryTable", "witnessType.IsExpirySpend", rows, rets)
	rows, rets = c04SwitchReturnTable(findFunc(acct, "Version.ScriptVersion"), "Version.ScriptVersion")
	emitTable("scriptVersionTable", "account.Version.ScriptVersion", rows, rets)

	// --- determineWitnessType ---------------------------------------------
	// switch account.Version { case …: if <cond> { return A }; return B  default: idem }
	{
		fd := findFunc(acct, "determineWitnessType")
		var out []string
		if fd == nil {
			fail("C04: determineWitnessType not found")
		} else {
			var sw *ast.SwitchStmt
			for _, st := range fd.Body.List {
				if s, ok := st.(*ast.SwitchStmt); ok {
					sw = s
				}
			}
			if sw == nil || exprString(sw.Tag) != "account.Version" {
				fail("C04: determineWitnessType: switch on account.Version not found")
			} else {
				for _, c := range sw.Body.List {
					cc := c.(*ast.CaseClause)
					if len(cc.Body) != 2 {
						fail("C04: determineWitnessType: unexpected case body (%d stmts)", len(cc.Body))
						continue
					}
					ifs, ok1 := cc.Body[0].(*ast.IfStmt)
					ret, ok2 := cc.Body[1].(*ast.ReturnStmt)
					if !ok1 || !ok2 || ifs.Else != nil || ifs.Init != nil || len(ifs.Body.List) != 1 {
						fail("C04: determineWitnessType: case body is not `if c {return a}; return b`")
						continue
					}
					r1, ok := ifs.Body.List[0].(*ast.ReturnStmt)
					if !ok || len(r1.Results) != 1 || len(ret.Results) != 1 {
						fail("C04: determineWitnessType: returns not recognised")
						continue
					}
					cond := strings.Join(strings.Fields(exprString(ifs.Cond)), " ")
					out = append(out, fmt.Sprintf("(%s, %q, %q, %q)", leanStrList(c04CaseNames(cc)), cond,
						exprString(r1.Results[0]), exprString(ret.Results[0])))
				}
			}
		}
		l.p("/-- determineWitnessType: (version case names ([] = default), condition, result if condition, result otherwise) -/")
		l.p("def determineWitnessTypeTable : List (List String × String × String × String) := [%s]",
			strings.Join(out, ", "))
	}

	// --- spendAccount lock time ---------------------------------------------
	// switch witnessType { case …: [if action != CLOSE {return err}] lockTime = X … }
	{
		fd := findFunc(acct, "manager.spendAccount")
		var out []string
		found := false
		if fd == nil {
			fail("C04: manager.spendAccount not found")
		} else {
			for _, st := range fd.Body.List {
				sw, ok := st.(*ast.SwitchStmt)
				if !ok || sw.Tag == nil || exprString(sw.Tag) != "witnessType" {
					continue
				}
				found = true
				for _, c := range sw.Body.List {
					cc := c.(*ast.CaseClause)
					rhs := ""
					guard := ""
					for _, s := range cc.Body {
						if as, ok := s.(*ast.AssignStmt); ok && len(as.Lhs) == 1 &&
							exprString(as.Lhs[0]) == "lockTime" && as.Tok == token.ASSIGN {
							rhs = exprString(as.Rhs[0])
						}
						if ifs, ok := s.(*ast.IfStmt); ok {
							guard = exprString(ifs.Cond)
						}
					}
					if cc.List == nil {
						rhs = "error"
					}
					if rhs == "" {
						fail("C04: spendAccount: case %v without lockTime assignment", c04CaseNames(cc))
					}
					out = append(out, fmt.Sprintf("(%s, %q, %q)", leanStrList(c04CaseNames(cc)), rhs, guard))
				}
			}
			if !found {
				fail("C04: spendAccount: switch witnessType not found")
			}
		}
		l.p("/-- spendAccount: (witness type case names, expression assigned to lockTime, error guard) -/")
		l.p("def spendAccountLockTimeTable : List (List String × String × String) := [%s]", strings.Join(out, ", "))
	}

	// --- RenewAccount: spendWitnessType := A; if <cond> { spendWitnessType = B } ---------
	{
		fd := findFunc(acct, "manager.RenewAccount")
		dflt, cond, thn := "", "", ""
		if fd == nil {
			fail("C04: manager.RenewAccount not found")
		} else {
			for i, st := range fd.Body.List {
				as, ok := st.(*ast.AssignStmt)
				if !ok || as.Tok != token.DEFINE || len(as.Lhs) != 1 || exprString(as.Lhs[0]) != "spendWitnessType" {
					continue
				}
				dflt = exprString(as.Rhs[0])
				if i+1 < len(fd.Body.List) {
					if ifs, ok := fd.Body.List[i+1].(*ast.IfStmt); ok && ifs.Else == nil && len(ifs.Body.List) == 1 {
						if as2, ok := ifs.Body.List[0].(*ast.AssignStmt); ok && len(as2.Lhs) == 1 &&
							exprString(as2.Lhs[0]) == "spendWitnessType" {
							cond = strings.Join(strings.Fields(exprString(ifs.Cond)), " ")
							thn = exprString(as2.Rhs[0])
						}
					}
				}
			}
			if dflt == "" || cond == "" || thn == "" {
				fail("C04: RenewAccount: spendWitnessType rule not recognised")
			}
		}
		l.p("/-- RenewAccount: (default witness type, condition, witness type if the condition holds) -/")
		l.p("def renewWitnessTypeRule : String × String × String := (%q, %q, %q)", dflt, cond, thn)
	}

	// --- which expression chooses the witness type in each account-spending RPC ----------
	{
		var rows []string
		for _, fn := range []string{"CloseAccount", "DepositAccount", "WithdrawAccount", "RenewAccount"} {
			fd := findFunc(acct, "manager."+fn)
			src := ""
			if fd != nil {
				ast.Inspect(fd.Body, func(n ast.Node) bool {
					as, ok := n.(*ast.AssignStmt)
					if ok && as.Tok == token.DEFINE && len(as.Lhs) == 1 && exprString(as.Lhs[0]) == "spendWitnessType" && src == "" {
						src = exprString(as.Rhs[0])
					}
					return true
				})
			}
			if src == "" {
				fail("C04: %s: spendWitnessType definition not found", fn)
			}
			rows = append(rows, fmt.Sprintf("(%q, %q)", fn, src))
		}
		l.p("/-- the expression that defines `spendWitnessType` in each account-spending manager method -/")
		l.p("def spendWitnessTypeSource : List (String × String) := [%s]", strings.Join(rows, ", "))
	}

	// --- account.Modifier bodies (account/interfaces.go) ---------------------------------
	{
		var rows []string
		for _, fn := range []string{"StateModifier", "ValueModifier", "ExpiryModifier", "IncrementBatchKey",
			"OutPointModifier", "HeightHintModifier", "LatestTxModifier", "VersionModifier"} {
			fd := findFunc(acct, fn)
			var stmts []string
			found := false
			if fd != nil {
				for _, st := range fd.Body.List {
					ret, ok := st.(*ast.ReturnStmt)
					if !ok || len(ret.Results) != 1 {
						// anything besides `return func…` is part of the behaviour too
						stmts = append(stmts, "outer: "+strings.Join(strings.Fields(c04NodeString(st)), " "))
						continue
					}
					fl, ok := ret.Results[0].(*ast.FuncLit)
					if !ok {
						continue
					}
					found = true
					for _, b := range fl.Body.List {
						stmts = append(stmts, strings.Join(strings.Fields(c04NodeString(b)), " "))
					}
				}
			}
			if !found {
				fail("C04: modifier %s not recognised", fn)
			}
			rows = append(rows, fmt.Sprintf("(%q, %s)", fn, leanStrList(stmts)))
		}
		l.p("/-- statements of the closure each account.Modifier constructor returns -/")
		l.p("def modifierBodies : List (String × List String) := [%s]", strings.Join(rows, ", "))
	}

	// --- what the batch storer stages for a re-created account vs what the verifier applied ---------
	{
		ord := pkgFiles("order")
		var storer, verifier []string
		if fd := findFunc(ord, "batchStorer.StorePendingBatch"); fd != nil {
			c04WalkConds(fd.Body, nil, func(n ast.Node, conds []string) {
				call, ok := n.(*ast.CallExpr)
				if !ok {
					return
				}
				name := exprString(call.Fun)
				if !strings.HasPrefix(name, "account.") || !(strings.HasSuffix(name, "Modifier") || name == "account.IncrementBatchKey") {
					return
				}
				arg := ""
				if len(call.Args) == 1 {
					arg = strings.Join(strings.Fields(exprString(call.Args[0])), " ")
					if strings.HasPrefix(arg, "wire.OutPoint{") {
						arg = "wire.OutPoint{…}"
					}
				}
				var labels, others []string
				for _, c := range conds {
					if strings.HasPrefix(c, "switch ") {
						labels = append(labels, c)
					} else {
						others = append(others, c)
					}
				}
				storer = append(storer, fmt.Sprintf("(%q, %q, %q, %q)", strings.Join(labels, " ; "),
					strings.Join(others, " ; "), strings.TrimPrefix(name, "account."), arg))
			})
		} else {
			fail("C04: batchStorer.StorePendingBatch not found")
		}
		if fd := findFunc(ord, "batchVerifier.Verify"); fd != nil {
			c04WalkConds(fd.Body, nil, func(n ast.Node, conds []string) {
				as, ok := n.(*ast.AssignStmt)
				if !ok || len(as.Lhs) != 1 || as.Tok != token.ASSIGN {
					return
				}
				lhs := exprString(as.Lhs[0])
				if !strings.HasPrefix(lhs, "acct.") {
					return
				}
				// only the innermost condition matters here (the enclosing loop / error checks carry none)
				cond := ""
				if len(conds) > 0 {
					cond = conds[len(conds)-1]
				}
				verifier = append(verifier, fmt.Sprintf("(%q, %q, %q)", cond, lhs,
					strings.Join(strings.Fields(exprString(as.Rhs[0])), " ")))
			})
		} else {
			fail("C04: batchVerifier.Verify not found")
		}
		if len(storer) == 0 || len(verifier) == 0 {
			fail("C04: storer / verifier account updates not recognised")
		}
		l.p("/-- batchStorer.StorePendingBatch: (enclosing switch case, enclosing if-conditions, modifier, argument) in source order -/")
		l.p("def storerModifiers : List (String × String × String × String) := [%s]", strings.Join(storer, ", "))
		l.p("/-- batchVerifier.Verify: (condition, field of the loaded account, value) it assigns before checking the re-created output -/")
		l.p("def verifierAccountUpdates : List (String × String × String) := [%s]", strings.Join(verifier, ", "))
	}

	// --- createSpendTx: the account input literal sets no Sequence ------------
	{
		fd := findFunc(acct, "manager.createSpendTx")
		fields := []string{}
		ok := false
		if fd != nil {
			ast.Inspect(fd.Body, func(n ast.Node) bool {
				cl, isCl := n.(*ast.CompositeLit)
				if !isCl || cl.Type != nil && exprString(cl.Type) != "wire.TxIn" {
					return true
				}
				// the element literal of []*wire.TxIn{{…}} has a nil Type
				for _, e := range cl.Elts {
					if kv, isKv := e.(*ast.KeyValueExpr); isKv {
						if exprString(kv.Key) == "PreviousOutPoint" {
							ok = true
						}
					}
				}
				if ok && len(fields) == 0 {
					for _, e := range cl.Elts {
						if kv, isKv := e.(*ast.KeyValueExpr); isKv {
							fields = append(fields, exprString(kv.Key))
						}
					}
				}
				return true
			})
		}
		if !ok {
			fail("C04: createSpendTx: TxIn literal not found")
		}
		l.p("/-- fields set in the wire.TxIn literal of createSpendTx (Sequence absent ⇒ 0) -/")
		l.p("def createSpendTxInFields : List String := %s", leanStrList(fields))
	}

	l.p("end Pool.Gen.C04")
}
