//go:build verif

package main

// C04 facts. Every extractor reads *semantics* (see c04_eval.go): locals are
// identified by role / parameter position, comparisons are canonicalised,
// decision tables are obtained by evaluating the code on class
// representatives, so that renames, flipped operands, if-chain <-> switch,
// hoisted locals, extracted helpers and reordered independent statements
// yield the same facts.

import (
	"fmt"
	"go/ast"
	"go/printer"
	"go/token"
	"sort"
	"strings"
)

func init() { jobs = append(jobs, job{props: []string{"C04"}, fn: genC04}) }

func c04NodeString(n ast.Node) string {
	var sb strings.Builder
	printer.Fprint(&sb, fset, n)
	return sb.String()
}

func c04Pairs(xs [][2]string) string {
	q := make([]string, len(xs))
	for i, x := range xs {
		q[i] = fmt.Sprintf("(%q, %q)", x[0], x[1])
	}
	return "[" + strings.Join(q, ", ") + "]"
}

func c04ListOfLists(xs [][]string) string {
	q := make([]string, len(xs))
	for i, x := range xs {
		q[i] = leanStrList(x)
	}
	return "[" + strings.Join(q, ", ") + "]"
}

// c04ParamRoles: parameter i -> "$p<i>", every other local -> "$v".
func c04ParamRoles(fd *ast.FuncDecl) map[string]string {
	roles := map[string]string{}
	ast.Inspect(fd.Body, func(n ast.Node) bool {
		if as, ok := n.(*ast.AssignStmt); ok && as.Tok == token.DEFINE {
			for _, l := range as.Lhs {
				if id, ok := l.(*ast.Ident); ok {
					roles[id.Name] = "$v"
				}
			}
		}
		return true
	})
	for i, n := range c04ParamNames(fd.Type) {
		roles[n] = fmt.Sprintf("$p%d", i)
	}
	return roles
}

func c04StripConv(e ast.Expr) ast.Expr {
	for {
		e = c04Unparen(e)
		c, ok := e.(*ast.CallExpr)
		if !ok || len(c.Args) != 1 {
			return e
		}
		id, ok := c.Fun.(*ast.Ident)
		if !ok || !c04ConvNames[id.Name] {
			return e
		}
		e = c.Args[0]
	}
}

// c04BuilderCalls: ordered (method, canonical argument) list of the calls on
// the local that holds txscript.NewScriptBuilder(), fluent chains included.
func c04BuilderCalls(fd *ast.FuncDecl, what string) [][2]string {
	var res [][2]string
	if fd == nil {
		fail("C04: function %s not found", what)
		return nil
	}
	roles := c04ParamRoles(fd)
	builder := ""
	ast.Inspect(fd.Body, func(n ast.Node) bool {
		as, ok := n.(*ast.AssignStmt)
		if !ok || len(as.Lhs) != 1 || len(as.Rhs) != 1 {
			return true
		}
		root := as.Rhs[0]
		for {
			c, ok := root.(*ast.CallExpr)
			if !ok {
				break
			}
			if exprString(c.Fun) == "txscript.NewScriptBuilder" {
				if id, ok := as.Lhs[0].(*ast.Ident); ok && builder == "" {
					builder = id.Name
				}
			}
			se, ok := c.Fun.(*ast.SelectorExpr)
			if !ok {
				break
			}
			root = se.X
		}
		return true
	})
	// (no local at all: the whole script is one chained expression)
	var chain func(e ast.Expr) bool
	chain = func(e ast.Expr) bool {
		c, ok := c04Unparen(e).(*ast.CallExpr)
		if !ok {
			id, isID := c04Unparen(e).(*ast.Ident)
			return isID && id.Name == builder
		}
		if exprString(c.Fun) == "txscript.NewScriptBuilder" {
			return true
		}
		se, ok := c.Fun.(*ast.SelectorExpr)
		if !ok || !chain(se.X) {
			return false
		}
		switch se.Sel.Name {
		case "Script", "Reset":
			return true
		}
		if len(c.Args) != 1 {
			fail("C04: %s: builder.%s with %d args", what, se.Sel.Name, len(c.Args))
			return true
		}
		arg := c.Args[0]
		if se.Sel.Name == "AddInt64" {
			arg = c04StripConv(arg)
		}
		if se.Sel.Name == "AddOps" {
			if cl, ok := c04Unparen(arg).(*ast.CompositeLit); ok {
				for _, el := range cl.Elts {
					res = append(res, [2]string{"AddOp", c04Canon(el, roles)})
				}
				return true
			}
		}
		res = append(res, [2]string{se.Sel.Name, c04Canon(arg, roles)})
		return true
	}
	var walk func(list []ast.Stmt)
	walk = func(list []ast.Stmt) {
		for _, st := range list {
			switch x := st.(type) {
			case *ast.ExprStmt:
				chain(x.X)
			case *ast.AssignStmt:
				for _, r := range x.Rhs {
					chain(r)
				}
			case *ast.ReturnStmt:
				for _, r := range x.Results {
					chain(r)
				}
			case *ast.BlockStmt:
				walk(x.List)
			case *ast.IfStmt:
				// builder calls under a condition are not understood by the model
				ast.Inspect(x.Body, func(n ast.Node) bool {
					if c, ok := n.(*ast.CallExpr); ok {
						if se, ok := c.Fun.(*ast.SelectorExpr); ok {
							if id, ok := se.X.(*ast.Ident); ok && id.Name == builder && strings.HasPrefix(se.Sel.Name, "Add") {
								res = append(res, [2]string{"conditional:" + se.Sel.Name, c04Canon(x.Cond, roles)})
							}
						}
					}
					return true
				})
			}
		}
	}
	walk(fd.Body.List)
	if len(res) == 0 {
		fail("C04: no builder calls found in %s", what)
	}
	return res
}

// c04WitnessLayout: the elements of the witness a Spend* function returns, by
// parameter position ("$p<i>", "nil"); `make` + index assignments or a
// composite literal.
func c04WitnessLayout(fd *ast.FuncDecl, what string) []string {
	if fd == nil {
		fail("C04: function %s not found", what)
		return nil
	}
	roles := c04ParamRoles(fd)
	n := -1
	wname := ""
	elems := map[int]string{}
	var lit []string
	ast.Inspect(fd.Body, func(nd ast.Node) bool {
		switch x := nd.(type) {
		case *ast.CompositeLit:
			if strings.HasSuffix(exprString(x.Type), "TxWitness") && lit == nil {
				lit = []string{}
				for _, e := range x.Elts {
					lit = append(lit, c04Canon(e, roles))
				}
			}
		case *ast.AssignStmt:
			if len(x.Lhs) != 1 || len(x.Rhs) != 1 {
				return true
			}
			if id, ok := x.Lhs[0].(*ast.Ident); ok {
				if call, ok := x.Rhs[0].(*ast.CallExpr); ok && len(call.Args) >= 2 && exprString(call.Fun) == "make" &&
					strings.HasSuffix(exprString(call.Args[0]), "TxWitness") {
					if l, ok := call.Args[1].(*ast.BasicLit); ok {
						fmt.Sscanf(l.Value, "%d", &n)
						wname = id.Name
					}
				}
			}
			if ix, ok := x.Lhs[0].(*ast.IndexExpr); ok {
				if id, ok := ix.X.(*ast.Ident); ok && id.Name == wname {
					if l, ok := ix.Index.(*ast.BasicLit); ok {
						var i int
						fmt.Sscanf(l.Value, "%d", &i)
						elems[i] = c04Canon(x.Rhs[0], roles)
					}
				}
			}
		}
		return true
	})
	if lit != nil && n < 0 {
		return lit
	}
	if n < 0 || len(elems) != n {
		fail("C04: %s: witness layout not recognised (n=%d, %d elems)", what, n, len(elems))
		return nil
	}
	res := make([]string, n)
	for i := 0; i < n; i++ {
		res[i] = elems[i]
	}
	return res
}

// c04ClassifierCalls: the classifier names a condition consists of (`||` of
// poolscript.Is*Spend(w) calls, locals followed).
func c04ClassifierCalls(e ast.Expr, defs map[string]ast.Expr) []string {
	var res []string
	for _, p := range c04Flatten(c04Subst(e, defs, 0), token.LOR) {
		p = c04Unparen(p)
		for {
			if pe, ok := p.(*ast.ParenExpr); ok {
				p = pe.X
				continue
			}
			break
		}
		if sub := c04Flatten(p, token.LOR); len(sub) > 1 {
			for _, s := range sub {
				res = append(res, c04ClassifierCalls(s, defs)...)
			}
			continue
		}
		if c, ok := p.(*ast.CallExpr); ok {
			s := exprString(c.Fun)
			if i := strings.LastIndex(s, "."); i >= 0 {
				s = s[i+1:]
			}
			res = append(res, s)
		} else {
			res = append(res, "?"+strings.Join(strings.Fields(exprString(p)), " "))
		}
	}
	return res
}

func c04MentionsClassifier(e ast.Expr, defs map[string]ast.Expr) bool {
	found := false
	ast.Inspect(c04Subst(e, defs, 0), func(n ast.Node) bool {
		if c, ok := n.(*ast.CallExpr); ok {
			s := exprString(c.Fun)
			if strings.Contains(s, "Is") && strings.HasSuffix(s, "Spend") {
				found = true
			}
		}
		return true
	})
	return found
}

// c04HandlerCases: the ordered decision list (tagless switch or if / else-if
// chain) of HandleAccountSpend whose conditions call the Is*Spend classifiers.
func c04HandlerCases(fd *ast.FuncDecl) [][]string {
	if fd == nil {
		fail("C04: manager.HandleAccountSpend not found")
		return nil
	}
	defs := c04LocalDefs(fd.Body)
	var cases [][]string
	done := false
	ast.Inspect(fd.Body, func(n ast.Node) bool {
		if done {
			return false
		}
		switch x := n.(type) {
		case *ast.SwitchStmt:
			if x.Tag != nil {
				return true
			}
			any := false
			for _, c := range x.Body.List {
				for _, e := range c.(*ast.CaseClause).List {
					any = any || c04MentionsClassifier(e, defs)
				}
			}
			if !any {
				return true
			}
			hasDefault := false
			for _, c := range x.Body.List {
				cc := c.(*ast.CaseClause)
				if cc.List == nil {
					hasDefault = true
					continue
				}
				var names []string
				for _, e := range cc.List { // `case a, b:` is `a || b`
					names = append(names, c04ClassifierCalls(e, defs)...)
				}
				cases = append(cases, names)
			}
			_ = hasDefault
			cases = append(cases, []string{}) // default / nothing matched
			done = true
			return false
		case *ast.IfStmt:
			if !c04MentionsClassifier(x.Cond, defs) {
				return true
			}
			var cur ast.Stmt = x
			for cur != nil {
				ifs, ok := cur.(*ast.IfStmt)
				if !ok {
					break
				}
				cases = append(cases, c04ClassifierCalls(ifs.Cond, defs))
				cur = ifs.Else
			}
			cases = append(cases, []string{})
			done = true
			return false
		}
		return true
	})
	if !done {
		fail("C04: HandleAccountSpend: classification decision list not found")
	}
	// within one case the classifiers are `||`-ed: a set
	for _, c := range cases {
		sort.Strings(c)
	}
	return cases
}

// c04EvalFunc evaluates a function / method body with the given parameter and
// selector values and returns its first result in canonical text.
func c04EvalFunc(ce *constEnv, files []*ast.File, fd *ast.FuncDecl, vars, sel map[string]c04V) (string, *c04Ev) {
	ev := &c04Ev{ce: ce, files: files, vars: vars, sel: sel, roles: map[string]string{}}
	ret, ok := ev.stmts(fd.Body.List)
	if !ok || len(ret) == 0 {
		ev.fail("no return reached")
		return "?", ev
	}
	return ret[0].String(), ev
}

func c04RecvName(fd *ast.FuncDecl) string {
	if fd.Recv != nil && len(fd.Recv.List) == 1 && len(fd.Recv.List[0].Names) == 1 {
		return fd.Recv.List[0].Names[0].Name
	}
	return "_"
}

var c04WTNames = []string{"expiryWitness", "multiSigWitness", "expiryTaproot", "muSig2Taproot"}

// c04MethodTable: result of a one-receiver method for each named constant and
// for one other value.
func c04MethodTable(l *leanFile, ce *constEnv, files []*ast.File, method, leanName, doc string, names []string) {
	fd := findFunc(files, method)
	var rows []string
	if fd == nil {
		fail("C04: %s not found", method)
	} else {
		vals := map[string]int64{}
		for _, n := range names {
			fmt.Sscanf(intConst(ce, "account", n), "%d", new(int64))
			var v int64
			fmt.Sscanf(intConst(ce, "account", n), "%d", &v)
			vals[n] = v
		}
		for _, n := range append(append([]string{}, names...), "other") {
			v, ok := vals[n]
			if !ok {
				v = 200
			}
			res, ev := c04EvalFunc(ce, files, fd, map[string]c04V{c04RecvName(fd): c04Int(v)}, map[string]c04V{})
			if ev.bad != "" {
				fail("C04: %s: %s", method, ev.bad)
			}
			rows = append(rows, fmt.Sprintf("(%q, %q)", n, res))
		}
	}
	l.p("/-- %s -/", doc)
	l.p("def %s : List (String × String) := [%s]", leanName, strings.Join(rows, ", "))
}

// c04AssignsTo reports whether a statement (at any depth) declares or assigns name.
func c04AssignsTo(st ast.Stmt, name string) bool {
	found := false
	ast.Inspect(st, func(n ast.Node) bool {
		switch x := n.(type) {
		case *ast.AssignStmt:
			for _, l := range x.Lhs {
				if id, ok := l.(*ast.Ident); ok && id.Name == name {
					found = true
				}
			}
		case *ast.ValueSpec:
			for _, id := range x.Names {
				if id.Name == name {
					found = true
				}
			}
		}
		return true
	})
	return found
}

// c04DefiningStmts returns the top-level statements of body that (transitively)
// define the local `name`: statements assigning name, or assigning a local a
// right-hand side of those statements mentions.
func c04DefiningStmts(body *ast.BlockStmt, name string, params []string) []ast.Stmt {
	isParam := map[string]bool{}
	for _, p := range params {
		isParam[p] = true
	}
	want := map[string]bool{name: true}
	for changed := true; changed; {
		changed = false
		for _, st := range body.List {
			hit := false
			for w := range want {
				hit = hit || c04AssignsTo(st, w)
			}
			if !hit {
				continue
			}
			ast.Inspect(st, func(n ast.Node) bool {
				var rhs []ast.Expr
				switch x := n.(type) {
				case *ast.AssignStmt:
					for _, l := range x.Lhs {
						if id, ok := l.(*ast.Ident); ok && want[id.Name] {
							rhs = x.Rhs
						}
					}
				case *ast.ValueSpec:
					rhs = x.Values
				}
				for _, r := range rhs {
					ast.Inspect(r, func(m ast.Node) bool {
						if se, ok := m.(*ast.SelectorExpr); ok {
							// only the root of a selector chain can be a local
							if id, ok := se.X.(*ast.Ident); ok && !isParam[id.Name] && !want[id.Name] && c04IsLocal(body, id.Name) {
								want[id.Name] = true
								changed = true
							}
							return false
						}
						if id, ok := m.(*ast.Ident); ok && !isParam[id.Name] && !want[id.Name] && c04IsLocal(body, id.Name) {
							want[id.Name] = true
							changed = true
						}
						return true
					})
				}
				return true
			})
		}
	}
	var res []ast.Stmt
	for i, st := range body.List {
		hit := false
		for w := range want {
			hit = hit || c04AssignsTo(st, w)
		}
		if !hit {
			continue
		}
		res = append(res, st)
		// `x, err := f(…)` followed by `if err != nil { return … }`: the check of a
		// value defined alongside belongs to the definition
		as, ok := st.(*ast.AssignStmt)
		if !ok || len(as.Lhs) < 2 || i+1 >= len(body.List) {
			continue
		}
		ifs, ok := body.List[i+1].(*ast.IfStmt)
		if !ok {
			continue
		}
		co := map[string]bool{}
		for _, l := range as.Lhs {
			if id, ok := l.(*ast.Ident); ok && !want[id.Name] {
				co[id.Name] = true
			}
		}
		mentions := false
		ast.Inspect(ifs.Cond, func(n ast.Node) bool {
			if id, ok := n.(*ast.Ident); ok && co[id.Name] {
				mentions = true
			}
			return true
		})
		if mentions {
			res = append(res, ifs)
		}
	}
	return res
}

// c04IsLocal: name is declared by a top-level `:=` / `var` of body with a
// single-valued right-hand side (multi-value call results stay opaque).
func c04IsLocal(body *ast.BlockStmt, name string) bool {
	for _, st := range body.List {
		switch x := st.(type) {
		case *ast.AssignStmt:
			if x.Tok == token.DEFINE && len(x.Lhs) == len(x.Rhs) {
				for _, l := range x.Lhs {
					if id, ok := l.(*ast.Ident); ok && id.Name == name {
						return true
					}
				}
			}
		case *ast.DeclStmt:
			if gd, ok := x.Decl.(*ast.GenDecl); ok {
				for _, sp := range gd.Specs {
					if vs, ok := sp.(*ast.ValueSpec); ok {
						for _, id := range vs.Names {
							if id.Name == name {
								return true
							}
						}
					}
				}
			}
		}
	}
	return false
}

// c04CallArg finds the first call whose callee's selector / name is fn and
// returns its i-th argument.
func c04CallArg(body *ast.BlockStmt, fn string, i int) ast.Expr {
	var res ast.Expr
	ast.Inspect(body, func(n ast.Node) bool {
		c, ok := n.(*ast.CallExpr)
		if !ok || res != nil {
			return res == nil
		}
		name := exprString(c.Fun)
		if j := strings.LastIndex(name, "."); j >= 0 {
			name = name[j+1:]
		}
		if name == fn && len(c.Args) > i {
			res = c.Args[i]
		}
		return true
	})
	return res
}

func genC04() {
	l := newLean("C04Facts", "C04: script builder call lists, witness layouts, classifier order, "+
		"witness-type decision tables, modifier / storer / verifier rules and size constants read semantically "+
		"from poolscript/script.go, account/manager.go, account/interfaces.go, order/batch_storer.go, order/batch_verifier.go.")
	l.p("namespace Pool.Gen.C04")

	ps := pkgFiles("poolscript")
	acct := pkgFiles("account")

	// --- script builder call sequences ---------------------------------
	l.p("/-- ordered builder calls of poolscript.accountWitnessScript: (method, argument with `$p<i>` = i-th parameter,")
	l.p("`$v` = a local) -/")
	l.p("def accountWitnessScriptCalls : List (String × String) := %s",
		c04Pairs(c04BuilderCalls(findFunc(ps, "accountWitnessScript"), "accountWitnessScript")))
	l.p("/-- ordered builder calls of poolscript.TaprootExpiryScript -/")
	l.p("def taprootExpiryScriptCalls : List (String × String) := %s",
		c04Pairs(c04BuilderCalls(findFunc(ps, "TaprootExpiryScript"), "TaprootExpiryScript")))

	// --- size constants ---------------------------------------------------
	ce := newConstEnv(ps)
	for _, n := range []string{"MaxWitnessSigLen", "AccountWitnessScriptSize", "MultiSigWitnessSize",
		"ExpiryWitnessSize", "TaprootMultiSigWitnessSize", "TaprootExpiryScriptSize",
		"TaprootExpiryWitnessSize"} {
		l.p("def %s : Nat := %s", n, intConst(ce, "poolscript", n))
	}
	// lower bound of the leaf script length in IsTaprootExpirySpend: `TaprootExpiryScriptSize - k`, wherever it is written
	minLen := ""
	if fd := findFunc(ps, "IsTaprootExpirySpend"); fd != nil {
		ast.Inspect(fd.Body, func(n ast.Node) bool {
			b, ok := n.(*ast.BinaryExpr)
			if ok && b.Op == token.SUB && minLen == "" && exprString(c04Unparen(b.X)) == "TaprootExpiryScriptSize" {
				if v, ok := ce.eval(b, 0); ok {
					minLen = v.ExactString()
				}
			}
			return true
		})
	}
	if minLen == "" {
		fail("C04: IsTaprootExpirySpend: minimal script length not found")
		minLen = "0"
	}
	l.p("def taprootExpiryMinScriptLen : Nat := %s", minLen)

	// --- witness layouts --------------------------------------------------
	for _, fn := range []string{"SpendMultiSig", "SpendExpiry", "SpendMuSig2Taproot", "SpendExpiryTaproot"} {
		lay := c04WitnessLayout(findFunc(ps, fn), fn)
		name := strings.ToLower(fn[:1]) + fn[1:] + "Layout"
		l.p("def %s : List String := %s", name, leanStrList(lay))
	}

	// --- HandleAccountSpend classification order ------------------------
	l.p("/-- the decision list of manager.HandleAccountSpend: per case the `||`-ed classifier calls; [] = none matched -/")
	l.p("def handleAccountSpendCases : List (List String) := %s",
		c04ListOfLists(c04HandlerCases(findFunc(acct, "manager.HandleAccountSpend"))))

	// --- enums -----------------------------------------------------------------
	ace := newConstEnv(acct)
	var wtNames []string
	wtVal := map[string]int64{}
	for _, n := range c04WTNames {
		s := intConst(ace, "account", n)
		wtNames = append(wtNames, fmt.Sprintf("(%q, %s)", n, s))
		var v int64
		fmt.Sscanf(s, "%d", &v)
		wtVal[n] = v
	}
	l.p("def witnessTypeValues : List (String × Nat) := [%s]", strings.Join(wtNames, ", "))
	var vNames []string
	verVals := []int64{}
	for _, n := range []string{"VersionInitialNoVersion", "VersionTaprootEnabled", "VersionMuSig2V100RC2"} {
		s := intConst(ace, "account", n)
		vNames = append(vNames, fmt.Sprintf("(%q, %s)", n, s))
		var v int64
		fmt.Sscanf(s, "%d", &v)
		verVals = append(verVals, v)
	}
	l.p("def accountVersionValues : List (String × Nat) := [%s]", strings.Join(vNames, ", "))
	l.p("def stateExpired : Nat := %s", intConst(ace, "account", "StateExpired"))
	stateVals := []int64{}
	for _, n := range []string{"StateInitiated", "StatePendingOpen", "StatePendingUpdate", "StateOpen", "StateExpired",
		"StatePendingClosed", "StateClosed", "StateCanceledAfterRecovery", "StatePendingBatch", "StateExpiredPendingUpdate"} {
		var v int64
		fmt.Sscanf(intConst(ace, "account", n), "%d", &v)
		stateVals = append(stateVals, v)
	}

	// --- one-receiver method tables (evaluated) ------------------------------------
	c04MethodTable(l, ace, acct, "witnessType.witnessSize", "witnessSizeTable",
		"witnessType.witnessSize evaluated per witness type (and one other value): the returned size expression", c04WTNames)
	c04MethodTable(l, ace, acct, "witnessType.IsExpirySpend", "witnessTypeIsExpiryTable",
		"witnessType.IsExpirySpend evaluated per witness type", c04WTNames)
	c04MethodTable(l, ace, acct, "Version.ScriptVersion", "scriptVersionTable",
		"account.Version.ScriptVersion evaluated per account version",
		[]string{"VersionInitialNoVersion", "VersionTaprootEnabled", "VersionMuSig2V100RC2"})

	// --- determineWitnessType: decision table by evaluation on class representatives --------
	{
		fd := findFunc(acct, "determineWitnessType")
		var rows []string
		vSpecial, sSpecial := []int64{}, []int64{}
		vOther, sOther := int64(0), int64(0)
		noArith := false
		if fd == nil {
			fail("C04: determineWitnessType not found")
		} else {
			params := c04ParamNames(fd.Type)
			if len(params) != 2 {
				fail("C04: determineWitnessType: %d parameters", len(params))
			} else {
				maxOf := func(xs []int64) int64 {
					m := int64(0)
					for _, x := range xs {
						if x > m {
							m = x
						}
					}
					return m
				}
				vOther, sOther = maxOf(verVals)+1, maxOf(stateVals)+1
				vReps := append(append([]int64{}, verVals...), vOther)
				sReps := append(append([]int64{}, stateVals...), sOther)
				const expiry = 100
				eval := func(v, s, best int64) string {
					res, ev := c04EvalFunc(ace, acct, fd, map[string]c04V{params[1]: c04Int(best)}, map[string]c04V{
						params[0] + ".Version": c04Int(v), params[0] + ".State": c04Int(s), params[0] + ".Expiry": c04Int(expiry)})
					if ev.bad != "" {
						fail("C04: determineWitnessType: %s", ev.bad)
					}
					for n, val := range wtVal {
						if res == fmt.Sprintf("%d", val) {
							return n
						}
					}
					return res
				}
				vec := func(v, s int64) string {
					return eval(v, s, expiry-1) + "|" + eval(v, s, expiry) + "|" + eval(v, s, expiry+1)
				}
				// a version / state is "special" when its outcomes differ from those of the other-representative
				for _, v := range verVals {
					diff := false
					for _, s := range sReps {
						diff = diff || vec(v, s) != vec(vOther, s)
					}
					if diff {
						vSpecial = append(vSpecial, v)
					}
				}
				for _, s := range stateVals {
					diff := false
					for _, v := range vReps {
						diff = diff || vec(v, s) != vec(v, sOther)
					}
					if diff {
						sSpecial = append(sSpecial, s)
					}
				}
				for _, v := range append(append([]int64{}, vSpecial...), vOther) {
					for _, s := range append(append([]int64{}, sSpecial...), sOther) {
						for rel, best := range []int64{expiry - 1, expiry, expiry + 1} {
							rows = append(rows, fmt.Sprintf("(%d, %d, %d, %q)", v, s, rel, eval(v, s, best)))
						}
					}
				}
				noArith = !c04HasArith(fd.Body)
			}
		}
		nat := func(xs []int64) string {
			q := make([]string, len(xs))
			for i, x := range xs {
				q[i] = fmt.Sprintf("%d", x)
			}
			return "[" + strings.Join(q, ", ") + "]"
		}
		l.p("/-- determineWitnessType evaluated on class representatives: account versions / states whose outcomes differ")
		l.p("from those of every other value, the representative used for all other values, and the table")
		l.p("(version key, state key, 0/1/2 = bestHeight </=/> expiry, returned witness type) -/")
		l.p("def dwtVersionSpecial : List Nat := %s", nat(vSpecial))
		l.p("def dwtVersionOther : Nat := %d", vOther)
		l.p("def dwtStateSpecial : List Nat := %s", nat(sSpecial))
		l.p("def dwtStateOther : Nat := %d", sOther)
		l.p("def dwtTable : List (Nat × Nat × Nat × String) := [%s]", strings.Join(rows, ", "))
		l.p("/-- the function contains no arithmetic: expiry and best height are only compared -/")
		l.p("def dwtNoArith : Bool := %v", noArith)
	}

	// --- spendAccount: the lock time per witness type (evaluated) --------------------------
	{
		fd := findFunc(acct, "manager.spendAccount")
		var rows []string
		if fd == nil {
			fail("C04: manager.spendAccount not found")
		} else {
			params := c04ParamNames(fd.Type)
			ltArg := c04CallArg(fd.Body, "signSpendTx", 3)
			ltID, _ := ltArg.(*ast.Ident)
			if len(params) != 7 || ltID == nil {
				fail("C04: spendAccount: signature / lock-time argument of signSpendTx not recognised")
			} else {
				stmts := c04DefiningStmts(fd.Body, ltID.Name, params)
				if len(stmts) == 0 {
					fail("C04: spendAccount: no statement sets the lock time")
				}
				const best = 12345
				for _, wt := range append(append([]string{}, c04WTNames...), "other") {
					v, ok := wtVal[wt]
					if !ok {
						v = 200
					}
					for _, isClose := range []bool{true, false} {
						action := "CLOSE"
						if !isClose {
							action = "WITHDRAW"
						}
						ev := &c04Ev{ce: ace, files: acct, roles: map[string]string{}, sel: map[string]c04V{},
							vars: map[string]c04V{params[4]: c04Int(v), params[2]: c04Sym(action), params[6]: c04Int(best)}}
						_, returned := ev.stmts(stmts)
						res := "?"
						switch lt := ev.vars[ltID.Name]; {
						case returned:
							res = "err"
						case ev.bad != "":
							fail("C04: spendAccount lock time: %s", ev.bad)
						case lt.k == 'i' && lt.i == best:
							res = "best"
						case lt.k == 'i' && lt.i == 0:
							res = "0"
						}
						rows = append(rows, fmt.Sprintf("(%q, %v, %q)", wt, isClose, res))
					}
				}
			}
		}
		l.p("/-- spendAccount: (witness type, action == CLOSE, lock time: \"best\" = bestHeight | \"0\" | \"err\" = refused) -/")
		l.p("def spendAccountLockTimeTable : List (String × Bool × String) := [%s]", strings.Join(rows, ", "))
	}

	// --- which witness type each account-spending method hands to spendAccount ----------------
	{
		var kinds, renew []string
		for _, fn := range []string{"CloseAccount", "DepositAccount", "WithdrawAccount", "RenewAccount"} {
			fd := findFunc(acct, "manager."+fn)
			kind := "?"
			if fd == nil {
				fail("C04: manager.%s not found", fn)
			} else if id, ok := c04CallArg(fd.Body, "spendAccount", 4).(*ast.Ident); !ok {
				fail("C04: %s: witness type argument of spendAccount not recognised", fn)
			} else {
				stmts := c04DefiningStmts(fd.Body, id.Name, c04ParamNames(fd.Type))
				viaDWT := false
				for _, st := range stmts {
					ast.Inspect(st, func(n ast.Node) bool {
						if c, ok := n.(*ast.CallExpr); ok && exprString(c.Fun) == "determineWitnessType" {
							viaDWT = true
						}
						return true
					})
				}
				switch {
				case viaDWT && len(stmts) == 1:
					kind = "determineWitnessType"
				case !viaDWT && len(stmts) > 0:
					kind = "own-rule"
					if fn == "RenewAccount" {
						// evaluate the rule per account version representative
						sels := map[string]bool{}
						for _, st := range stmts {
							ast.Inspect(st, func(n ast.Node) bool {
								if se, ok := n.(*ast.SelectorExpr); ok && se.Sel.Name == "Version" {
									sels[exprString(se)] = true
								}
								// an account handed to a helper that holds the rule
								if c, ok := n.(*ast.CallExpr); ok {
									for _, a := range c.Args {
										if id, ok := c04Unparen(a).(*ast.Ident); ok {
											sels[id.Name+".Version"] = true
										}
									}
								}
								return true
							})
						}
						for _, v := range []int64{0, 1, 2, 3} {
							ev := &c04Ev{ce: ace, files: acct, roles: map[string]string{}, vars: map[string]c04V{}, sel: map[string]c04V{}}
							for s := range sels {
								ev.sel[s] = c04Int(v)
							}
							ev.stmts(stmts)
							if ev.bad != "" {
								fail("C04: RenewAccount witness type rule: %s", ev.bad)
							}
							r := ev.vars[id.Name]
							name := r.String()
							for n, val := range wtVal {
								if r.k == 'i' && r.i == val {
									name = n
								}
							}
							renew = append(renew, fmt.Sprintf("(%d, %q)", v, name))
						}
					}
				}
			}
			kinds = append(kinds, fmt.Sprintf("(%q, %q)", fn, kind))
		}
		l.p("/-- how each account-spending manager method chooses the witness type it hands to spendAccount -/")
		l.p("def spendWitnessTypeSource : List (String × String) := [%s]", strings.Join(kinds, ", "))
		l.p("/-- RenewAccount's own rule evaluated per account version (3 stands for every version above 2) -/")
		l.p("def renewWitnessTypeTable : List (Nat × String) := [%s]", strings.Join(renew, ", "))
	}

	// --- account.Modifier bodies (account/interfaces.go) ---------------------------------
	{
		var rows []string
		for _, fn := range []string{"StateModifier", "ValueModifier", "ExpiryModifier", "IncrementBatchKey",
			"OutPointModifier", "HeightHintModifier", "LatestTxModifier", "VersionModifier"} {
			fd := findFunc(acct, fn)
			var stmts []string
			found := false
			if fd != nil {
				roles := map[string]string{}
				for _, n := range c04ParamNames(fd.Type) {
					roles[n] = "$arg"
				}
				for _, st := range fd.Body.List {
					ret, ok := st.(*ast.ReturnStmt)
					if !ok || len(ret.Results) != 1 {
						stmts = append(stmts, "outer: "+strings.Join(strings.Fields(c04NodeString(st)), " "))
						continue
					}
					fl, ok := ret.Results[0].(*ast.FuncLit)
					if !ok {
						continue
					}
					found = true
					for _, n := range c04ParamNames(fl.Type) {
						roles[n] = "$acct"
					}
					for _, b := range fl.Body.List {
						if as, ok := b.(*ast.AssignStmt); ok && len(as.Lhs) == 1 && len(as.Rhs) == 1 && as.Tok == token.ASSIGN {
							stmts = append(stmts, c04Canon(as.Lhs[0], roles)+" = "+c04Canon(as.Rhs[0], roles))
						} else if _, ok := b.(*ast.ExprStmt); ok {
							continue // a call for effect (logging)
						} else {
							stmts = append(stmts, "stmt: "+strings.Join(strings.Fields(c04NodeString(b)), " "))
						}
					}
				}
			}
			if !found {
				fail("C04: modifier %s not recognised", fn)
			}
			rows = append(rows, fmt.Sprintf("(%q, %s)", fn, leanStrList(stmts)))
		}
		l.p("/-- statements of the closure each account.Modifier constructor returns (`$acct` = the account, `$arg` = the")
		l.p("constructor's parameter) -/")
		l.p("def modifierBodies : List (String × List String) := [%s]", strings.Join(rows, ", "))
	}

	// --- what the batch storer stages for a re-created account vs what the verifier applied ---------
	{
		ord := pkgFiles("order")
		oce := newConstEnv(ord)
		var storer, verifier []string
		roleOf := func(fd *ast.FuncDecl) map[string]string {
			roles := map[string]string{}
			if fd.Type.Params != nil {
				for _, f := range fd.Type.Params.List {
					if strings.HasSuffix(exprString(f.Type), "Batch") {
						for _, n := range f.Names {
							roles[n.Name] = "$batch"
						}
					}
				}
			}
			ast.Inspect(fd.Body, func(n ast.Node) bool {
				switch x := n.(type) {
				case *ast.RangeStmt:
					if se, ok := x.X.(*ast.SelectorExpr); ok && se.Sel.Name == "AccountDiffs" {
						if id, ok := x.Value.(*ast.Ident); ok {
							roles[id.Name] = "$diff"
						}
					}
				case *ast.AssignStmt:
					if len(x.Rhs) == 1 && len(x.Lhs) >= 1 {
						if id, ok := x.Lhs[0].(*ast.Ident); ok {
							switch r := x.Rhs[0].(type) {
							case *ast.CallExpr:
								if strings.HasSuffix(exprString(r.Fun), "getAccount") {
									roles[id.Name] = "$acct"
								}
							case *ast.IndexExpr:
								if strings.HasPrefix(exprString(r.X), "accounts") || strings.HasSuffix(exprString(r.X), "ccounts") {
									roles[id.Name] = "$acct"
								}
							}
						}
					}
				}
				return true
			})
			return roles
		}
		// walk with the path conditions partially evaluated; EndingState (if given) is fixed
		var walk func(n ast.Node, ev *c04Ev, path []string, visit func(ast.Node, []string))
		addCond := func(ev *c04Ev, path []string, v c04V) ([]string, bool) {
			if v.k == 'b' {
				return path, v.b
			}
			return append(append([]string{}, path...), v.String()), true
		}
		walk = func(n ast.Node, ev *c04Ev, path []string, visit func(ast.Node, []string)) {
			switch x := n.(type) {
			case nil:
			case *ast.BlockStmt:
				for _, st := range x.List {
					walk(st, ev, path, visit)
				}
			case *ast.IfStmt:
				c := ev.expr(x.Cond)
				if p, ok := addCond(ev, path, c); ok {
					walk(x.Body, ev, p, visit)
				}
				if x.Else != nil {
					neg := c04Sym("!(" + c.String() + ")")
					if c.k == 'b' {
						neg = c04Bool(!c.b)
					}
					if p, ok := addCond(ev, path, neg); ok {
						walk(x.Else, ev, p, visit)
					}
				}
			case *ast.SwitchStmt:
				var tag *c04V
				if x.Tag != nil {
					t := ev.expr(x.Tag)
					tag = &t
				}
				taken := false // a case known to be taken shadows the later ones
				for _, c := range x.Body.List {
					cc := c.(*ast.CaseClause)
					if cc.List == nil || taken {
						continue
					}
					var v c04V = c04Bool(false)
					for _, e := range cc.List {
						var one c04V
						if tag == nil {
							one = ev.expr(e)
						} else {
							one = ev.expr(&ast.BinaryExpr{X: x.Tag, Op: token.EQL, Y: e})
						}
						switch {
						case one.k == 'b' && one.b:
							v = c04Bool(true)
						case one.k == 'b':
						case v.k == 'b' && !v.b:
							v = one
						case v.k == 's':
							v = c04Sym("(" + v.s + " || " + one.s + ")")
						}
					}
					if p, ok := addCond(ev, path, v); ok {
						for _, st := range cc.Body {
							walk(st, ev, p, visit)
						}
						if v.k == 'b' && v.b {
							taken = true
						}
					}
				}
				if !taken {
					for _, c := range x.Body.List {
						cc := c.(*ast.CaseClause)
						if cc.List == nil {
							// reached only when no case applies: with a fixed tag all cases were decided
							for _, st := range cc.Body {
								walk(st, ev, append(append([]string{}, path...), "default"), visit)
							}
						}
					}
				}
			case *ast.ForStmt:
				walk(x.Body, ev, path, visit)
			case *ast.RangeStmt:
				walk(x.Body, ev, path, visit)
			default:
				// bind simple local definitions so that hoisted conditions are followed
				switch st := n.(type) {
				case *ast.AssignStmt:
					if len(st.Lhs) == len(st.Rhs) {
						ev.stmt(st)
					}
				case *ast.DeclStmt:
					ev.stmt(st)
				}
				visit(n, path)
				ast.Inspect(n, func(m ast.Node) bool {
					if m == nil || m == n {
						return true
					}
					if _, isFn := m.(*ast.FuncLit); isFn {
						return false
					}
					visit(m, path)
					return true
				})
			}
		}
		canonPath := func(path []string) string {
			p := append([]string{}, path...)
			sort.Strings(p)
			return strings.Join(p, " && ")
		}
		if fd := findFunc(ord, "batchStorer.StorePendingBatch"); fd != nil {
			roles := roleOf(fd)
			diffName := ""
			for n, r := range roles {
				if r == "$diff" {
					diffName = n
				}
			}
			ev := &c04Ev{ce: oce, files: ord, roles: roles, vars: map[string]c04V{}, sel: map[string]c04V{
				diffName + ".EndingState": c04Sym("auctioneerrpc.AccountDiff_OUTPUT_RECREATED")}}
			walk(fd.Body, ev, nil, func(n ast.Node, path []string) {
				call, ok := n.(*ast.CallExpr)
				if !ok {
					return
				}
				name := exprString(call.Fun)
				if !strings.HasPrefix(name, "account.") || !(strings.HasSuffix(name, "Modifier") || name == "account.IncrementBatchKey") {
					return
				}
				arg := ""
				if len(call.Args) == 1 {
					arg = c04Canon(call.Args[0], roles)
					if strings.HasPrefix(arg, "wire.OutPoint{") {
						arg = "wire.OutPoint{…}"
					}
				}
				storer = append(storer, fmt.Sprintf("(%q, %q, %q)", canonPath(path), strings.TrimPrefix(name, "account."), arg))
			})
		} else {
			fail("C04: batchStorer.StorePendingBatch not found")
		}
		if fd := findFunc(ord, "batchVerifier.Verify"); fd != nil {
			roles := roleOf(fd)
			ev := &c04Ev{ce: oce, files: ord, roles: roles, vars: map[string]c04V{}, sel: map[string]c04V{}}
			walk(fd.Body, ev, nil, func(n ast.Node, path []string) {
				as, ok := n.(*ast.AssignStmt)
				if !ok || len(as.Lhs) != 1 || as.Tok != token.ASSIGN {
					return
				}
				lhs := c04Canon(as.Lhs[0], roles)
				if !strings.HasPrefix(lhs, "$acct.") {
					return
				}
				verifier = append(verifier, fmt.Sprintf("(%q, %q, %q)", canonPath(path), lhs, c04Canon(as.Rhs[0], roles)))
			})
		} else {
			fail("C04: batchVerifier.Verify not found")
		}
		if len(storer) == 0 || len(verifier) == 0 {
			fail("C04: storer / verifier account updates not recognised")
		}
		l.p("/-- batchStorer.StorePendingBatch for `EndingState == OUTPUT_RECREATED` (path conditions partially evaluated):")
		l.p("(remaining conditions, modifier, argument) in source order; `$batch`, `$diff`, `$acct` = the batch, the account's")
		l.p("diff, the account as loaded -/")
		l.p("def storerModifiers : List (String × String × String) := [%s]", strings.Join(storer, ", "))
		l.p("/-- batchVerifier.Verify: (conditions, field of the loaded account, value) it assigns before checking the re-created output -/")
		l.p("def verifierAccountUpdates : List (String × String × String) := [%s]", strings.Join(verifier, ", "))
	}

	// --- createSpendTx: the account input literal sets no Sequence ------------
	{
		fd := findFunc(acct, "manager.createSpendTx")
		fields := []string{}
		ok := false
		if fd != nil {
			ast.Inspect(fd.Body, func(n ast.Node) bool {
				cl, isCl := n.(*ast.CompositeLit)
				if !isCl {
					return true
				}
				has := false
				for _, e := range cl.Elts {
					if kv, isKv := e.(*ast.KeyValueExpr); isKv && exprString(kv.Key) == "PreviousOutPoint" {
						has = true
					}
				}
				if has && !ok {
					ok = true
					for _, e := range cl.Elts {
						if kv, isKv := e.(*ast.KeyValueExpr); isKv {
							fields = append(fields, exprString(kv.Key))
						}
					}
					sort.Strings(fields)
				}
				return true
			})
			// a Sequence assigned afterwards counts as set
			ast.Inspect(fd.Body, func(n ast.Node) bool {
				if as, isAs := n.(*ast.AssignStmt); isAs {
					for _, lh := range as.Lhs {
						if se, isSe := lh.(*ast.SelectorExpr); isSe && se.Sel.Name == "Sequence" {
							fields = append(fields, "Sequence")
						}
					}
				}
				return true
			})
		}
		if !ok {
			fail("C04: createSpendTx: TxIn literal not found")
		}
		l.p("/-- fields set in the wire.TxIn of createSpendTx (Sequence absent ⇒ 0) -/")
		l.p("def createSpendTxInFields : List String := %s", leanStrList(fields))
	}

	l.p("end Pool.Gen.C04")
}
