//go:build verif

package main

import (
	"fmt"
	"go/ast"
	"go/token"
	"sort"
	"strconv"
	"strings"
)

func init() { jobs = append(jobs, job{props: []string{"C16"}, fn: genC16}) }

// c16Field maps the three expressions the step functions switch on to the
// field index used by the Lean case-table interpreter.
var c16Field = map[string]int{
	"pkt.CurrentState":         0,
	"pkt.ReceiverTicket.State": 1,
	"pkt.ProviderTicket.State": 2,
}

// c16Recv is the receiver name of the function being processed ("a" in the
// source as it is); c16Pkt the name of its *SidecarPacket parameter. Facts are
// emitted with the canonical names `a` / `pkt` whatever the source calls them.
var (
	c16Recv = "a"
	c16Pkt  = "pkt"
)

func c16SetNames(fd *ast.FuncDecl) {
	c16Recv, c16Pkt = "a", "pkt"
	if fd == nil {
		return
	}
	if fd.Recv != nil && len(fd.Recv.List) == 1 && len(fd.Recv.List[0].Names) == 1 {
		c16Recv = fd.Recv.List[0].Names[0].Name
	}
	if fd.Type.Params != nil {
		for _, f := range fd.Type.Params.List {
			if exprString(f.Type) == "*SidecarPacket" && len(f.Names) == 1 {
				c16Pkt = f.Names[0].Name
			}
		}
	}
}

// c16Norm renames receiver and packet parameter to their canonical names.
func c16Norm(e ast.Expr, extra map[string]ast.Expr) string {
	sub := map[string]ast.Expr{}
	for k, v := range extra {
		sub[k] = v
	}
	sub[c16Recv] = ast.NewIdent("a")
	sub[c16Pkt] = ast.NewIdent("pkt")
	if c16Recv == "a" {
		delete(sub, "a")
	}
	if c16Pkt == "pkt" {
		delete(sub, "pkt")
	}
	return c16Canon(e, sub, 0)
}

// c16Atoms flattens a case condition `a == S && b == T && ...` into
// (field, state value) pairs in evaluation order; once-assigned locals are
// resolved to their definition first.
func c16Atoms(e ast.Expr, states map[string]string, subst map[string]ast.Expr) ([]string, bool) {
	switch x := e.(type) {
	case *ast.ParenExpr:
		return c16Atoms(x.X, states, subst)
	case *ast.Ident:
		if d, ok := subst[x.Name]; ok {
			return c16Atoms(d, states, subst)
		}
	case *ast.BinaryExpr:
		if x.Op == token.LAND {
			l, ok1 := c16Atoms(x.X, states, subst)
			r, ok2 := c16Atoms(x.Y, states, subst)
			return append(l, r...), ok1 && ok2
		}
		if x.Op == token.EQL {
			for _, pr := range [][2]ast.Expr{{x.X, x.Y}, {x.Y, x.X}} {
				f, ok := c16Field[c16Norm(pr[0], subst)]
				v, ok2 := states[strings.TrimPrefix(c16Norm(pr[1], subst), "sidecar.")]
				if ok && ok2 {
					return []string{fmt.Sprintf("(%d, %s)", f, v)}, true
				}
			}
		}
	}
	return nil, false
}

// c16Disjuncts splits `A || B || …` (through parentheses and once-assigned
// boolean locals) into its alternatives.
func c16Disjuncts(e ast.Expr, subst map[string]ast.Expr) []ast.Expr {
	switch x := e.(type) {
	case *ast.ParenExpr:
		return c16Disjuncts(x.X, subst)
	case *ast.Ident:
		if d, ok := subst[x.Name]; ok {
			if b, ok := c16Unparen(d).(*ast.BinaryExpr); ok && b.Op == token.LOR {
				return c16Disjuncts(d, subst)
			}
		}
	case *ast.BinaryExpr:
		if x.Op == token.LOR {
			return append(c16Disjuncts(x.X, subst), c16Disjuncts(x.Y, subst)...)
		}
	}
	return []ast.Expr{e}
}

// c16Calls lists, in source order, the driver / mailbox calls and goroutine
// spawns of a statement list.
func c16Calls(stmts []ast.Stmt) []string { return c16CallsD(stmts, 0) }

// c16CallsD lists, in source order, the driver / mailbox calls and goroutine
// spawns of a statement list; calls of methods of the same receiver are
// followed (their calls appear in place), local aliases are resolved.
func c16CallsD(stmts []ast.Stmt, depth int) []string {
	var calls []string
	local := c16OnceAssigned(&ast.BlockStmt{List: stmts})
	for _, s := range stmts {
		ast.Inspect(s, func(n ast.Node) bool {
			switch x := n.(type) {
			case *ast.FuncLit:
				return false
			case *ast.GoStmt:
				calls = append(calls, "go "+c16Norm(x.Call.Fun, local))
				return false
			case *ast.CallExpr:
				fn := c16Norm(x.Fun, local)
				if strings.HasPrefix(fn, "a.cfg.Driver.") || strings.HasPrefix(fn, "a.cfg.MailBox.") {
					calls = append(calls, strings.TrimPrefix(fn, "a.cfg."))
				} else if strings.HasPrefix(fn, "a.") && strings.Count(fn, ".") == 1 && depth < 2 {
					if fd := findFunc(c16Files, "SidecarNegotiator."+strings.TrimPrefix(fn, "a.")); fd != nil && fd.Body != nil {
						// arguments are evaluated first
						for _, a := range x.Args {
							calls = append(calls, c16CallsD([]ast.Stmt{&ast.ExprStmt{X: a}}, depth+1)...)
						}
						savedR, savedP := c16Recv, c16Pkt
						c16SetNames(fd)
						calls = append(calls, c16CallsD(fd.Body.List, depth+1)...)
						c16Recv, c16Pkt = savedR, savedP
						return false
					}
				}
			}
			return true
		})
	}
	return calls
}

// c16Return finds the last `return &SidecarPacket{...}, nil` of a clause.
func c16Return(stmts []ast.Stmt, states map[string]string) (res, recv, prov string) {
	return c16ReturnS(stmts, states, nil, 0)
}

func c16ReturnS(stmts []ast.Stmt, states map[string]string, outer map[string]ast.Expr, depth int) (res, recv, prov string) {
	res, recv, prov = "none", "", ""
	local := c16OnceAssigned(&ast.BlockStmt{List: stmts})
	for k, v := range outer {
		local[k] = v
	}
	for _, s := range stmts {
		ast.Inspect(s, func(n ast.Node) bool {
			r, ok := n.(*ast.ReturnStmt)
			if ok && len(r.Results) == 1 && depth < 2 {
				// `return a.helper(args…)`: the packet the helper returns,
				// with its parameters bound to the arguments
				if c, ok := r.Results[0].(*ast.CallExpr); ok {
					fn := c16Norm(c.Fun, local)
					if strings.HasPrefix(fn, "a.") && strings.Count(fn, ".") == 1 {
						if fd := findFunc(c16Files, "SidecarNegotiator."+strings.TrimPrefix(fn, "a.")); fd != nil && fd.Body != nil {
							bind := map[string]ast.Expr{}
							k := 0
							for _, f := range fd.Type.Params.List {
								for _, pn := range f.Names {
									if k < len(c.Args) {
										bind[pn.Name] = ast.NewIdent(c16Norm(c.Args[k], local))
									}
									k++
								}
							}
							if fd.Recv != nil && len(fd.Recv.List[0].Names) == 1 {
								bind[fd.Recv.List[0].Names[0].Name] = ast.NewIdent("a")
							}
							savedR, savedP := c16Recv, c16Pkt
							c16Recv, c16Pkt = "a", "pkt"
							r2, rv2, pv2 := c16ReturnS(fd.Body.List, states, bind, depth+1)
							c16Recv, c16Pkt = savedR, savedP
							if r2 != "none" {
								res, recv, prov = r2, rv2, pv2
							}
						}
					}
				}
				return true
			}
			if !ok || len(r.Results) != 2 {
				return true
			}
			u, ok := r.Results[0].(*ast.UnaryExpr)
			if !ok {
				return true
			}
			cl, ok := u.X.(*ast.CompositeLit)
			if !ok || exprString(cl.Type) != "SidecarPacket" {
				return true
			}
			for _, el := range cl.Elts {
				kv := el.(*ast.KeyValueExpr)
				switch exprString(kv.Key) {
				case "CurrentState":
					if v, ok := states[strings.TrimPrefix(exprString(kv.Value), "sidecar.")]; ok {
						res = "some " + v
					} else {
						fail("C16: non-constant CurrentState in return: %s", exprString(kv.Value))
					}
				case "ReceiverTicket":
					recv = c16Norm(kv.Value, local)
				case "ProviderTicket":
					prov = c16Norm(kv.Value, local)
				}
			}
			return true
		})
	}
	return
}

func c16TopSwitch(fd *ast.FuncDecl) *ast.SwitchStmt {
	if fd == nil || fd.Body == nil {
		return nil
	}
	for _, s := range fd.Body.List {
		if sw, ok := s.(*ast.SwitchStmt); ok && sw.Tag == nil {
			return sw
		}
	}
	return nil
}

func c16StepTable(l *leanFile, name string, fd *ast.FuncDecl, states map[string]string) {
	c16SetNames(fd)
	defer c16SetNames(nil)
	sw := c16TopSwitch(fd)
	if sw == nil {
		fail("C16: tagless switch of %s not found", name)
		l.p("def %s : List StepCase := []", name)
		return
	}
	l.p("def %s : List StepCase := [", name)
	var sigs []string
	var falls []bool
	fsub := c16OnceAssigned(fd.Body)
	type row struct {
		isDefault, fall  bool
		atoms            []string
		res, recv, prov  string
		calls            []string
	}
	var rows []row
	hasDefault := false
	for i, c := range sw.Body.List {
		cc := c.(*ast.CaseClause)
		if cc.List == nil {
			hasDefault = true
		}
		if len(cc.List) > 1 {
			fail("C16: %s case %d has %d expressions", name, i, len(cc.List))
		}
		fall := false
		if k := len(cc.Body); k > 0 {
			if b, ok := cc.Body[k-1].(*ast.BranchStmt); ok && b.Tok == token.FALLTHROUGH {
				fall = true
			}
		}
		res, recv, prov := c16Return(cc.Body, states)
		calls := c16Calls(cc.Body)
		if cc.List == nil {
			rows = append(rows, row{isDefault: true, fall: fall, res: res, recv: recv, prov: prov, calls: calls})
			continue
		}
		// `A || B`: the alternatives share the body, i.e. A falls through into B
		alts := c16Disjuncts(cc.List[0], fsub)
		for k, alt := range alts {
			atoms, ok := c16Atoms(alt, states, fsub)
			if !ok {
				fail("C16: %s case %d: condition %q is not a conjunction of state equalities", name, i, exprString(alt))
			}
			if k < len(alts)-1 {
				rows = append(rows, row{fall: true, atoms: atoms, res: "none"})
			} else {
				rows = append(rows, row{fall: fall, atoms: atoms, res: res, recv: recv, prov: prov, calls: calls})
			}
		}
	}
	if !hasDefault {
		// code after the switch plays the role of the default clause
		var after []ast.Stmt
		seen := false
		for _, st := range fd.Body.List {
			if seen {
				after = append(after, st)
			}
			if st == ast.Stmt(sw) {
				seen = true
			}
		}
		res, recv, prov := c16Return(after, states)
		rows = append(rows, row{isDefault: true, res: res, recv: recv, prov: prov, calls: c16Calls(after)})
	}
	for i, rw := range rows {
		sep := ","
		if i == len(rows)-1 {
			sep = ""
		}
		l.p("  { isDefault := %v, atoms := [%s], fall := %v, result := %s, calls := %s, retRecv := %q, retProv := %q }%s",
			rw.isDefault, strings.Join(rw.atoms, ", "), rw.fall, rw.res, leanStrList(rw.calls), rw.recv, rw.prov, sep)
		sa := append([]string{}, rw.atoms...)
		sort.Strings(sa)
		sigs = append(sigs, fmt.Sprintf("default=%v;guard=%s;result=%s;calls=%s;recv=%s;prov=%s", rw.isDefault,
			strings.Join(sa, "&"), rw.res, strings.Join(rw.calls, "+"), rw.recv, rw.prov))
		falls = append(falls, rw.fall)
	}
	l.p("]")
	// the clauses as a SET of (guard, effect) signatures; a clause that falls
	// through is described by the clause it falls into
	var set []string
	for i, sg := range sigs {
		if falls[i] && i+1 < len(sigs) {
			j := i + 1
			for j+1 < len(sigs) && falls[j] {
				j++
			}
			sg = strings.SplitN(sg, ";result=", 2)[0] + ";falls-into;result=" + strings.SplitN(sigs[j], ";result=", 2)[1]
		}
		set = append(set, sg)
	}
	sort.Strings(set)
	l.p("def %sSet : List String := %s", name, leanStrList(set))
}

// c16LoopFacts extracts the shape of a run loop: whether the finalization
// branch of the main select ends with `return`, the break conditions of the
// provider's stateUpdateLoop, and the calls of the finalization branch.
func c16LoopFacts(l *leanFile, name string, fd *ast.FuncDecl) {
	if fd == nil {
		fail("C16: %s not found", name)
		return
	}
	c16SetNames(fd)
	defer c16SetNames(nil)
	subst := c16FuncSubst(fd)
	subst[c16Recv] = ast.NewIdent("a")
	var finClause *ast.CommClause
	breakSet := map[string]bool{}
	ast.Inspect(fd.Body, func(n ast.Node) bool {
		switch x := n.(type) {
		case *ast.CommClause:
			// `case fin := <-a.ticketFinalized:` (any variable name)
			var rhs ast.Expr
			switch c := x.Comm.(type) {
			case *ast.AssignStmt:
				if len(c.Rhs) == 1 {
					rhs = c.Rhs[0]
				}
			case *ast.ExprStmt:
				rhs = c.X
			}
			if rhs != nil && strings.HasSuffix(exprString(rhs), ".ticketFinalized") && strings.HasPrefix(exprString(rhs), "<-") {
				finClause = x
			}
		case *ast.CaseClause:
			// `case cond: break label` of the provider's stateUpdateLoop
			if len(x.Body) == 1 {
				if b, ok := x.Body[0].(*ast.BranchStmt); ok && b.Tok == token.BREAK && b.Label != nil {
					for _, c := range x.List {
						breakSet[c16Canon(c, subst, 0)] = true
					}
				}
			}
		case *ast.IfStmt:
			// `if cond { break label }`
			if len(x.Body.List) == 1 && x.Else == nil {
				if b, ok := x.Body.List[0].(*ast.BranchStmt); ok && b.Tok == token.BREAK && b.Label != nil {
					for _, c := range c16Flatten(x.Cond, token.LOR, subst, 0) {
						breakSet[c] = true
					}
				}
			}
		}
		return true
	})
	if finClause == nil {
		fail("C16: %s: finalization branch not found", name)
		return
	}
	var breaks []string
	for b := range breakSet {
		breaks = append(breaks, b)
	}
	sort.Strings(breaks)
	finRet := false
	if k := len(finClause.Body); k > 0 {
		_, finRet = finClause.Body[k-1].(*ast.ReturnStmt)
	}
	// the cancel-notification condition of the finalization branch: the guard
	// under which the ticket is SENT to the other side (atoms, canonical, sorted)
	fsub := c16OnceAssigned(finClause)
	for k, v := range subst {
		if _, ok := fsub[k]; !ok {
			fsub[k] = v
		}
	}
	var cond []string
	ast.Inspect(finClause, func(n ast.Node) bool {
		if cond != nil {
			return false
		}
		sendsIn := func(list []ast.Stmt) bool {
			for _, c := range c16Calls(list) {
				if c == "MailBox.SendSidecarPkt" {
					return true
				}
			}
			return false
		}
		switch x := n.(type) {
		case *ast.CaseClause:
			if len(x.List) == 1 && sendsIn(x.Body) {
				cond = c16Conj(x.List[0], fsub)
			}
		case *ast.IfStmt:
			if sendsIn(x.Body.List) {
				cond = c16Conj(x.Cond, fsub)
			}
		}
		return true
	})
	// calls of the branch: the store write must come first, the rest is a set
	calls := c16Calls(finClause.Body)
	first := ""
	var rest []string
	if len(calls) > 0 {
		first = calls[0]
		seen := map[string]bool{}
		for _, c := range calls[1:] {
			if !seen[c] {
				seen[c] = true
				rest = append(rest, c)
			}
		}
		sort.Strings(rest)
	}
	l.p("def %sFinReturns : Bool := %v", name, finRet)
	l.p("def %sFinFirstCall : String := %q", name, first)
	l.p("def %sFinOtherCalls : List String := %s", name, leanStrList(rest))
	l.p("def %sFinNotifyCond : List String := %s", name, leanStrList(cond))
	l.p("def %sLoopBreaks : List String := %s", name, leanStrList(breaks))
	// the simulated starting packet: guard (canonical atoms) and value
	startGuard := []string{}
	startVal := ""
	ast.Inspect(fd.Body, func(n ast.Node) bool {
		switch x := n.(type) {
		case *ast.IfStmt:
			if len(x.Body.List) == 1 {
				if s, ok := x.Body.List[0].(*ast.SendStmt); ok && exprString(s.Chan) == "packetChan" {
					startGuard = c16Conj(x.Cond, subst)
					startVal = c16Canon(s.Value, subst, 0)
				}
			}
		case *ast.SendStmt:
			if exprString(x.Chan) == "packetChan" && startVal == "" && strings.HasPrefix(c16Canon(x.Value, subst, 0), "$") {
				startVal = c16Canon(x.Value, subst, 0)
			}
		}
		return true
	})
	l.p("def %sStartGuard : List String := %s", name, leanStrList(startGuard))
	l.p("def %sStartPacket : String := %q", name, startVal)

	// the reader goroutine's retry branch after a failed RecvSidecarPkt: which
	// mailbox calls it makes and whether anything in it can END the reader
	// (a return statement at any depth)
	var retryCalls []string
	canReturn, found := false, false
	ast.Inspect(fd.Body, func(n ast.Node) bool {
		cc, ok := n.(*ast.CommClause)
		if !ok || cc.Comm == nil {
			return true
		}
		var rx ast.Expr
		switch c := cc.Comm.(type) {
		case *ast.ExprStmt:
			rx = c.X
		case *ast.AssignStmt:
			if len(c.Rhs) == 1 {
				rx = c.Rhs[0]
			}
		}
		if rx == nil || !strings.Contains(exprString(rx), "backOff") {
			return true
		}
		found = true
		retryCalls = c16Calls(cc.Body)
		for _, st := range cc.Body {
			ast.Inspect(st, func(m ast.Node) bool {
				if _, ok := m.(*ast.ReturnStmt); ok {
					canReturn = true
				}
				if _, ok := m.(*ast.FuncLit); ok {
					return false
				}
				return true
			})
		}
		return true
	})
	if !found {
		fail("C16: %s: retry branch of the mailbox reader not found", name)
	}
	sort.Strings(retryCalls)
	l.p("def %sReaderRetryCalls : List String := %s", name, leanStrList(retryCalls))
	l.p("def %sReaderRetryCanEnd : Bool := %v", name, canReturn)
}

func genC16() {
	l := newLean("C16Facts", "C16: sidecar State enum, IsTerminal set, the case tables of stateStepProvider / "+
		"stateStepRecipient, run-loop shape and SidecarAcceptor.Start resume rules, read from the Go source.")
	l.p("namespace Pool.Gen.C16")
	l.p("structure StepCase where")
	l.p("  isDefault : Bool")
	l.p("  atoms : List (Nat × Nat)   -- (field: 0 pkt.CurrentState, 1 pkt.ReceiverTicket.State, 2 pkt.ProviderTicket.State; state value)")
	l.p("  fall : Bool                -- body ends with `fallthrough`")
	l.p("  result : Option Nat        -- CurrentState of the returned packet (none: the clause returns an error)")
	l.p("  calls : List String        -- driver / mailbox calls and goroutine spawns of the clause body, source order")
	l.p("  retRecv : String")
	l.p("  retProv : String")
	l.p("deriving DecidableEq, Repr")

	sc := pkgFiles("sidecar")
	ce := newConstEnv(sc)
	names := []string{"StateCreated", "StateOffered", "StateRegistered", "StateOrdered",
		"StateExpectingChannel", "StateCompleted", "StateCanceled"}
	states := map[string]string{}
	// every constant of type State declared in the package, in source order
	var all []string
	for _, f := range sc {
		for _, d := range f.Decls {
			gd, ok := d.(*ast.GenDecl)
			if !ok || gd.Tok != token.CONST {
				continue
			}
			for _, s := range gd.Specs {
				vs := s.(*ast.ValueSpec)
				if vs.Type != nil && exprString(vs.Type) == "State" {
					for _, n := range vs.Names {
						all = append(all, n.Name)
					}
				}
			}
		}
	}
	var pairs []string
	for _, n := range all {
		v := intConst(ce, "sidecar", n)
		states[n] = v
		pairs = append(pairs, fmt.Sprintf("(%q, %s)", n, v))
	}
	for _, n := range names {
		if _, ok := states[n]; !ok {
			fail("C16: sidecar.%s not declared", n)
			states[n] = "0"
		}
	}
	l.p("def sidecarStates : List (String × Nat) := [%s]", strings.Join(pairs, ", "))

	// State.IsTerminal, evaluated over the enum (whatever its shape)
	var term []string
	if fd := findFunc(sc, "State.IsTerminal"); fd != nil && fd.Recv != nil && len(fd.Recv.List[0].Names) == 1 {
		rn := fd.Recv.List[0].Names[0].Name
		for _, n := range all {
			v, _ := strconv.ParseInt(states[n], 10, 64)
			ev := &c16Eval{files: sc, states: states, input: v}
			res, ret, ok := ev.stmts(fd.Body.List, c16Env{rn: v})
			if !ret || !ok {
				fail("C16: State.IsTerminal cannot be evaluated for %s", n)
				continue
			}
			if res != 0 {
				term = append(term, states[n])
			}
		}
	} else {
		fail("C16: State.IsTerminal not found")
	}
	l.p("def terminalStates : List Nat := [%s]", strings.Join(term, ", "))

	root := pkgFiles(".")
	c16Files = root
	c16StepTable(l, "providerCases", findFunc(root, "SidecarNegotiator.stateStepProvider"), states)
	c16StepTable(l, "recipientCases", findFunc(root, "SidecarNegotiator.stateStepRecipient"), states)
	c16LoopFacts(l, "provider", findFunc(root, "SidecarNegotiator.autoSidecarProvider"))
	c16LoopFacts(l, "receiver", findFunc(root, "SidecarNegotiator.autoSidecarReceiver"))

	// TicketExecuted always stops the negotiator after the hand-off.
	te := findFunc(root, "SidecarNegotiator.TicketExecuted")
	stops := false
	if te != nil && len(te.Body.List) > 0 {
		// the last statement (or a deferred call) stops the negotiator
		switch x := te.Body.List[len(te.Body.List)-1].(type) {
		case *ast.ExprStmt:
			stops = strings.HasSuffix(exprString(x.X), ".Stop()")
		}
		for _, st := range te.Body.List {
			if d, ok := st.(*ast.DeferStmt); ok && strings.HasSuffix(exprString(d.Call), ".Stop()") {
				stops = true
			}
		}
	}
	l.p("def ticketExecutedStops : Bool := %v", stops)

	// SidecarAcceptor.Start resume rules: the state a negotiator is resumed in
	// is EVALUATED for every stored ticket state (inline code, if/switch or a
	// helper function make no difference); tickets and guard are canonicalised.
	st := findFunc(root, "SidecarAcceptor.Start")
	var remapP, remapR, autoCond, pkts []string
	if st == nil {
		fail("C16: SidecarAcceptor.Start not found")
	} else {
		// the loop variable over the stored tickets
		tv := "ticket"
		ast.Inspect(st.Body, func(n ast.Node) bool {
			if rs, ok := n.(*ast.RangeStmt); ok {
				hasLit := false
				ast.Inspect(rs.Body, func(m ast.Node) bool {
					if cl, ok := m.(*ast.CompositeLit); ok && exprString(cl.Type) == "AutoAcceptorConfig" {
						hasLit = true
					}
					return true
				})
				if id, ok := rs.Value.(*ast.Ident); ok && hasLit {
					tv = id.Name
				}
			}
			return true
		})
		tsub := map[string]ast.Expr{tv: ast.NewIdent("$ticket")}
		nLits := 0
		ast.Inspect(st.Body, func(n ast.Node) bool {
			switch x := n.(type) {
			case *ast.CaseClause:
				if len(x.List) == 1 && strings.Contains(exprString(x.List[0]), ".Offer.Auto") {
					autoCond = c16Conj(x.List[0], tsub)
				}
			case *ast.IfStmt:
				if strings.Contains(exprString(x.Cond), ".Offer.Auto") {
					autoCond = c16Conj(x.Cond, tsub)
				}
			case *ast.CompositeLit:
				if exprString(x.Type) != "AutoAcceptorConfig" {
					return true
				}
				nLits++
				role := ""
				var curExpr ast.Expr
				var fs []string
				for _, el := range x.Elts {
					kv, ok := el.(*ast.KeyValueExpr)
					if !ok {
						continue
					}
					switch exprString(kv.Key) {
					case "Provider":
						role = exprString(kv.Value)
					case "StartingPkt":
						if u, ok := kv.Value.(*ast.UnaryExpr); ok {
							if cl, ok := u.X.(*ast.CompositeLit); ok {
								for _, e2 := range cl.Elts {
									kv2, ok := e2.(*ast.KeyValueExpr)
									if !ok {
										continue
									}
									if exprString(kv2.Key) == "CurrentState" {
										curExpr = kv2.Value
									} else {
										fs = append(fs, exprString(kv2.Key)+"="+c16Canon(kv2.Value, tsub, 0))
									}
								}
							}
						}
					}
				}
				sort.Strings(fs)
				pkts = append(pkts, "provider="+role+";"+strings.Join(fs, ","))
				if curExpr == nil {
					fail("C16: Start: StartingPkt.CurrentState of the %s negotiator not found", role)
					return true
				}
				before := c16EnclosingList(st, x)
				var remap []string
				for _, n := range all {
					v, _ := strconv.ParseInt(states[n], 10, 64)
					ev := &c16Eval{files: root, states: states, input: v}
					env := c16Env{}
					ev.stmts(before, env)
					res, ok := ev.expr(curExpr, env)
					if !ok {
						fail("C16: Start: resume state of the %s negotiator cannot be evaluated for %s", role, n)
						continue
					}
					if res != v {
						remap = append(remap, fmt.Sprintf("(%d, %d)", v, res))
					}
				}
				if role == "true" {
					remapP = remap
				} else {
					remapR = remap
				}
			}
			return true
		})
		sort.Strings(pkts)
		if nLits != 2 {
			fail("C16: Start: expected a provider and a recipient negotiator, found %d", nLits)
		}
		if autoCond == nil {
			fail("C16: Start: auto-negotiation resume condition not found")
		}
	}
	// clientdb.removeBidTemplate: the guards that return nil early (canonical,
	// sorted) and whether a template that is already gone is tolerated: the
	// error of DeleteBucket is compared with bbolt.ErrBucketNotFound somewhere
	// (==, != or errors.Is) and the function can still end with `return nil`
	cdb := pkgFiles("clientdb")
	var nilGuards []string
	tolerates, endsNil := false, false
	if fd := findFunc(cdb, "removeBidTemplate"); fd != nil {
		rsub := c16FuncSubst(fd)
		ast.Inspect(fd.Body, func(n ast.Node) bool {
			switch x := n.(type) {
			case *ast.IfStmt:
				if len(x.Body.List) == 1 {
					if r, ok := x.Body.List[0].(*ast.ReturnStmt); ok && len(r.Results) == 1 && exprString(r.Results[0]) == "nil" {
						c := c16Canon(x.Cond, rsub, 0)
						if !strings.Contains(c, "ErrBucketNotFound") {
							nilGuards = append(nilGuards, c)
						}
					}
				}
			case *ast.SelectorExpr:
				if x.Sel.Name == "ErrBucketNotFound" {
					tolerates = true
				}
			}
			return true
		})
		if k := len(fd.Body.List); k > 0 {
			if r, ok := fd.Body.List[k-1].(*ast.ReturnStmt); ok && len(r.Results) == 1 && exprString(r.Results[0]) == "nil" {
				endsNil = true
			}
		}
		// `if err == ErrBucketNotFound { return nil }; return err` is the same
		ast.Inspect(fd.Body, func(n ast.Node) bool {
			if x, ok := n.(*ast.IfStmt); ok && strings.Contains(exprString(x.Cond), "ErrBucketNotFound") {
				ast.Inspect(x.Body, func(m ast.Node) bool {
					if r, ok := m.(*ast.ReturnStmt); ok && len(r.Results) == 1 && exprString(r.Results[0]) == "nil" {
						endsNil = true
					}
					return true
				})
			}
			return true
		})
		sort.Strings(nilGuards)
	} else {
		fail("C16: clientdb.removeBidTemplate not found")
	}
	l.p("def removeBidTemplateNilGuards : List String := %s", leanStrList(nilGuards))
	l.p("def removeBidTemplateToleratesMissing : Bool := %v", tolerates && endsNil)
	// DB.UpdateSidecar: the guard under which the template is removed
	var upd []string
	if fd := findFunc(cdb, "DB.UpdateSidecar"); fd != nil {
		ast.Inspect(fd.Body, func(n ast.Node) bool {
			if x, ok := n.(*ast.IfStmt); ok && strings.Contains(exprString(x.Cond), "IsTerminal") {
				upd = c16Conj(x.Cond, c16FuncSubst(fd))
			}
			return true
		})
	}
	if upd == nil {
		fail("C16: DB.UpdateSidecar: terminal-state guard not found")
	}
	l.p("def updateSidecarTemplateGuard : List String := %s", leanStrList(upd))
	// rpcServer.CancelSidecar: the state handed to the negotiator through
	// FinalizeTicket. The last assignment to `<ticket>.State` before the
	// (last) top-level FinalizeTicket call must be StateCanceled.
	cancelHandsCanceled := false
	if fd := findFunc(root, "rpcServer.CancelSidecar"); fd != nil {
		last := ""
		for _, st := range fd.Body.List {
			switch x := st.(type) {
			case *ast.AssignStmt:
				if len(x.Lhs) == 1 && len(x.Rhs) == 1 {
					if sel, ok := x.Lhs[0].(*ast.SelectorExpr); ok && sel.Sel.Name == "State" {
						last = strings.TrimPrefix(exprString(x.Rhs[0]), "sidecar.")
					}
				}
			case *ast.ExprStmt:
				if c, ok := x.X.(*ast.CallExpr); ok && strings.HasSuffix(exprString(c.Fun), ".FinalizeTicket") {
					cancelHandsCanceled = last == "StateCanceled"
				}
			}
		}
	} else {
		fail("C16: rpcServer.CancelSidecar not found")
	}
	l.p("def cancelSidecarHandsCanceled : Bool := %v", cancelHandsCanceled)

	// clientdb.DB.Sidecars: the nested bid-template bucket (nil value) is
	// SKIPPED without ending the iteration: `return nil` inside a ForEach
	// callback, or `continue` inside a cursor loop
	skips := false
	if fd := findFunc(cdb, "DB.Sidecars"); fd != nil {
		var walk func(n ast.Node, inCallback, inLoop bool)
		walk = func(n ast.Node, inCallback, inLoop bool) {
			ast.Inspect(n, func(m ast.Node) bool {
				switch x := m.(type) {
				case *ast.CallExpr:
					if strings.HasSuffix(exprString(x.Fun), ".ForEach") && len(x.Args) == 1 {
						if fl, ok := x.Args[0].(*ast.FuncLit); ok {
							walk(fl.Body, true, false)
							return false
						}
					}
				case *ast.ForStmt:
					walk(x.Body, false, true)
					return false
				case *ast.RangeStmt:
					walk(x.Body, false, true)
					return false
				case *ast.IfStmt:
					c := c16Canon(x.Cond, nil, 0)
					if (strings.HasSuffix(c, "== nil") || strings.HasPrefix(c, "nil == ")) && !strings.Contains(c, "err") &&
						len(x.Body.List) == 1 {
						switch b := x.Body.List[0].(type) {
						case *ast.ReturnStmt:
							if inCallback && len(b.Results) == 1 && exprString(b.Results[0]) == "nil" {
								skips = true
							}
						case *ast.BranchStmt:
							if inLoop && b.Tok == token.CONTINUE {
								skips = true
							}
						}
					}
				}
				return true
			})
		}
		walk(fd.Body, false, false)
	} else {
		fail("C16: clientdb.DB.Sidecars not found")
	}
	l.p("def sidecarsSkipsNestedBucket : Bool := %v", skips)
	l.p("def resumeRemap : List (Nat × Nat) := [%s]", strings.Join(remapP, ", "))
	l.p("def recipientResumeRemap : List (Nat × Nat) := [%s]", strings.Join(remapR, ", "))
	l.p("def resumeCond : List String := %s", leanStrList(autoCond))
	l.p("def resumePackets : List String := %s", leanStrList(pkts))
	l.p("end Pool.Gen.C16")
}
