//go:build verif

package main

import (
	"fmt"
	"go/ast"
	"go/token"
	"strings"
)

func init() { jobs = append(jobs, job{props: []string{"C16"}, fn: genC16}) }

// c16Field maps the three expressions the step functions switch on to the
// field index used by the Lean case-table interpreter.
var c16Field = map[string]int{
	"pkt.CurrentState":         0,
	"pkt.ReceiverTicket.State": 1,
	"pkt.ProviderTicket.State": 2,
}

// c16Atoms flattens a case condition `a == S && b == T && ...` into
// (field, state value) pairs in evaluation order.
func c16Atoms(e ast.Expr, states map[string]string) ([]string, bool) {
	switch x := e.(type) {
	case *ast.ParenExpr:
		return c16Atoms(x.X, states)
	case *ast.BinaryExpr:
		if x.Op == token.LAND {
			l, ok1 := c16Atoms(x.X, states)
			r, ok2 := c16Atoms(x.Y, states)
			return append(l, r...), ok1 && ok2
		}
		if x.Op == token.EQL {
			f, ok := c16Field[exprString(x.X)]
			v, ok2 := states[strings.TrimPrefix(exprString(x.Y), "sidecar.")]
			if ok && ok2 {
				return []string{fmt.Sprintf("(%d, %s)", f, v)}, true
			}
		}
	}
	return nil, false
}

// c16Calls lists, in source order, the driver / mailbox calls and goroutine
// spawns of a statement list.
func c16Calls(stmts []ast.Stmt) []string {
	var calls []string
	for _, s := range stmts {
		ast.Inspect(s, func(n ast.Node) bool {
			switch x := n.(type) {
			case *ast.GoStmt:
				calls = append(calls, "go "+exprString(x.Call.Fun))
				return false
			case *ast.CallExpr:
				fn := exprString(x.Fun)
				if strings.HasPrefix(fn, "a.cfg.Driver.") || strings.HasPrefix(fn, "a.cfg.MailBox.") {
					calls = append(calls, strings.TrimPrefix(fn, "a.cfg."))
				}
			}
			return true
		})
	}
	return calls
}

// c16Return finds the last `return &SidecarPacket{...}, nil` of a clause.
func c16Return(stmts []ast.Stmt, states map[string]string) (res, recv, prov string) {
	res, recv, prov = "none", "", ""
	for _, s := range stmts {
		ast.Inspect(s, func(n ast.Node) bool {
			r, ok := n.(*ast.ReturnStmt)
			if !ok || len(r.Results) != 2 {
				return true
			}
			u, ok := r.Results[0].(*ast.UnaryExpr)
			if !ok {
				return true
			}
			cl, ok := u.X.(*ast.CompositeLit)
			if !ok || exprString(cl.Type) != "SidecarPacket" {
				return true
			}
			for _, el := range cl.Elts {
				kv := el.(*ast.KeyValueExpr)
				switch exprString(kv.Key) {
				case "CurrentState":
					if v, ok := states[strings.TrimPrefix(exprString(kv.Value), "sidecar.")]; ok {
						res = "some " + v
					} else {
						fail("C16: non-constant CurrentState in return: %s", exprString(kv.Value))
					}
				case "ReceiverTicket":
					recv = exprString(kv.Value)
				case "ProviderTicket":
					prov = exprString(kv.Value)
				}
			}
			return true
		})
	}
	return
}

func c16TopSwitch(fd *ast.FuncDecl) *ast.SwitchStmt {
	if fd == nil || fd.Body == nil {
		return nil
	}
	for _, s := range fd.Body.List {
		if sw, ok := s.(*ast.SwitchStmt); ok && sw.Tag == nil {
			return sw
		}
	}
	return nil
}

func c16StepTable(l *leanFile, name string, fd *ast.FuncDecl, states map[string]string) {
	sw := c16TopSwitch(fd)
	if sw == nil {
		fail("C16: tagless switch of %s not found", name)
		l.p("def %s : List StepCase := []", name)
		return
	}
	l.p("def %s : List StepCase := [", name)
	n := len(sw.Body.List)
	for i, c := range sw.Body.List {
		cc := c.(*ast.CaseClause)
		var atoms []string
		if len(cc.List) == 1 {
			var ok bool
			atoms, ok = c16Atoms(cc.List[0], states)
			if !ok {
				fail("C16: %s case %d: condition %q is not a conjunction of state equalities", name, i, exprString(cc.List[0]))
			}
		} else if len(cc.List) > 1 {
			fail("C16: %s case %d has %d expressions", name, i, len(cc.List))
		}
		isDefault := cc.List == nil
		fall := false
		if k := len(cc.Body); k > 0 {
			if b, ok := cc.Body[k-1].(*ast.BranchStmt); ok && b.Tok == token.FALLTHROUGH {
				fall = true
			}
		}
		res, recv, prov := c16Return(cc.Body, states)
		sep := ","
		if i == n-1 {
			sep = ""
		}
		l.p("  { isDefault := %v, atoms := [%s], fall := %v, result := %s, calls := %s, retRecv := %q, retProv := %q }%s",
			isDefault, strings.Join(atoms, ", "), fall, res, leanStrList(c16Calls(cc.Body)), recv, prov, sep)
	}
	l.p("]")
}

// c16LoopFacts extracts the shape of a run loop: whether the finalization
// branch of the main select ends with `return`, the break conditions of the
// provider's stateUpdateLoop, and the calls of the finalization branch.
func c16LoopFacts(l *leanFile, name string, fd *ast.FuncDecl) {
	if fd == nil {
		fail("C16: %s not found", name)
		return
	}
	var finClause *ast.CommClause
	var breaks []string
	ast.Inspect(fd.Body, func(n ast.Node) bool {
		switch x := n.(type) {
		case *ast.CommClause:
			if as, ok := x.Comm.(*ast.AssignStmt); ok && len(as.Rhs) == 1 &&
				exprString(as.Rhs[0]) == "<-a.ticketFinalized" {
				finClause = x
			}
		case *ast.CaseClause:
			if len(x.Body) == 1 {
				if b, ok := x.Body[0].(*ast.BranchStmt); ok && b.Tok == token.BREAK && b.Label != nil && len(x.List) == 1 {
					breaks = append(breaks, exprString(x.List[0]))
				}
			}
		}
		return true
	})
	if finClause == nil {
		fail("C16: %s: finalization branch not found", name)
		return
	}
	finRet := false
	if k := len(finClause.Body); k > 0 {
		_, finRet = finClause.Body[k-1].(*ast.ReturnStmt)
	}
	// the cancel-notification condition of the finalization branch
	cond := ""
	ast.Inspect(finClause, func(n ast.Node) bool {
		if sw, ok := n.(*ast.SwitchStmt); ok && sw.Tag == nil && cond == "" && len(sw.Body.List) > 0 {
			cc := sw.Body.List[0].(*ast.CaseClause)
			if len(cc.List) == 1 {
				cond = strings.Join(strings.Fields(exprString(cc.List[0])), " ")
			}
		}
		return true
	})
	l.p("def %sFinReturns : Bool := %v", name, finRet)
	l.p("def %sFinCalls : List String := %s", name, leanStrList(c16Calls(finClause.Body)))
	l.p("def %sFinNotifyCond : String := %q", name, cond)
	l.p("def %sLoopBreaks : List String := %s", name, leanStrList(breaks))
	// the simulated starting packet
	start := ""
	ast.Inspect(fd.Body, func(n ast.Node) bool {
		switch x := n.(type) {
		case *ast.IfStmt:
			if len(x.Body.List) == 1 {
				if s, ok := x.Body.List[0].(*ast.SendStmt); ok && exprString(s.Chan) == "packetChan" {
					start = "if " + exprString(x.Cond) + " then " + exprString(s.Value)
				}
			}
		case *ast.SendStmt:
			if exprString(x.Chan) == "packetChan" && start == "" && strings.HasPrefix(exprString(x.Value), "startingPkt.") {
				start = exprString(x.Value)
			}
		}
		return true
	})
	l.p("def %sStartPacket : String := %q", name, start)

	// the reader goroutine's retry branch after a failed RecvSidecarPkt: the
	// statements after the back-off (the re-initialisation of the mailbox must
	// not be able to end the reader)
	var retry []string
	found := false
	ast.Inspect(fd.Body, func(n ast.Node) bool {
		cc, ok := n.(*ast.CommClause)
		if !ok || cc.Comm == nil {
			return true
		}
		es, ok := cc.Comm.(*ast.ExprStmt)
		if !ok || !strings.Contains(exprString(es.X), "retryTimer.backOff") {
			return true
		}
		found = true
		for _, st := range cc.Body {
			switch x := st.(type) {
			case *ast.AssignStmt:
				lhs := []string{}
				for _, e := range x.Lhs {
					lhs = append(lhs, exprString(e))
				}
				rhs := ""
				if len(x.Rhs) == 1 {
					if c, ok := x.Rhs[0].(*ast.CallExpr); ok {
						rhs = strings.TrimPrefix(exprString(c.Fun), "a.cfg.")
					}
				}
				retry = append(retry, strings.Join(lhs, ",")+" "+x.Tok.String()+" "+rhs)
			case *ast.BranchStmt:
				retry = append(retry, x.Tok.String())
			case *ast.ReturnStmt:
				retry = append(retry, "return")
			case *ast.IfStmt:
				kind := "if"
				ast.Inspect(x, func(m ast.Node) bool {
					if _, ok := m.(*ast.ReturnStmt); ok {
						kind = "if-return"
					}
					return true
				})
				retry = append(retry, kind)
			default:
				retry = append(retry, "stmt")
			}
		}
		return true
	})
	if !found {
		fail("C16: %s: retry branch of the mailbox reader not found", name)
	}
	l.p("def %sReaderRetry : List String := %s", name, leanStrList(retry))
}

func genC16() {
	l := newLean("C16Facts", "C16: sidecar State enum, IsTerminal set, the case tables of stateStepProvider / "+
		"stateStepRecipient, run-loop shape and SidecarAcceptor.Start resume rules, read from the Go source.")
	l.p("namespace Pool.Gen.C16")
	l.p("structure StepCase where")
	l.p("  isDefault : Bool")
	l.p("  atoms : List (Nat × Nat)   -- (field: 0 pkt.CurrentState, 1 pkt.ReceiverTicket.State, 2 pkt.ProviderTicket.State; state value)")
	l.p("  fall : Bool                -- body ends with `fallthrough`")
	l.p("  result : Option Nat        -- CurrentState of the returned packet (none: the clause returns an error)")
	l.p("  calls : List String        -- driver / mailbox calls and goroutine spawns of the clause body, source order")
	l.p("  retRecv : String")
	l.p("  retProv : String")
	l.p("deriving DecidableEq, Repr")

	sc := pkgFiles("sidecar")
	ce := newConstEnv(sc)
	names := []string{"StateCreated", "StateOffered", "StateRegistered", "StateOrdered",
		"StateExpectingChannel", "StateCompleted", "StateCanceled"}
	states := map[string]string{}
	// every constant of type State declared in the package, in source order
	var all []string
	for _, f := range sc {
		for _, d := range f.Decls {
			gd, ok := d.(*ast.GenDecl)
			if !ok || gd.Tok != token.CONST {
				continue
			}
			for _, s := range gd.Specs {
				vs := s.(*ast.ValueSpec)
				if vs.Type != nil && exprString(vs.Type) == "State" {
					for _, n := range vs.Names {
						all = append(all, n.Name)
					}
				}
			}
		}
	}
	var pairs []string
	for _, n := range all {
		v := intConst(ce, "sidecar", n)
		states[n] = v
		pairs = append(pairs, fmt.Sprintf("(%q, %s)", n, v))
	}
	for _, n := range names {
		if _, ok := states[n]; !ok {
			fail("C16: sidecar.%s not declared", n)
			states[n] = "0"
		}
	}
	l.p("def sidecarStates : List (String × Nat) := [%s]", strings.Join(pairs, ", "))

	// State.IsTerminal
	var term []string
	if fd := findFunc(sc, "State.IsTerminal"); fd != nil {
		ast.Inspect(fd.Body, func(n ast.Node) bool {
			cc, ok := n.(*ast.CaseClause)
			if !ok || len(cc.Body) != 1 {
				return true
			}
			r, ok := cc.Body[0].(*ast.ReturnStmt)
			if !ok || len(r.Results) != 1 || exprString(r.Results[0]) != "true" {
				return true
			}
			for _, e := range cc.List {
				if v, ok := states[exprString(e)]; ok {
					term = append(term, v)
				} else {
					fail("C16: IsTerminal case %s unknown", exprString(e))
				}
			}
			return true
		})
	} else {
		fail("C16: State.IsTerminal not found")
	}
	l.p("def terminalStates : List Nat := [%s]", strings.Join(term, ", "))

	root := pkgFiles(".")
	c16StepTable(l, "providerCases", findFunc(root, "SidecarNegotiator.stateStepProvider"), states)
	c16StepTable(l, "recipientCases", findFunc(root, "SidecarNegotiator.stateStepRecipient"), states)
	c16LoopFacts(l, "provider", findFunc(root, "SidecarNegotiator.autoSidecarProvider"))
	c16LoopFacts(l, "receiver", findFunc(root, "SidecarNegotiator.autoSidecarReceiver"))

	// TicketExecuted always stops the negotiator after the hand-off.
	te := findFunc(root, "SidecarNegotiator.TicketExecuted")
	stops := false
	if te != nil && len(te.Body.List) > 0 {
		if es, ok := te.Body.List[len(te.Body.List)-1].(*ast.ExprStmt); ok && exprString(es.X) == "a.Stop()" {
			stops = true
		}
	}
	l.p("def ticketExecutedStops : Bool := %v", stops)

	// SidecarAcceptor.Start resume rules
	st := findFunc(root, "SidecarAcceptor.Start")
	var remap, autoCond string
	var pkts []string
	if st == nil {
		fail("C16: SidecarAcceptor.Start not found")
	} else {
		ast.Inspect(st.Body, func(n ast.Node) bool {
			switch x := n.(type) {
			case *ast.IfStmt:
				if exprString(x.Cond) == "state == sidecar.StateOffered" && len(x.Body.List) == 1 {
					if as, ok := x.Body.List[0].(*ast.AssignStmt); ok && exprString(as.Lhs[0]) == "state" {
						if v, ok := states[strings.TrimPrefix(exprString(as.Rhs[0]), "sidecar.")]; ok {
							remap = fmt.Sprintf("(%s, %s)", states["StateOffered"], v)
						}
					}
				}
			case *ast.CaseClause:
				if len(x.List) == 1 && strings.Contains(exprString(x.List[0]), "ticket.Offer.Auto") {
					autoCond = strings.Join(strings.Fields(exprString(x.List[0])), " ")
				}
			case *ast.CompositeLit:
				if exprString(x.Type) == "AutoAcceptorConfig" {
					role, sp := "", ""
					for _, el := range x.Elts {
						kv := el.(*ast.KeyValueExpr)
						switch exprString(kv.Key) {
						case "Provider":
							role = exprString(kv.Value)
						case "StartingPkt":
							if u, ok := kv.Value.(*ast.UnaryExpr); ok {
								if cl, ok := u.X.(*ast.CompositeLit); ok {
									var fs []string
									for _, e2 := range cl.Elts {
										kv2 := e2.(*ast.KeyValueExpr)
										fs = append(fs, exprString(kv2.Key)+"="+exprString(kv2.Value))
									}
									sp = strings.Join(fs, ",")
								}
							}
						}
					}
					pkts = append(pkts, "provider="+role+";"+sp)
				}
			}
			return true
		})
		if remap == "" {
			fail("C16: Start: `if state == sidecar.StateOffered { state = ... }` not found")
		}
		if autoCond == "" {
			fail("C16: Start: auto-negotiation resume condition not found")
		}
	}
	// clientdb.removeBidTemplate: which conditions return nil, and whether a
	// missing template bucket (second terminal update) is tolerated
	cdb := pkgFiles("clientdb")
	var rbt []string
	if fd := findFunc(cdb, "removeBidTemplate"); fd != nil {
		for _, st := range fd.Body.List {
			switch x := st.(type) {
			case *ast.IfStmt:
				ret := "?"
				if len(x.Body.List) == 1 {
					if r, ok := x.Body.List[0].(*ast.ReturnStmt); ok && len(r.Results) == 1 {
						ret = exprString(r.Results[0])
					}
				}
				rbt = append(rbt, "if "+strings.Join(strings.Fields(exprString(x.Cond)), " ")+" return "+ret)
			case *ast.ReturnStmt:
				if len(x.Results) == 1 {
					rbt = append(rbt, "return "+strings.Join(strings.Fields(exprString(x.Results[0])), " "))
				}
			case *ast.AssignStmt:
				if len(x.Rhs) == 1 {
					if c, ok := x.Rhs[0].(*ast.CallExpr); ok {
						rbt = append(rbt, exprString(x.Lhs[0])+" := "+exprString(c.Fun))
					}
				}
			}
		}
	} else {
		fail("C16: clientdb.removeBidTemplate not found")
	}
	l.p("def removeBidTemplateShape : List String := %s", leanStrList(rbt))
	// DB.UpdateSidecar: the guard under which the template is removed
	upd := ""
	if fd := findFunc(cdb, "DB.UpdateSidecar"); fd != nil {
		ast.Inspect(fd.Body, func(n ast.Node) bool {
			if x, ok := n.(*ast.IfStmt); ok && strings.Contains(exprString(x.Cond), "IsTerminal") {
				upd = strings.Join(strings.Fields(exprString(x.Cond)), " ")
			}
			return true
		})
	}
	if upd == "" {
		fail("C16: DB.UpdateSidecar: terminal-state guard not found")
	}
	l.p("def updateSidecarTemplateGuard : String := %q", upd)
	l.p("def resumeRemap : List (Nat × Nat) := [%s]", remap)
	l.p("def resumeCond : String := %q", autoCond)
	l.p("def resumePackets : List String := %s", leanStrList(pkts))
	l.p("end Pool.Gen.C16")
}
