//go:build verif

package main

import (
	"go/ast"
	"go/printer"
	"go/token"
	"sort"
	"strings"
)

// C05 facts: the statement ORDER of manager.BatchSign and of the Sign case of
// rpcServer.handleServerMessage as flat programs, and the sighash types /
// transaction arguments / input-matching condition of batchSigner.Sign.
//
// A program is a list of statements; each statement is a list of strings:
//
//	["call", <callee>, <arg>...]              x, err := f(args) / err = f(args) / f(args)
//	["iferr", <calls in body>, <result>...]   if err != nil { ...; return ... }
//	["ifnil", <x>, <calls in body>, <result>...]  if x == nil { ...; return ... }
//	["assign", <lhs>, <rhs>]                  plain assignment
//	["return", <result>...]                   return statement
//	["other", <kind>]                     anything else (kept so that nothing is silently dropped)
//
// Logging calls (receiver `log` / `rpcLog`) are dropped.
func init() { jobs = append(jobs, job{props: []string{"C05"}, fn: genC05Facts}) }

func c05IsLog(call *ast.CallExpr) bool {
	s := exprString(call.Fun)
	return strings.HasPrefix(s, "log.") || strings.HasPrefix(s, "rpcLog.")
}

func c05ExprSummary(e ast.Expr) string {
	switch x := e.(type) {
	case *ast.Ident:
		return x.Name
	case *ast.CallExpr:
		return exprString(x.Fun) + "()"
	default:
		return exprString(e)
	}
}

func c05Join(es []ast.Expr, f func(ast.Expr) string) string {
	var s []string
	for _, e := range es {
		s = append(s, f(e))
	}
	return strings.Join(s, ",")
}

func c05IsErrCheck(e ast.Expr) bool {
	b, ok := e.(*ast.BinaryExpr)
	if !ok || b.Op != token.NEQ {
		return false
	}
	x, ok1 := b.X.(*ast.Ident)
	y, ok2 := b.Y.(*ast.Ident)
	return ok1 && ok2 && x.Name == "err" && y.Name == "nil"
}

// c05Flat flattens statement lists into the program form described above,
// reading semantics rather than spelling:
//   - locals are named by the expression that defined them (`x, y, err := f()`
//     makes x = "f#0", y = "f#1"), so renaming a local changes nothing;
//   - a tail call `return s.helper(args)` / `s.helper(args)` to a method of the
//     same receiver (or a plain function of the same package) that is not one of
//     the primitives is inlined (two levels), parameters replaced by arguments;
//   - error values (`err`, fmt.Errorf(...), errors.New(...)) are all "<err>";
//   - logging and var declarations are dropped.
type c05Flat struct {
	files []*ast.File
	recv  string            // receiver type of the function being flattened ("" = none)
	prim  map[string]bool   // callee names that are never inlined
	prog  [][]string
}

func c05IsIdentChar(c byte) bool {
	return c == '_' || c >= 'a' && c <= 'z' || c >= 'A' && c <= 'Z' || c >= '0' && c <= '9'
}

// c05Subst replaces free identifiers (not selector fields) by their canonical names.
func c05Subst(s string, env map[string]string) string {
	var sb strings.Builder
	for i := 0; i < len(s); {
		if c05IsIdentChar(s[i]) && !(s[i] >= '0' && s[i] <= '9') {
			j := i
			for j < len(s) && c05IsIdentChar(s[j]) {
				j++
			}
			w := s[i:j]
			if v, ok := env[w]; ok && (i == 0 || s[i-1] != '.') {
				sb.WriteString(v)
			} else {
				sb.WriteString(w)
			}
			i = j
			continue
		}
		sb.WriteByte(s[i])
		i++
	}
	return sb.String()
}

func c05IsErrValue(e ast.Expr) bool {
	switch x := e.(type) {
	case *ast.Ident:
		return x.Name == "err"
	case *ast.CallExpr:
		f := exprString(x.Fun)
		return strings.HasPrefix(f, "fmt.") || strings.HasPrefix(f, "errors.")
	}
	return false
}

func (f *c05Flat) summary(e ast.Expr, env map[string]string) string {
	if c05IsErrValue(e) {
		return "<err>"
	}
	switch x := e.(type) {
	case *ast.Ident:
		return c05Subst(x.Name, env)
	case *ast.CallExpr:
		return c05Subst(exprString(x.Fun), env) + "()"
	default:
		return c05Subst(c05OneLine(exprString(e)), env)
	}
}

// helper returns the declaration of a same-receiver method / same-package
// function that may be inlined.
func (f *c05Flat) helper(c *ast.CallExpr) *ast.FuncDecl {
	name := exprString(c.Fun)
	if f.prim[name] {
		return nil
	}
	switch x := c.Fun.(type) {
	case *ast.Ident:
		return findFunc(f.files, x.Name)
	case *ast.SelectorExpr:
		if id, ok := x.X.(*ast.Ident); ok && f.recv != "" {
			fd := findFunc(f.files, f.recv+"."+x.Sel.Name)
			if fd != nil && fd.Recv != nil && len(fd.Recv.List[0].Names) == 1 && id.Obj != nil {
				return fd
			}
			if fd != nil && fd.Recv != nil {
				return fd
			}
		}
	}
	return nil
}

// inline flattens the body of a helper in tail position.
func (f *c05Flat) inline(fd *ast.FuncDecl, c *ast.CallExpr, env map[string]string, depth int) bool {
	if fd == nil || fd.Body == nil || depth <= 0 {
		return false
	}
	sub := map[string]string{}
	if fd.Recv != nil && len(fd.Recv.List[0].Names) == 1 {
		if sel, ok := c.Fun.(*ast.SelectorExpr); ok {
			sub[fd.Recv.List[0].Names[0].Name] = c05Subst(exprString(sel.X), env)
		}
	}
	i := 0
	for _, fld := range fd.Type.Params.List {
		for _, n := range fld.Names {
			if i < len(c.Args) {
				sub[n.Name] = c05Subst(c05OneLine(exprString(c.Args[i])), env)
			}
			i++
		}
	}
	f.stmts(fd.Body.List, sub, depth-1)
	return true
}

func (f *c05Flat) callStmt(c *ast.CallExpr, lhs []ast.Expr, env map[string]string) {
	if c05IsLog(c) {
		return
	}
	callee := c05Subst(exprString(c.Fun), env)
	row := []string{"call", callee}
	if len(c.Args) == 0 {
		row = append(row, "")
	}
	for _, a := range c.Args {
		row = append(row, c05Subst(c05OneLine(exprString(a)), env))
	}
	f.prog = append(f.prog, row)
	// name the results after the call that produced them
	for i, l := range lhs {
		if id, ok := l.(*ast.Ident); ok && id.Name != "err" && id.Name != "_" {
			env[id.Name] = callee + "#" + string(rune('0'+i))
		}
	}
}

func (f *c05Flat) stmts(list []ast.Stmt, env map[string]string, depth int) {
	for _, s := range list {
		f.stmt(s, env, depth)
	}
}

func (f *c05Flat) stmt(s ast.Stmt, env map[string]string, depth int) {
	switch x := s.(type) {
	case *ast.AssignStmt:
		if len(x.Rhs) == 1 {
			if c, ok := x.Rhs[0].(*ast.CallExpr); ok {
				f.callStmt(c, x.Lhs, env)
				return
			}
		}
		f.prog = append(f.prog, []string{"assign",
			c05Subst(c05Join(x.Lhs, exprString), env), c05Subst(c05Join(x.Rhs, exprString), env)})
	case *ast.ExprStmt:
		if c, ok := x.X.(*ast.CallExpr); ok {
			if c05IsLog(c) {
				return
			}
			f.callStmt(c, nil, env)
			return
		}
		f.prog = append(f.prog, []string{"other", "expr"})
	case *ast.IfStmt:
		if x.Init != nil {
			f.stmt(x.Init, env, depth)
		}
		kind, nilOf := "iferr", ""
		if b, ok := x.Cond.(*ast.BinaryExpr); ok && b.Op == token.EQL &&
			(exprString(b.Y) == "nil" || exprString(b.X) == "nil") {
			// `if batch == nil { ...; return ... }` guard
			kind = "ifnil"
			if exprString(b.Y) == "nil" {
				nilOf = c05Subst(exprString(b.X), env)
			} else {
				nilOf = c05Subst(exprString(b.Y), env)
			}
		} else if !c05IsErrCheck(x.Cond) {
			f.prog = append(f.prog, []string{"other", "if " + c05Subst(c05OneLine(exprString(x.Cond)), env)})
			return
		}
		if x.Else != nil {
			f.prog = append(f.prog, []string{"other", "if-else"})
			return
		}
		var calls []string
		rets := []string{"<no-return>"}
		for _, b := range x.Body.List {
			switch y := b.(type) {
			case *ast.ExprStmt:
				if c, ok := y.X.(*ast.CallExpr); ok && !c05IsLog(c) {
					calls = append(calls, c05Subst(exprString(c.Fun), env))
				}
			case *ast.ReturnStmt:
				rets = nil
				for _, r := range y.Results {
					if c, ok := r.(*ast.CallExpr); ok && !c05IsErrValue(r) {
						calls = append(calls, c05Subst(exprString(c.Fun), env))
					}
					rets = append(rets, f.summary(r, env))
				}
			case *ast.AssignStmt:
				// `err := fmt.Errorf(...)` builds an error value, no effect
				if len(y.Rhs) == 1 && c05IsErrValue(y.Rhs[0]) {
					continue
				}
				if len(y.Rhs) == 1 {
					if c, ok := y.Rhs[0].(*ast.CallExpr); ok {
						calls = append(calls, c05Subst(exprString(c.Fun), env))
						continue
					}
				}
				calls = append(calls, "<stmt>")
			default:
				calls = append(calls, "<stmt>")
			}
		}
		row := []string{kind}
		if kind == "ifnil" {
			row = append(row, nilOf)
		}
		row = append(row, strings.Join(calls, ","))
		f.prog = append(f.prog, append(row, rets...))
	case *ast.ReturnStmt:
		// tail call of an inlinable helper
		if len(x.Results) == 1 {
			if c, ok := x.Results[0].(*ast.CallExpr); ok {
				if f.inline(f.helper(c), c, env, depth) {
					return
				}
			}
		}
		row := []string{"return"}
		for _, r := range x.Results {
			row = append(row, f.summary(r, env))
		}
		f.prog = append(f.prog, row)
	case *ast.DeclStmt:
		// var declarations carry no effect
	default:
		f.prog = append(f.prog, []string{"other", "stmt"})
	}
}

func c05Flatten(files []*ast.File, recv string, prim []string, stmts []ast.Stmt) [][]string {
	f := &c05Flat{files: files, recv: recv, prim: map[string]bool{}}
	for _, p := range prim {
		f.prim[p] = true
	}
	f.stmts(stmts, map[string]string{}, 2)
	return f.prog
}

// c05CanonCmp prints a condition with canonical comparisons: `==` / `!=` with
// sorted operands, `<` / `<=` flipped to `>` / `>=`, `!(a < b)` as `a >= b`.
func c05CanonCmp(e ast.Expr, env map[string]string) string {
	str := func(x ast.Expr) string { return c05Subst(c05OneLine(exprString(x)), env) }
	switch x := e.(type) {
	case *ast.ParenExpr:
		return c05CanonCmp(x.X, env)
	case *ast.UnaryExpr:
		if x.Op == token.NOT {
			if b, ok := x.X.(*ast.ParenExpr); ok {
				if be, ok := b.X.(*ast.BinaryExpr); ok {
					neg := map[token.Token]token.Token{token.LSS: token.GEQ, token.LEQ: token.GTR,
						token.GTR: token.LEQ, token.GEQ: token.LSS, token.EQL: token.NEQ, token.NEQ: token.EQL}
					if op, ok := neg[be.Op]; ok {
						return c05CanonCmp(&ast.BinaryExpr{X: be.X, Op: op, Y: be.Y}, env)
					}
				}
			}
		}
	case *ast.BinaryExpr:
		a, b := str(x.X), str(x.Y)
		switch x.Op {
		case token.EQL, token.NEQ:
			if a > b {
				a, b = b, a
			}
			return a + " " + x.Op.String() + " " + b
		case token.LSS:
			return b + " > " + a
		case token.LEQ:
			return b + " >= " + a
		case token.GTR, token.GEQ:
			return a + " " + x.Op.String() + " " + b
		case token.LAND, token.LOR:
			// operands of a pure conjunction / disjunction in sorted order
			parts := []string{c05CanonCmp(x.X, env), c05CanonCmp(x.Y, env)}
			sort.Strings(parts)
			return parts[0] + " " + x.Op.String() + " " + parts[1]
		}
	}
	return str(e)
}

// c05SimpleDefs collects locals of a function that are defined exactly once by
// a call-free expression (`batchTx = batch.BatchTX`, `diff := batch.AccountDiffs[i]`,
// `op := wire.OutPoint{...}`): such a local is just a name for that expression.
func c05SimpleDefs(fn ast.Node) map[string]ast.Expr {
	defs := map[string]ast.Expr{}
	count := map[string]int{}
	hasCall := func(e ast.Expr) bool {
		found := false
		ast.Inspect(e, func(n ast.Node) bool {
			if c, ok := n.(*ast.CallExpr); ok {
				// conversions / len / method calls inside a composite literal are fine
				if _, lit := e.(*ast.CompositeLit); !lit {
					_ = c
					found = true
				}
			}
			return true
		})
		return found
	}
	ast.Inspect(fn, func(n ast.Node) bool {
		switch x := n.(type) {
		case *ast.AssignStmt:
			for i, l := range x.Lhs {
				if id, ok := l.(*ast.Ident); ok && len(x.Rhs) == len(x.Lhs) {
					count[id.Name]++
					if !hasCall(x.Rhs[i]) {
						defs[id.Name] = x.Rhs[i]
					}
				} else if ok {
					count[id.Name] += 2
				}
			}
		case *ast.ValueSpec:
			for i, nm := range x.Names {
				count[nm.Name]++
				if i < len(x.Values) && !hasCall(x.Values[i]) {
					defs[nm.Name] = x.Values[i]
				}
			}
		case *ast.IncDecStmt:
			if id, ok := x.X.(*ast.Ident); ok {
				count[id.Name] += 2
			}
		}
		return true
	})
	for k := range defs {
		if count[k] != 1 {
			delete(defs, k)
		}
	}
	return defs
}

// c05Canon prints an expression with locals replaced by their simple
// definitions / canonical names and composite-literal fields sorted.
func c05Canon(e ast.Expr, env map[string]string, defs map[string]ast.Expr) string {
	switch x := e.(type) {
	case *ast.Ident:
		if d, ok := defs[x.Name]; ok {
			if _, isEnv := env[x.Name]; !isEnv {
				return c05Canon(d, env, defs)
			}
		}
	case *ast.CompositeLit:
		var kv []string
		allKV := len(x.Elts) > 0
		for _, el := range x.Elts {
			k, ok := el.(*ast.KeyValueExpr)
			if !ok {
				allKV = false
				break
			}
			kv = append(kv, exprString(k.Key)+": "+c05Canon(k.Value, env, defs))
		}
		if allKV {
			sort.Strings(kv)
			return exprString(x.Type) + "{ " + strings.Join(kv, ", ") + ", }"
		}
	case *ast.CallExpr:
		var args []string
		for _, a := range x.Args {
			args = append(args, c05Canon(a, env, defs))
		}
		return c05Subst(c05OneLine(exprString(x.Fun)), c05EnvWithDefs(env, defs)) + "(" + strings.Join(args, ", ") + ")"
	}
	return c05Subst(c05OneLine(exprString(e)), c05EnvWithDefs(env, defs))
}

// c05EnvWithDefs extends the canonical-name table by the printed simple
// definitions (selector chains only).
func c05EnvWithDefs(env map[string]string, defs map[string]ast.Expr) map[string]string {
	out := map[string]string{}
	for k, d := range defs {
		switch d.(type) {
		case *ast.SelectorExpr, *ast.Ident, *ast.IndexExpr:
			out[k] = c05OneLine(exprString(d))
		}
	}
	for k, v := range env {
		out[k] = v
	}
	// one more pass so that chains (a = b.X; c = a.Y) resolve
	for k, v := range out {
		out[k] = c05Subst(v, out)
	}
	return out
}

// c05OneLine collapses whitespace so that a wrapped expression is one token.
func c05OneLine(s string) string { return strings.Join(strings.Fields(s), " ") }

// c05StmtString prints a statement on one line.
func c05StmtString(st ast.Stmt) string {
	var sb strings.Builder
	printer.Fprint(&sb, fset, st)
	return c05OneLine(sb.String())
}

func c05LeanProg(p [][]string) string {
	var rows []string
	for _, st := range p {
		rows = append(rows, leanStrList(st))
	}
	return "[\n  " + strings.Join(rows, ",\n  ") + "]"
}

func genC05Facts() {
	l := newLean("C05Facts", "Statement order of manager.BatchSign and of the Sign case of handleServerMessage; sighash types and transaction arguments of batchSigner.Sign.")
	l.p("namespace Pool.Gen.C05")

	orderFiles := pkgFiles("order")
	bs := findFunc(orderFiles, "manager.BatchSign")
	if bs == nil {
		fail("order.manager.BatchSign not found")
		return
	}
	l.p("def batchSignProg : List (List String) := %s", c05LeanProg(c05Flatten(orderFiles, "manager",
		[]string{"m.batchSigner.Sign", "m.batchStorer.StorePendingBatch"}, bs.Body.List)))

	// --- the Sign case of handleServerMessage -------------------------
	rootFiles := pkgFiles(".")
	h := findFunc(rootFiles, "rpcServer.handleServerMessage")
	if h == nil {
		fail("rpcServer.handleServerMessage not found")
		return
	}
	var signCase *ast.CaseClause
	var tail []ast.Stmt
	for i, s := range h.Body.List {
		ts, ok := s.(*ast.TypeSwitchStmt)
		if !ok {
			continue
		}
		for _, c := range ts.Body.List {
			cc := c.(*ast.CaseClause)
			for _, e := range cc.List {
				if strings.HasSuffix(exprString(e), "ServerAuctionMessage_Sign") {
					signCase = cc
				}
			}
		}
		tail = h.Body.List[i+1:]
	}
	if signCase == nil {
		fail("Sign case of handleServerMessage not found")
		return
	}
	l.p("def handlerSignProg : List (List String) := %s",
		c05LeanProg(c05Flatten(rootFiles, "rpcServer",
			[]string{"s.sendRejectBatch", "s.sendSignBatch", "s.sendRejectUnparsedBatch", "s.sendAcceptBatch"},
			append(append([]ast.Stmt{}, signCase.Body...), tail...))))

	// --- batchSigner.Sign ----------------------------------------------
	sg := findFunc(orderFiles, "batchSigner.Sign")
	mu := findFunc(orderFiles, "batchSigner.signInputMuSig2")
	if sg == nil || mu == nil {
		fail("batchSigner.Sign / signInputMuSig2 not found")
		return
	}
	hashType, inputMatch, rawTx, versionGate, lookup, inputPick := "", "", "", "", "", ""
	// The loop that locates the account input - in Sign itself or in a
	// same-package helper Sign calls (parameters replaced by arguments).
	// Recognised: `for i, in := range E.TxIn`, `for i := 0; i < len(E.TxIn); i++`
	// and `for i := len(E.TxIn) - 1; i >= 0; i--` with E = batch.BatchTX. Which
	// match wins ("last" / "first") follows from direction and break/return.
	findLoop := func(fn *ast.FuncDecl, sub map[string]string) bool {
		defs := c05SimpleDefs(fn)
		env := c05EnvWithDefs(sub, defs)
		found := false
		scanBody := func(body *ast.BlockStmt, elem string, lenv map[string]string, forward bool) {
			stops := false
			ast.Inspect(body, func(m ast.Node) bool {
				if i, ok := m.(*ast.IfStmt); ok && inputMatch == "" {
					c := c05CanonCmp(i.Cond, lenv)
					if elem != "" {
						c = strings.ReplaceAll(c, elem, "in")
						// re-sort the operands after the replacement
						if parts := strings.Split(c, " == "); len(parts) == 2 {
							sort.Strings(parts)
							c = parts[0] + " == " + parts[1]
						}
					}
					inputMatch = c
				}
				if b, ok := m.(*ast.BranchStmt); ok && b.Tok == token.BREAK {
					stops = true
				}
				if _, ok := m.(*ast.ReturnStmt); ok {
					stops = true
				}
				return true
			})
			if forward != stops {
				inputPick = "last" // forward without stop, or backward stopping at the first hit
			} else {
				inputPick = "first"
			}
			found = true
		}
		ast.Inspect(fn, func(n ast.Node) bool {
			if found {
				return false
			}
			switch x := n.(type) {
			case *ast.RangeStmt:
				if c05Subst(exprString(x.X), env) != "batch.BatchTX.TxIn" {
					return true
				}
				lenv := map[string]string{}
				for k, v := range env {
					lenv[k] = v
				}
				elem := ""
				if id, ok := x.Value.(*ast.Ident); ok && id.Name != "_" {
					lenv[id.Name] = "in"
				} else if id, ok := x.Key.(*ast.Ident); ok {
					elem = "batch.BatchTX.TxIn[" + id.Name + "]"
				}
				scanBody(x.Body, elem, lenv, true)
				return false
			case *ast.ForStmt:
				as, ok := x.Init.(*ast.AssignStmt)
				if !ok || len(as.Lhs) != 1 || len(as.Rhs) != 1 {
					return true
				}
				id, ok := as.Lhs[0].(*ast.Ident)
				if !ok {
					return true
				}
				init := c05Subst(c05OneLine(exprString(as.Rhs[0])), env)
				cond := ""
				if x.Cond != nil {
					cond = c05Subst(c05OneLine(exprString(x.Cond)), env)
				}
				lenTx := "len(batch.BatchTX.TxIn)"
				forward := init == "0" && strings.Contains(cond, lenTx)
				backward := strings.ReplaceAll(init, " ", "") == lenTx+"-1"
				if !forward && !backward {
					return true
				}
				scanBody(x.Body, "batch.BatchTX.TxIn["+id.Name+"]", env, forward)
				return false
			}
			return true
		})
		return found
	}
	if !findLoop(sg, map[string]string{}) {
		ast.Inspect(sg, func(n ast.Node) bool {
			c, ok := n.(*ast.CallExpr)
			if !ok || inputMatch != "" {
				return true
			}
			var fd *ast.FuncDecl
			switch f := c.Fun.(type) {
			case *ast.Ident:
				fd = findFunc(orderFiles, f.Name)
			case *ast.SelectorExpr:
				if id, ok := f.X.(*ast.Ident); ok && id.Name == "s" {
					fd = findFunc(orderFiles, "batchSigner."+f.Sel.Name)
				}
			}
			if fd == nil || fd.Body == nil || fd == sg {
				return true
			}
			sgEnv := c05EnvWithDefs(nil, c05SimpleDefs(sg))
			sub := map[string]string{}
			i := 0
			for _, fld := range fd.Type.Params.List {
				for _, nm := range fld.Names {
					if i < len(c.Args) {
						sub[nm.Name] = c05Subst(c05OneLine(exprString(c.Args[i])), sgEnv)
					}
					i++
				}
			}
			findLoop(fd, sub)
			return true
		})
	}
	sgDefs := c05SimpleDefs(sg)
	sgEnv := map[string]string{}
	// the element of batch.AccountDiffs being processed is `acctDiff`
	ast.Inspect(sg, func(n ast.Node) bool {
		if rs, ok := n.(*ast.RangeStmt); ok && exprString(rs.X) == "batch.AccountDiffs" {
			if id, ok := rs.Value.(*ast.Ident); ok {
				sgEnv[id.Name] = "acctDiff"
			}
		}
		return true
	})
	for k, d := range sgDefs {
		if ix, ok := d.(*ast.IndexExpr); ok && exprString(ix.X) == "batch.AccountDiffs" {
			sgEnv[k] = "acctDiff"
		}
	}
	canon := func(e ast.Expr) string { return c05Canon(e, sgEnv, sgDefs) }
	gate := func(e ast.Expr) {
		c := c05CanonCmp(e, c05EnvWithDefs(sgEnv, sgDefs))
		if strings.Contains(c, "acct.Version") && strings.Contains(c, "account.Version") {
			versionGate = c
		}
	}
	ast.Inspect(sg, func(n ast.Node) bool {
		switch x := n.(type) {
		case *ast.KeyValueExpr:
			if k, ok := x.Key.(*ast.Ident); ok && k.Name == "HashType" {
				hashType = canon(x.Value)
			}
		case *ast.CallExpr:
			switch exprString(x.Fun) {
			case "s.signer.SignOutputRaw":
				if len(x.Args) >= 2 {
					rawTx = canon(x.Args[1])
				}
			case "s.getAccount":
				if len(x.Args) == 1 {
					lookup = canon(x.Args[0])
				}
			}
		case *ast.IfStmt:
			gate(x.Cond)
		case *ast.CaseClause:
			for _, e := range x.List {
				gate(e)
			}
		}
		return true
	})
	loopBreak := inputPick
	muTx, muPrev := "", ""
	ast.Inspect(mu, func(n ast.Node) bool {
		if c, ok := n.(*ast.CallExpr); ok && exprString(c.Fun) == "poolscript.TaprootMuSig2Sign" && len(c.Args) >= 6 {
			muTx, muPrev = exprString(c.Args[4]), exprString(c.Args[5])
		}
		return true
	})
	// the arguments of the MuSig2 session the signer opens, with the
	// parameters of signInputMuSig2 replaced by what Sign passes in
	muSub := map[string]string{}
	ast.Inspect(sg, func(n ast.Node) bool {
		c, ok := n.(*ast.CallExpr)
		if !ok || exprString(c.Fun) != "s.signInputMuSig2" {
			return true
		}
		i := 0
		for _, fld := range mu.Type.Params.List {
			for _, nm := range fld.Names {
				if i < len(c.Args) {
					muSub[nm.Name] = canon(c.Args[i])
				}
				i++
			}
		}
		return true
	})
	var sessArgs []string
	muDefs := c05SimpleDefs(mu)
	ast.Inspect(mu, func(n ast.Node) bool {
		if c, ok := n.(*ast.CallExpr); ok && exprString(c.Fun) == "poolscript.TaprootMuSig2SigningSession" {
			for _, a := range c.Args {
				sessArgs = append(sessArgs, c05Canon(a, muSub, muDefs))
			}
		}
		return true
	})
	if len(sessArgs) == 0 {
		fail("signInputMuSig2: TaprootMuSig2SigningSession call not found")
		return
	}
	// the taproot sighash type lives in poolscript.TaprootMuSig2Sign
	tapHash := ""
	if f := findFunc(pkgFiles("poolscript"), "TaprootMuSig2Sign"); f != nil {
		ast.Inspect(f, func(n ast.Node) bool {
			if c, ok := n.(*ast.CallExpr); ok && exprString(c.Fun) == "txscript.CalcTaprootSignatureHash" && len(c.Args) >= 2 {
				tapHash = exprString(c.Args[1])
			}
			return true
		})
	}
	if hashType == "" || inputMatch == "" || rawTx == "" || versionGate == "" || muTx == "" || tapHash == "" || lookup == "" {
		fail("batchSigner.Sign: pattern not matched (hashType=%q inputMatch=%q rawTx=%q gate=%q muTx=%q tapHash=%q lookup=%q)",
			hashType, inputMatch, rawTx, versionGate, muTx, tapHash, lookup)
		return
	}
	l.p("def p2wshHashType : String := %q", hashType)
	l.p("def taprootHashType : String := %q", tapHash)
	l.p("def signerAccountLookup : String := %q", lookup)
	l.p("def signerInputMatch : String := %q", inputMatch)
	l.p("def signerInputPick : String := %q", loopBreak)
	l.p("def signerVersionGate : String := %q", versionGate)
	l.p("def signerRawTx : String := %q", rawTx)
	l.p("def signerMuSig2Tx : String := %q", muTx)
	l.p("def signerMuSig2PrevOuts : String := %q", muPrev)
	l.p("def signerMuSig2SessionArgs : List String := %s", leanStrList(sessArgs))
	// --- the account modifiers the storer stages with, and their bodies ---
	acctFiles := pkgFiles("account")
	var modRows []string
	for _, f := range acctFiles {
		for _, d := range f.Decls {
			fd, ok := d.(*ast.FuncDecl)
			if !ok || fd.Recv != nil || fd.Type.Results == nil || len(fd.Type.Results.List) != 1 ||
				exprString(fd.Type.Results.List[0].Type) != "Modifier" || fd.Body == nil {
				continue
			}
			body := []string{"<not a single returned closure>"}
			if len(fd.Body.List) == 1 {
				if rs, ok := fd.Body.List[0].(*ast.ReturnStmt); ok && len(rs.Results) == 1 {
					if fl, ok := rs.Results[0].(*ast.FuncLit); ok {
						// parameter names are immaterial: the closure's
						// account is `account`, the constructor's argument `arg`
						env := map[string]string{}
						for _, fld := range fd.Type.Params.List {
							for _, nm := range fld.Names {
								env[nm.Name] = "arg"
							}
						}
						for _, fld := range fl.Type.Params.List {
							for _, nm := range fld.Names {
								env[nm.Name] = "account"
							}
						}
						body = nil
						for _, st := range fl.Body.List {
							body = append(body, c05Subst(c05StmtString(st), env))
						}
					}
				}
			}
			modRows = append(modRows, "(\""+fd.Name.Name+"\", "+leanStrList(body)+")")
		}
	}
	sort.Strings(modRows)
	l.p("def accountModifierBodies : List (String × List String) := [\n  %s]", strings.Join(modRows, ",\n  "))

	st := findFunc(orderFiles, "batchStorer.StorePendingBatch")
	if st == nil {
		fail("batchStorer.StorePendingBatch not found")
		return
	}
	// appended modifier constructor calls: unconditional per switch case,
	// conditional ones with their condition, and the ones after the switch.
	// The loop over batch.AccountDiffs may live in StorePendingBatch itself
	// or in a helper method of the storer it calls; an "appended modifier" is
	// any `account.*` constructor call handed to an append(...).
	var recreated, closed, common []string
	var recreatedCond []string
	storerEnv := map[string]string{}
	var storerDefs map[string]ast.Expr
	modArgs := func(c *ast.CallExpr) []string {
		if exprString(c.Fun) != "append" {
			return nil
		}
		var out []string
		for _, a := range c.Args[1:] {
			if ac, ok := a.(*ast.CallExpr); ok && strings.HasPrefix(exprString(ac.Fun), "account.") {
				out = append(out, c05Canon(a, storerEnv, storerDefs))
			}
		}
		return out
	}
	appended := func(s ast.Stmt) []string {
		if as, ok := s.(*ast.AssignStmt); ok && len(as.Rhs) == 1 {
			if c, ok := as.Rhs[0].(*ast.CallExpr); ok {
				return modArgs(c)
			}
		}
		return nil
	}
	collect := func(stmts []ast.Stmt, uncond *[]string, cond *[]string) {
		for _, s := range stmts {
			if x, ok := s.(*ast.IfStmt); ok {
				if c05IsErrCheck(x.Cond) {
					continue
				}
				var inner []string
				for _, s2 := range x.Body.List {
					inner = append(inner, appended(s2)...)
				}
				if len(inner) == 0 {
					continue
				}
				if cond == nil {
					*uncond = append(*uncond, "<if "+c05CanonCmp(x.Cond, c05EnvWithDefs(storerEnv, storerDefs))+">")
					continue
				}
				*cond = append(*cond, "(\""+c05CanonCmp(x.Cond, c05EnvWithDefs(storerEnv, storerDefs))+"\", "+leanStrList(inner)+")")
				continue
			}
			*uncond = append(*uncond, appended(s)...)
		}
	}
	scanFn := func(fn *ast.FuncDecl) bool {
		done := false
		ast.Inspect(fn, func(n ast.Node) bool {
			rs, ok := n.(*ast.RangeStmt)
			if !ok || exprString(rs.X) != "batch.AccountDiffs" {
				return !done
			}
			storerDefs = c05SimpleDefs(fn)
			if id, ok := rs.Value.(*ast.Ident); ok {
				storerEnv[id.Name] = "diff"
			}
			for _, s := range rs.Body.List {
				if as, ok := s.(*ast.AssignStmt); ok && len(as.Rhs) == 1 && len(as.Lhs) >= 1 {
					if c, ok := as.Rhs[0].(*ast.CallExpr); ok && exprString(c.Fun) == "s.getAccount" {
						if id, ok := as.Lhs[0].(*ast.Ident); ok {
							storerEnv[id.Name] = "acct"
						}
					}
				}
			}
			for _, s := range rs.Body.List {
				if sw, ok := s.(*ast.SwitchStmt); ok && sw.Tag != nil &&
					c05Subst(exprString(sw.Tag), storerEnv) == "diff.EndingState" {
					for _, c := range sw.Body.List {
						cc := c.(*ast.CaseClause)
						names := c05Join(cc.List, exprString)
						switch {
						case strings.Contains(names, "OUTPUT_RECREATED"):
							collect(cc.Body, &recreated, &recreatedCond)
						case strings.Contains(names, "OUTPUT_FULLY_SPENT"):
							collect(cc.Body, &closed, nil)
						}
					}
				} else {
					collect([]ast.Stmt{s}, &common, nil)
				}
			}
			done = true
			return false
		})
		return done
	}
	if !scanFn(st) {
		ast.Inspect(st, func(n ast.Node) bool {
			c, ok := n.(*ast.CallExpr)
			if !ok || len(recreated) > 0 {
				return true
			}
			if sel, ok := c.Fun.(*ast.SelectorExpr); ok {
				if id, ok := sel.X.(*ast.Ident); ok && id.Name == "s" {
					if fd := findFunc(orderFiles, "batchStorer."+sel.Sel.Name); fd != nil && fd != st && fd.Body != nil {
						scanFn(fd)
					}
				}
			}
			return true
		})
	}
	if len(recreated) == 0 || len(closed) == 0 || len(common) == 0 {
		fail("batchStorer.StorePendingBatch: modifier lists not found")
		return
	}
	l.p("def storerRecreatedModifiers : List String := %s", leanStrList(recreated))
	l.p("def storerRecreatedConditional : List (String × List String) := [%s]", strings.Join(recreatedCond, ", "))
	l.p("def storerClosedModifiers : List String := %s", leanStrList(closed))
	l.p("def storerCommonModifiers : List String := %s", leanStrList(common))

	acct := newConstEnv(acctFiles)
	l.p("def versionTaprootEnabled : Nat := %s", intConst(acct, "account", "VersionTaprootEnabled"))
	l.p("end Pool.Gen.C05")
}
