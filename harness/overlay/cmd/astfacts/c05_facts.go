//go:build verif

package main

import (
	"go/ast"
	"go/printer"
	"go/token"
	"sort"
	"strings"
)

// C05 facts: the statement ORDER of manager.BatchSign and of the Sign case of
// rpcServer.handleServerMessage as flat programs, and the sighash types /
// transaction arguments / input-matching condition of batchSigner.Sign.
//
// A program is a list of statements; each statement is a list of strings:
//
//	["call", <callee>, <args>]            x, err := f(args) / err = f(args) / f(args)
//	["iferr", <calls in body>, <returns>] if err != nil { ...; return ... }
//	["ifnil", <x>, <calls in body>, <returns>]  if x == nil { ...; return ... }
//	["assign", <lhs>, <rhs>]              plain assignment
//	["return", <results>]                 return statement
//	["other", <kind>]                     anything else (kept so that nothing is silently dropped)
//
// Logging calls (receiver `log` / `rpcLog`) are dropped.
func init() { jobs = append(jobs, job{props: []string{"C05"}, fn: genC05Facts}) }

func c05IsLog(call *ast.CallExpr) bool {
	s := exprString(call.Fun)
	return strings.HasPrefix(s, "log.") || strings.HasPrefix(s, "rpcLog.")
}

func c05ExprSummary(e ast.Expr) string {
	switch x := e.(type) {
	case *ast.Ident:
		return x.Name
	case *ast.CallExpr:
		return exprString(x.Fun) + "()"
	default:
		return exprString(e)
	}
}

func c05Join(es []ast.Expr, f func(ast.Expr) string) string {
	var s []string
	for _, e := range es {
		s = append(s, f(e))
	}
	return strings.Join(s, ",")
}

func c05IsErrCheck(e ast.Expr) bool {
	b, ok := e.(*ast.BinaryExpr)
	if !ok || b.Op != token.NEQ {
		return false
	}
	x, ok1 := b.X.(*ast.Ident)
	y, ok2 := b.Y.(*ast.Ident)
	return ok1 && ok2 && x.Name == "err" && y.Name == "nil"
}

// c05Flatten turns a statement list into the flat program described above.
func c05Flatten(stmts []ast.Stmt) [][]string {
	var prog [][]string
	var walk func(s ast.Stmt)
	callStmt := func(c *ast.CallExpr) {
		if c05IsLog(c) {
			return
		}
		prog = append(prog, []string{"call", exprString(c.Fun), c05Join(c.Args, exprString)})
	}
	walk = func(s ast.Stmt) {
		switch x := s.(type) {
		case *ast.AssignStmt:
			if len(x.Rhs) == 1 {
				if c, ok := x.Rhs[0].(*ast.CallExpr); ok {
					callStmt(c)
					return
				}
			}
			prog = append(prog, []string{"assign", c05Join(x.Lhs, exprString), c05Join(x.Rhs, exprString)})
		case *ast.ExprStmt:
			if c, ok := x.X.(*ast.CallExpr); ok {
				callStmt(c)
				return
			}
			prog = append(prog, []string{"other", "expr"})
		case *ast.IfStmt:
			if x.Init != nil {
				walk(x.Init)
			}
			kind := "iferr"
			nilOf := ""
			if b, ok := x.Cond.(*ast.BinaryExpr); ok && b.Op == token.EQL && exprString(b.Y) == "nil" {
				// `if batch == nil { ...; return ... }` guard
				kind, nilOf = "ifnil", exprString(b.X)
			} else if !c05IsErrCheck(x.Cond) {
				prog = append(prog, []string{"other", "if " + exprString(x.Cond)})
				return
			}
			if x.Else != nil {
				prog = append(prog, []string{"other", "if-else " + exprString(x.Cond)})
				return
			}
			var calls []string
			ret := "<no-return>"
			for _, b := range x.Body.List {
				switch y := b.(type) {
				case *ast.ExprStmt:
					if c, ok := y.X.(*ast.CallExpr); ok && !c05IsLog(c) {
						calls = append(calls, exprString(c.Fun))
					}
				case *ast.ReturnStmt:
					for _, r := range y.Results {
						if c, ok := r.(*ast.CallExpr); ok && !strings.HasPrefix(exprString(c.Fun), "fmt.") {
							calls = append(calls, exprString(c.Fun))
						}
					}
					ret = c05Join(y.Results, c05ExprSummary)
				case *ast.AssignStmt:
					// `err := fmt.Errorf(...)` builds an error value, no effect
					if len(y.Rhs) == 1 {
						if c, ok := y.Rhs[0].(*ast.CallExpr); ok {
							f := exprString(c.Fun)
							if strings.HasPrefix(f, "fmt.") || strings.HasPrefix(f, "errors.") {
								continue
							}
							calls = append(calls, f)
							continue
						}
					}
					calls = append(calls, "<stmt>")
				default:
					calls = append(calls, "<stmt>")
				}
			}
			if kind == "ifnil" {
				prog = append(prog, []string{"ifnil", nilOf, strings.Join(calls, ","), ret})
			} else {
				prog = append(prog, []string{"iferr", strings.Join(calls, ","), ret})
			}
		case *ast.ReturnStmt:
			prog = append(prog, []string{"return", c05Join(x.Results, c05ExprSummary)})
		case *ast.DeclStmt:
			// var declarations carry no effect
		default:
			prog = append(prog, []string{"other", "stmt"})
		}
	}
	for _, s := range stmts {
		walk(s)
	}
	return prog
}

// c05OneLine collapses whitespace so that a wrapped expression is one token.
func c05OneLine(s string) string { return strings.Join(strings.Fields(s), " ") }

// c05StmtString prints a statement on one line.
func c05StmtString(st ast.Stmt) string {
	var sb strings.Builder
	printer.Fprint(&sb, fset, st)
	return c05OneLine(sb.String())
}

func c05LeanProg(p [][]string) string {
	var rows []string
	for _, st := range p {
		rows = append(rows, leanStrList(st))
	}
	return "[\n  " + strings.Join(rows, ",\n  ") + "]"
}

func genC05Facts() {
	l := newLean("C05Facts", "Statement order of manager.BatchSign and of the Sign case of handleServerMessage; sighash types and transaction arguments of batchSigner.Sign.")
	l.p("namespace Pool.Gen.C05")

	orderFiles := pkgFiles("order")
	bs := findFunc(orderFiles, "manager.BatchSign")
	if bs == nil {
		fail("order.manager.BatchSign not found")
		return
	}
	l.p("def batchSignProg : List (List String) := %s", c05LeanProg(c05Flatten(bs.Body.List)))

	// --- the Sign case of handleServerMessage -------------------------
	rootFiles := pkgFiles(".")
	h := findFunc(rootFiles, "rpcServer.handleServerMessage")
	if h == nil {
		fail("rpcServer.handleServerMessage not found")
		return
	}
	var signCase *ast.CaseClause
	var tail []ast.Stmt
	for i, s := range h.Body.List {
		ts, ok := s.(*ast.TypeSwitchStmt)
		if !ok {
			continue
		}
		for _, c := range ts.Body.List {
			cc := c.(*ast.CaseClause)
			for _, e := range cc.List {
				if strings.HasSuffix(exprString(e), "ServerAuctionMessage_Sign") {
					signCase = cc
				}
			}
		}
		tail = h.Body.List[i+1:]
	}
	if signCase == nil {
		fail("Sign case of handleServerMessage not found")
		return
	}
	l.p("def handlerSignProg : List (List String) := %s",
		c05LeanProg(c05Flatten(append(append([]ast.Stmt{}, signCase.Body...), tail...))))

	// --- batchSigner.Sign ----------------------------------------------
	sg := findFunc(orderFiles, "batchSigner.Sign")
	mu := findFunc(orderFiles, "batchSigner.signInputMuSig2")
	if sg == nil || mu == nil {
		fail("batchSigner.Sign / signInputMuSig2 not found")
		return
	}
	hashType, inputMatch, rawTx, versionGate, lookup, loopBreak := "", "", "", "", "", "no-break"
	ast.Inspect(sg, func(n ast.Node) bool {
		switch x := n.(type) {
		case *ast.KeyValueExpr:
			if k, ok := x.Key.(*ast.Ident); ok && k.Name == "HashType" {
				hashType = exprString(x.Value)
			}
		case *ast.CallExpr:
			switch exprString(x.Fun) {
			case "s.signer.SignOutputRaw":
				if len(x.Args) >= 2 {
					rawTx = exprString(x.Args[1])
				}
			case "s.getAccount":
				lookup = c05Join(x.Args, exprString)
			}
		case *ast.RangeStmt:
			if exprString(x.X) == "batch.BatchTX.TxIn" {
				ast.Inspect(x.Body, func(m ast.Node) bool {
					if i, ok := m.(*ast.IfStmt); ok {
						inputMatch = exprString(i.Cond)
					}
					if b, ok := m.(*ast.BranchStmt); ok && b.Tok == token.BREAK {
						loopBreak = "break"
					}
					return true
				})
			}
		case *ast.IfStmt:
			if c := exprString(x.Cond); strings.HasPrefix(c, "acct.Version") {
				versionGate = c
			}
		}
		return true
	})
	muTx, muPrev := "", ""
	ast.Inspect(mu, func(n ast.Node) bool {
		if c, ok := n.(*ast.CallExpr); ok && exprString(c.Fun) == "poolscript.TaprootMuSig2Sign" && len(c.Args) >= 6 {
			muTx, muPrev = exprString(c.Args[4]), exprString(c.Args[5])
		}
		return true
	})
	// the taproot sighash type lives in poolscript.TaprootMuSig2Sign
	tapHash := ""
	if f := findFunc(pkgFiles("poolscript"), "TaprootMuSig2Sign"); f != nil {
		ast.Inspect(f, func(n ast.Node) bool {
			if c, ok := n.(*ast.CallExpr); ok && exprString(c.Fun) == "txscript.CalcTaprootSignatureHash" && len(c.Args) >= 2 {
				tapHash = exprString(c.Args[1])
			}
			return true
		})
	}
	if hashType == "" || inputMatch == "" || rawTx == "" || versionGate == "" || muTx == "" || tapHash == "" || lookup == "" {
		fail("batchSigner.Sign: pattern not matched (hashType=%q inputMatch=%q rawTx=%q gate=%q muTx=%q tapHash=%q lookup=%q)",
			hashType, inputMatch, rawTx, versionGate, muTx, tapHash, lookup)
		return
	}
	l.p("def p2wshHashType : String := %q", hashType)
	l.p("def taprootHashType : String := %q", tapHash)
	l.p("def signerAccountLookup : String := %q", lookup)
	l.p("def signerInputMatch : String := %q", inputMatch)
	l.p("def signerInputLoop : String := %q", loopBreak)
	l.p("def signerVersionGate : String := %q", versionGate)
	l.p("def signerRawTx : String := %q", rawTx)
	l.p("def signerMuSig2Tx : String := %q", muTx)
	l.p("def signerMuSig2PrevOuts : String := %q", muPrev)
	// --- the account modifiers the storer stages with, and their bodies ---
	acctFiles := pkgFiles("account")
	var modRows []string
	for _, f := range acctFiles {
		for _, d := range f.Decls {
			fd, ok := d.(*ast.FuncDecl)
			if !ok || fd.Recv != nil || fd.Type.Results == nil || len(fd.Type.Results.List) != 1 ||
				exprString(fd.Type.Results.List[0].Type) != "Modifier" || fd.Body == nil {
				continue
			}
			body := []string{"<not a single returned closure>"}
			if len(fd.Body.List) == 1 {
				if rs, ok := fd.Body.List[0].(*ast.ReturnStmt); ok && len(rs.Results) == 1 {
					if fl, ok := rs.Results[0].(*ast.FuncLit); ok {
						body = nil
						for _, st := range fl.Body.List {
							body = append(body, c05StmtString(st))
						}
					}
				}
			}
			modRows = append(modRows, "(\""+fd.Name.Name+"\", "+leanStrList(body)+")")
		}
	}
	sort.Strings(modRows)
	l.p("def accountModifierBodies : List (String × List String) := [\n  %s]", strings.Join(modRows, ",\n  "))

	st := findFunc(orderFiles, "batchStorer.StorePendingBatch")
	if st == nil {
		fail("batchStorer.StorePendingBatch not found")
		return
	}
	// appended modifier constructor calls: unconditional per switch case,
	// conditional ones with their condition, and the ones after the switch
	var recreated, closed, common []string
	var recreatedCond []string
	collect := func(stmts []ast.Stmt, uncond *[]string, cond *[]string) {
		for _, s := range stmts {
			switch x := s.(type) {
			case *ast.AssignStmt:
				if len(x.Rhs) == 1 {
					if c, ok := x.Rhs[0].(*ast.CallExpr); ok && exprString(c.Fun) == "append" && len(c.Args) > 1 &&
						exprString(c.Args[0]) == "modifiers" {
						for _, a := range c.Args[1:] {
							*uncond = append(*uncond, c05OneLine(exprString(a)))
						}
					}
				}
			case *ast.IfStmt:
				if c05IsErrCheck(x.Cond) {
					continue
				}
				if cond == nil {
					*uncond = append(*uncond, "<if "+c05OneLine(exprString(x.Cond))+">")
					continue
				}
				var inner []string
				collectInner := func(ss []ast.Stmt) {
					for _, s2 := range ss {
						if as, ok := s2.(*ast.AssignStmt); ok && len(as.Rhs) == 1 {
							if c, ok := as.Rhs[0].(*ast.CallExpr); ok && exprString(c.Fun) == "append" {
								for _, a := range c.Args[1:] {
									inner = append(inner, c05OneLine(exprString(a)))
								}
							}
						}
					}
				}
				collectInner(x.Body.List)
				*cond = append(*cond, "(\""+c05OneLine(exprString(x.Cond))+"\", "+leanStrList(inner)+")")
			}
		}
	}
	ast.Inspect(st, func(n ast.Node) bool {
		rs, ok := n.(*ast.RangeStmt)
		if !ok || exprString(rs.X) != "batch.AccountDiffs" {
			return true
		}
		for _, s := range rs.Body.List {
			if sw, ok := s.(*ast.SwitchStmt); ok && exprString(sw.Tag) == "diff.EndingState" {
				for _, c := range sw.Body.List {
					cc := c.(*ast.CaseClause)
					names := c05Join(cc.List, exprString)
					switch {
					case strings.Contains(names, "OUTPUT_RECREATED"):
						collect(cc.Body, &recreated, &recreatedCond)
					case strings.Contains(names, "OUTPUT_FULLY_SPENT"):
						collect(cc.Body, &closed, nil)
					}
				}
			} else {
				collect([]ast.Stmt{s}, &common, nil)
			}
		}
		return false
	})
	if len(recreated) == 0 || len(closed) == 0 || len(common) == 0 {
		fail("batchStorer.StorePendingBatch: modifier lists not found")
		return
	}
	l.p("def storerRecreatedModifiers : List String := %s", leanStrList(recreated))
	l.p("def storerRecreatedConditional : List (String × List String) := [%s]", strings.Join(recreatedCond, ", "))
	l.p("def storerClosedModifiers : List String := %s", leanStrList(closed))
	l.p("def storerCommonModifiers : List String := %s", leanStrList(common))

	acct := newConstEnv(acctFiles)
	l.p("def versionTaprootEnabled : Nat := %s", intConst(acct, "account", "VersionTaprootEnabled"))
	l.p("end Pool.Gen.C05")
}
