//go:build verif

package main

import (
	"go/ast"
	"go/token"
	"strconv"
	"strings"
)

func init() {
	jobs = append(jobs, job{props: []string{"C15", "C19"}, fn: genC15Ticket})
}

// decCallName returns the selector / identifier name of a call's function.
func decCallName(c *ast.CallExpr) string {
	switch f := c.Fun.(type) {
	case *ast.SelectorExpr:
		return f.Sel.Name
	case *ast.Ident:
		return f.Name
	}
	return ""
}

// decRecordsIn lists, in source order, the tlv.MakePrimitiveRecord /
// tlv.MakeStaticRecord calls inside a function body as
// (type constant, kind) where kind is "prim" or
// "static:<size>:<enc>:<dec>".
func decRecordsIn(fd *ast.FuncDecl, ce *constEnv) (typs []string, kinds []string) {
	ast.Inspect(fd.Body, func(n ast.Node) bool {
		c, ok := n.(*ast.CallExpr)
		if !ok {
			return true
		}
		switch decCallName(c) {
		case "MakePrimitiveRecord":
			if len(c.Args) != 2 {
				fail("%s: MakePrimitiveRecord with %d args", fd.Name.Name, len(c.Args))
				return true
			}
			typs = append(typs, intConst(ce, "sidecar", exprString(c.Args[0])))
			kinds = append(kinds, "prim")
		case "MakeStaticRecord":
			if len(c.Args) != 5 {
				fail("%s: MakeStaticRecord with %d args", fd.Name.Name, len(c.Args))
				return true
			}
			typs = append(typs, intConst(ce, "sidecar", exprString(c.Args[0])))
			kinds = append(kinds, "static:"+exprString(c.Args[2])+":"+
				exprString(c.Args[3])+":"+exprString(c.Args[4]))
		}
		return true
	})
	return
}

// decStreamCall returns the name of the tlv.Stream decode method a function
// calls (Decode, DecodeP2P, DecodeWithParsedTypes, DecodeWithParsedTypesP2P).
func decStreamCall(fd *ast.FuncDecl) string {
	var res []string
	ast.Inspect(fd.Body, func(n ast.Node) bool {
		if c, ok := n.(*ast.CallExpr); ok {
			if nm := decCallName(c); strings.HasPrefix(nm, "Decode") {
				res = append(res, nm)
			}
		}
		return true
	})
	if len(res) != 1 {
		fail("%s: expected exactly one tlv decode call, found %v", fd.Name.Name, res)
		return ""
	}
	return res[0]
}

// genC15Ticket emits the TLV type numbers, the per-function record lists and
// the decode variants of sidecar/tlv.go, and the constants of sidecar/codec.go.
func genC15Ticket() {
	files := pkgFiles("sidecar")
	ce := newConstEnv(files)
	l := newLean("C15Ticket", "sidecar/tlv.go and sidecar/codec.go: TLV type numbers, record lists per "+
		"(de)serialiser, tlv decode variant used, string-format constants.")
	l.p("namespace Pool.Gen.C15")
	for _, n := range []string{"idType", "versionType", "stateType", "offerType", "capacityType",
		"pushAmtType", "leaseDurationType", "signPubKeyType", "sigOfferDigestType", "offerAutoType",
		"unannouncedChannelType", "zeroConfChannelType", "recipientType", "nodePubKeyType",
		"multiSigPubKeyType", "multiSigKeyIndexType", "orderType", "bidNonceType",
		"sigOrderDigestType", "executionType", "pendingChannelIDType"} {
		l.p("def %s : Nat := %s", n, intConst(ce, "sidecar", n))
	}
	l.p("def checksumLen : Nat := %s", intConst(ce, "sidecar", "checksumLen"))

	// sidecarPrefix (string constant) and encodingVersion ([]byte literal)
	prefix := ""
	var encVer []string
	for _, f := range files {
		for _, d := range f.Decls {
			gd, ok := d.(*ast.GenDecl)
			if !ok {
				continue
			}
			for _, s := range gd.Specs {
				vs, ok := s.(*ast.ValueSpec)
				if !ok {
					continue
				}
				for i, nm := range vs.Names {
					if i >= len(vs.Values) {
						continue
					}
					switch nm.Name {
					case "sidecarPrefix":
						if bl, ok := vs.Values[i].(*ast.BasicLit); ok && bl.Kind == token.STRING {
							prefix, _ = strconv.Unquote(bl.Value)
						}
					case "encodingVersion":
						if cl, ok := vs.Values[i].(*ast.CompositeLit); ok {
							for _, e := range cl.Elts {
								encVer = append(encVer, exprString(e))
							}
						}
					}
				}
			}
		}
	}
	if prefix == "" {
		fail("sidecar.sidecarPrefix not found")
	}
	if len(encVer) == 0 {
		fail("sidecar.encodingVersion literal not found")
	}
	l.p("def sidecarPrefix : String := %q", prefix)
	l.p("def encodingVersion : List Nat := [%s]", strings.Join(encVer, ", "))

	for _, fn := range []string{"SerializeTicket", "DeserializeTicket", "serializeOffer",
		"deserializeOffer", "serializeRecipient", "deserializeRecipient", "serializeOrder",
		"deserializeOrder", "serializeExecution", "deserializeExecution"} {
		fd := findFunc(files, fn)
		if fd == nil {
			fail("sidecar.%s not found", fn)
			continue
		}
		typs, kinds := decRecordsIn(fd, ce)
		l.p("def %sTypes : List Nat := [%s]", fn, strings.Join(typs, ", "))
		l.p("def %sKinds : List String := %s", fn, leanStrList(kinds))
	}
	// codec.go DecodeString: the conditions of the `if`s that return the
	// prefix / checksum errors, as written in the source
	prefixCond, checksumCond := "", ""
	if fd := findFunc(files, "DecodeString"); fd == nil {
		fail("sidecar.DecodeString not found")
	} else {
		ast.Inspect(fd.Body, func(n ast.Node) bool {
			is, ok := n.(*ast.IfStmt)
			if !ok {
				return true
			}
			body := ""
			for _, st := range is.Body.List {
				if rs, ok := st.(*ast.ReturnStmt); ok {
					for _, e := range rs.Results {
						body += exprString(e)
					}
				}
			}
			switch {
			case strings.Contains(body, "invalid prefix") && !strings.Contains(exprString(is.Cond), "len("):
				prefixCond = exprString(is.Cond)
			case strings.Contains(body, "checksum"):
				checksumCond = exprString(is.Cond)
			}
			return true
		})
		if prefixCond == "" || checksumCond == "" {
			fail("DecodeString: prefix / checksum comparison not found")
		}
	}
	l.p("def decodeStringPrefixCond : String := %q", prefixCond)
	l.p("def decodeStringChecksumCond : String := %q", checksumCond)

	for _, fn := range []string{"DeserializeTicket", "decodeBytes"} {
		fd := findFunc(files, fn)
		if fd == nil {
			fail("sidecar.%s not found", fn)
			continue
		}
		l.p("def %sCall : String := %q", fn, decStreamCall(fd))
	}
	l.p("end Pool.Gen.C15")
}

// callName is kept under its old name because lifecycle_facts.go (tag
// lifecycle) uses it since the merge of round 1.
func callName(c *ast.CallExpr) string { return decCallName(c) }
