//go:build verif

package main

import (
	"go/ast"
	"go/token"
	"strconv"
	"strings"
)

func init() {
	jobs = append(jobs, job{props: []string{"C15", "C19"}, fn: genC15Ticket})
}

// decCallName returns the selector / identifier name of a call's function.
func decCallName(c *ast.CallExpr) string {
	switch f := c.Fun.(type) {
	case *ast.SelectorExpr:
		return f.Sel.Name
	case *ast.Ident:
		return f.Name
	}
	return ""
}

// decRecordsIn lists, in source order, the tlv.MakePrimitiveRecord /
// tlv.MakeStaticRecord calls inside a function body as
// (type constant, kind) where kind is "prim" or
// "static:<size>:<enc>:<dec>".
func decRecordsIn(fd *ast.FuncDecl, ce *constEnv) (typs []string, kinds []string) {
	// local closures `name := func(p T, …) { … Make…Record(p, …) … }`: the
	// records they build are attributed to each CALL of the closure, with the
	// type taken from the call's argument
	type tmpl struct {
		argIdx int
		kind   string
	}
	closures := map[string][]tmpl{}
	skip := map[*ast.FuncLit]bool{}
	kindOf := func(c *ast.CallExpr) (string, bool) {
		switch decCallName(c) {
		case "MakePrimitiveRecord":
			if len(c.Args) == 2 {
				return "prim", true
			}
		case "MakeStaticRecord":
			if len(c.Args) == 5 {
				return "static:" + exprString(c.Args[2]) + ":" + exprString(c.Args[3]) + ":" + exprString(c.Args[4]), true
			}
		}
		return "", false
	}
	ast.Inspect(fd.Body, func(n ast.Node) bool {
		as, ok := n.(*ast.AssignStmt)
		if !ok || len(as.Lhs) != 1 || len(as.Rhs) != 1 {
			return true
		}
		id, ok1 := as.Lhs[0].(*ast.Ident)
		fl, ok2 := as.Rhs[0].(*ast.FuncLit)
		if !ok1 || !ok2 {
			return true
		}
		params := map[string]int{}
		k := 0
		for _, f := range fl.Type.Params.List {
			for _, nm := range f.Names {
				params[nm.Name] = k
				k++
			}
		}
		var ts []tmpl
		ast.Inspect(fl.Body, func(m ast.Node) bool {
			if c, ok := m.(*ast.CallExpr); ok {
				if kind, ok := kindOf(c); ok {
					if pid, ok := c.Args[0].(*ast.Ident); ok {
						if idx, ok := params[pid.Name]; ok {
							ts = append(ts, tmpl{idx, kind})
						}
					}
				}
			}
			return true
		})
		if len(ts) > 0 {
			closures[id.Name] = ts
			skip[fl] = true
		}
		return true
	})
	ast.Inspect(fd.Body, func(n ast.Node) bool {
		if fl, ok := n.(*ast.FuncLit); ok && skip[fl] {
			return false
		}
		c, ok := n.(*ast.CallExpr)
		if !ok {
			return true
		}
		if id, ok := c.Fun.(*ast.Ident); ok {
			for _, t := range closures[id.Name] {
				if t.argIdx < len(c.Args) {
					typs = append(typs, intConst(ce, "sidecar", exprString(c.Args[t.argIdx])))
					kinds = append(kinds, t.kind)
				}
			}
		}
		switch decCallName(c) {
		case "MakePrimitiveRecord", "MakeStaticRecord":
			kind, ok := kindOf(c)
			if !ok {
				fail("%s: %s with %d args", fd.Name.Name, decCallName(c), len(c.Args))
				return true
			}
			typs = append(typs, intConst(ce, "sidecar", exprString(c.Args[0])))
			kinds = append(kinds, kind)
		}
		return true
	})
	return
}

// decStreamCall returns the name of the tlv.Stream decode method a function
// calls (Decode, DecodeP2P, DecodeWithParsedTypes, DecodeWithParsedTypesP2P).
func decStreamCall(fd *ast.FuncDecl) string {
	var res []string
	ast.Inspect(fd.Body, func(n ast.Node) bool {
		if c, ok := n.(*ast.CallExpr); ok {
			if nm := decCallName(c); strings.HasPrefix(nm, "Decode") {
				res = append(res, nm)
			}
		}
		return true
	})
	if len(res) != 1 {
		fail("%s: expected exactly one tlv decode call, found %v", fd.Name.Name, res)
		return ""
	}
	return res[0]
}

// genC15Ticket emits the TLV type numbers, the per-function record lists and
// the decode variants of sidecar/tlv.go, and the constants of sidecar/codec.go.
func genC15Ticket() {
	files := pkgFiles("sidecar")
	ce := newConstEnv(files)
	l := newLean("C15Ticket", "sidecar/tlv.go and sidecar/codec.go: TLV type numbers, record lists per "+
		"(de)serialiser, tlv decode variant used, string-format constants.")
	l.p("namespace Pool.Gen.C15")
	for _, n := range []string{"idType", "versionType", "stateType", "offerType", "capacityType",
		"pushAmtType", "leaseDurationType", "signPubKeyType", "sigOfferDigestType", "offerAutoType",
		"unannouncedChannelType", "zeroConfChannelType", "recipientType", "nodePubKeyType",
		"multiSigPubKeyType", "multiSigKeyIndexType", "orderType", "bidNonceType",
		"sigOrderDigestType", "executionType", "pendingChannelIDType"} {
		l.p("def %s : Nat := %s", n, intConst(ce, "sidecar", n))
	}
	l.p("def checksumLen : Nat := %s", intConst(ce, "sidecar", "checksumLen"))

	// sidecarPrefix (string constant) and encodingVersion ([]byte literal)
	prefix := ""
	var encVer []string
	for _, f := range files {
		for _, d := range f.Decls {
			gd, ok := d.(*ast.GenDecl)
			if !ok {
				continue
			}
			for _, s := range gd.Specs {
				vs, ok := s.(*ast.ValueSpec)
				if !ok {
					continue
				}
				for i, nm := range vs.Names {
					if i >= len(vs.Values) {
						continue
					}
					switch nm.Name {
					case "sidecarPrefix":
						if bl, ok := vs.Values[i].(*ast.BasicLit); ok && bl.Kind == token.STRING {
							prefix, _ = strconv.Unquote(bl.Value)
						}
					case "encodingVersion":
						if cl, ok := vs.Values[i].(*ast.CompositeLit); ok {
							for _, e := range cl.Elts {
								encVer = append(encVer, exprString(e))
							}
						}
					}
				}
			}
		}
	}
	if prefix == "" {
		fail("sidecar.sidecarPrefix not found")
	}
	if len(encVer) == 0 {
		fail("sidecar.encodingVersion literal not found")
	}
	l.p("def sidecarPrefix : String := %q", prefix)
	l.p("def encodingVersion : List Nat := [%s]", strings.Join(encVer, ", "))

	for _, fn := range []string{"SerializeTicket", "DeserializeTicket", "serializeOffer",
		"deserializeOffer", "serializeRecipient", "deserializeRecipient", "serializeOrder",
		"deserializeOrder", "serializeExecution", "deserializeExecution"} {
		fd := findFunc(files, fn)
		if fd == nil {
			fail("sidecar.%s not found", fn)
			continue
		}
		typs, kinds := decRecordsIn(fd, ce)
		l.p("def %sTypes : List Nat := [%s]", fn, strings.Join(typs, ", "))
		l.p("def %sKinds : List String := %s", fn, leanStrList(kinds))
	}
	// codec.go DecodeString: HOW the prefix and the checksum are compared,
	// classified by meaning (not by spelling, variable names or error texts):
	//   prefix   "exact": `x != sidecarPrefix`, `!(x == sidecarPrefix)` (either
	//            operand order) or `!strings.HasPrefix(s, sidecarPrefix)`
	//   checksum "exact": a negated bytes.Equal (or bytes.Compare(..) != 0)
	//            whose operands are sliced, if at all, up to checksumLen
	// anything else is reported verbatim as "other: …"; "missing" = no such test.
	prefixCmp, checksumCmp := "missing", "missing"
	if fd := findFunc(files, "DecodeString"); fd == nil {
		fail("sidecar.DecodeString not found")
	} else {
		mentions := func(e ast.Expr, name string) bool {
			f := false
			ast.Inspect(e, func(n ast.Node) bool {
				if id, ok := n.(*ast.Ident); ok && id.Name == name {
					f = true
				}
				return true
			})
			return f
		}
		hasCall := func(e ast.Expr, name string) *ast.CallExpr {
			var r *ast.CallExpr
			ast.Inspect(e, func(n ast.Node) bool {
				if c, ok := n.(*ast.CallExpr); ok && exprString(c.Fun) == name && r == nil {
					r = c
				}
				return true
			})
			return r
		}
		isConst := func(e ast.Expr) bool { return exprString(e) == "sidecarPrefix" }
		ast.Inspect(fd.Body, func(n ast.Node) bool {
			is, ok := n.(*ast.IfStmt)
			if !ok {
				return true
			}
			cond := is.Cond
			neg := false
			for {
				if p, ok := cond.(*ast.ParenExpr); ok {
					cond = p.X
					continue
				}
				if u, ok := cond.(*ast.UnaryExpr); ok && u.Op == token.NOT {
					neg = !neg
					cond = u.X
					continue
				}
				break
			}
			switch {
			case mentions(cond, "sidecarPrefix") && hasCall(cond, "len") == nil:
				prefixCmp = "other: " + exprString(is.Cond)
				if be, ok := cond.(*ast.BinaryExpr); ok && (isConst(be.X) || isConst(be.Y)) {
					if (be.Op == token.NEQ && !neg) || (be.Op == token.EQL && neg) {
						prefixCmp = "exact"
					}
				}
				if c, ok := cond.(*ast.CallExpr); ok && neg && exprString(c.Fun) == "strings.HasPrefix" &&
					len(c.Args) == 2 && isConst(c.Args[1]) {
					prefixCmp = "exact"
				}
			case hasCall(cond, "bytes.Equal") != nil || hasCall(cond, "bytes.Compare") != nil:
				checksumCmp = "other: " + exprString(is.Cond)
				var call *ast.CallExpr
				if c, ok := cond.(*ast.CallExpr); ok && neg && exprString(c.Fun) == "bytes.Equal" {
					call = c
				}
				if be, ok := cond.(*ast.BinaryExpr); ok && be.Op == token.NEQ && !neg && exprString(be.Y) == "0" {
					if c, ok := be.X.(*ast.CallExpr); ok && exprString(c.Fun) == "bytes.Compare" {
						call = c
					}
				}
				if call != nil && len(call.Args) == 2 {
					full := true
					for _, a := range call.Args {
						ast.Inspect(a, func(m ast.Node) bool {
							if se, ok := m.(*ast.SliceExpr); ok {
								if se.High != nil && exprString(se.High) != "checksumLen" {
									full = false
								}
							}
							return true
						})
					}
					if full {
						checksumCmp = "exact"
					}
				}
			}
			return true
		})
	}
	l.p("def decodeStringPrefixCompare : String := %q", prefixCmp)
	l.p("def decodeStringChecksumCompare : String := %q", checksumCmp)

	for _, fn := range []string{"DeserializeTicket", "decodeBytes"} {
		fd := findFunc(files, fn)
		if fd == nil {
			fail("sidecar.%s not found", fn)
			continue
		}
		l.p("def %sCall : String := %q", fn, decStreamCall(fd))
	}
	l.p("end Pool.Gen.C15")
}

// callName is kept under its old name because lifecycle_facts.go (tag
// lifecycle) uses it since the merge of round 1.
func callName(c *ast.CallExpr) string { return decCallName(c) }
