//go:build verif

package main

import (
	"fmt"
	"go/ast"
	"go/token"
	"sort"
	"strings"
)

func init() { jobs = append(jobs, job{props: []string{"C17"}, fn: genC17State}) }

// fundingPkgVarRefs lists every reference (read, write or method call on it)
// to a package-level *variable* made by the functions reachable inside the
// package from the given roots ("Name" or "Recv.Name"). Calls are resolved by
// name within the package (methods: any receiver with that method name - an
// over-approximation).
func fundingPkgVarRefs(dir string, roots []string) (reach []string, refs []string) {
	files := pkgFiles(dir)
	funcs := map[string]*ast.FuncDecl{}
	methods := map[string][]*ast.FuncDecl{}
	pkgVars := map[string]bool{}
	topSpecs := map[*ast.ValueSpec]bool{}
	for _, f := range files {
		for _, d := range f.Decls {
			switch x := d.(type) {
			case *ast.FuncDecl:
				if x.Recv == nil {
					funcs[x.Name.Name] = x
				} else {
					methods[x.Name.Name] = append(methods[x.Name.Name], x)
				}
			case *ast.GenDecl:
				if x.Tok != token.VAR {
					continue
				}
				for _, s := range x.Specs {
					vs := s.(*ast.ValueSpec)
					topSpecs[vs] = true
					for _, n := range vs.Names {
						if n.Name != "_" {
							pkgVars[n.Name] = true
						}
					}
				}
			}
		}
	}
	key := func(fd *ast.FuncDecl) string {
		if fd.Recv == nil {
			return fd.Name.Name
		}
		t := fd.Recv.List[0].Type
		if st, ok := t.(*ast.StarExpr); ok {
			t = st.X
		}
		return exprString(t) + "." + fd.Name.Name
	}
	seen := map[string]*ast.FuncDecl{}
	var work []*ast.FuncDecl
	push := func(fd *ast.FuncDecl) {
		if fd == nil || fd.Body == nil {
			return
		}
		if _, ok := seen[key(fd)]; !ok {
			seen[key(fd)] = fd
			work = append(work, fd)
		}
	}
	for _, r := range roots {
		fd := findFunc(files, r)
		if fd == nil {
			fail("%s: root function %s not found", dir, r)
			continue
		}
		push(fd)
	}
	for len(work) > 0 {
		fd := work[0]
		work = work[1:]
		ast.Inspect(fd.Body, func(n ast.Node) bool {
			c, ok := n.(*ast.CallExpr)
			if !ok {
				return true
			}
			switch f := c.Fun.(type) {
			case *ast.Ident:
				push(funcs[f.Name])
			case *ast.SelectorExpr:
				for _, m := range methods[f.Sel.Name] {
					push(m)
				}
			}
			return true
		})
	}
	for k, fd := range seen {
		reach = append(reach, dir+"/"+k)
		found := map[string]bool{}
		var visit func(n ast.Node) bool
		visit = func(n ast.Node) bool {
			switch x := n.(type) {
			case *ast.SelectorExpr:
				// only the left part can name a package-level variable of ours
				ast.Inspect(x.X, visit)
				return false
			case *ast.KeyValueExpr:
				// field names of composite literals are not variable references
				ast.Inspect(x.Value, visit)
				if _, isIdent := x.Key.(*ast.Ident); !isIdent {
					ast.Inspect(x.Key, visit)
				}
				return false
			case *ast.Ident:
				if !pkgVars[x.Name] {
					return true
				}
				if x.Obj != nil {
					vs, ok := x.Obj.Decl.(*ast.ValueSpec)
					if !ok || !topSpecs[vs] {
						return true // a local / parameter shadowing the name
					}
				}
				found[x.Name] = true
			}
			return true
		}
		ast.Inspect(fd.Body, visit)
		for v := range found {
			refs = append(refs, fmt.Sprintf("(%q, %q)", dir+"/"+k, v))
		}
	}
	sort.Strings(reach)
	sort.Strings(refs)
	return
}

// genC17State: the derivation of the funding parameters is a function of its
// arguments (and of the injected lnd clients) only: no function in the
// intra-package call graph of PendingChanKey / DetermineCommitmentType /
// deriveFundingShim / CancelPendingFundingShims / FundingOutput touches a
// package-level variable other than the logger. The daemon calls them from
// several goroutines (batch handler, sidecar acceptor).
func genC17State() {
	l := newLean("C17State", "C17: package-level variables referenced from the call graph of the funding-parameter derivation.")
	l.p("namespace Pool.Gen.C17")
	r1, v1 := fundingPkgVarRefs("order", []string{"PendingChanKey", "DetermineCommitmentType", "Kit.Nonce", "Kit.Details",
		"SupplyUnit.ToSatoshis", "Ask.Type", "Bid.Type"})
	r2, v2 := fundingPkgVarRefs("funding", []string{"Manager.deriveFundingShim", "CancelPendingFundingShims"})
	r3, v3 := fundingPkgVarRefs("poolscript", []string{"FundingOutput"})
	l.p("def derivationCallGraph : List String := %s", leanStrList(append(append(r1, r2...), r3...)))
	l.p("/-- (function, package-level variable it references) -/")
	l.p("def derivationPkgVarRefs : List (String × String) := [%s]", strings.Join(append(append(v1, v2...), v3...), ", "))
	l.p("end Pool.Gen.C17")
}
