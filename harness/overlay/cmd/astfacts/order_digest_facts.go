//go:build verif

package main

import (
	"fmt"
	"go/ast"
	"go/token"
	"strings"
)

// ---------------------------------------------------------------- C12

// digQualConst evaluates `pkg.Name` / `Name` against the constant environment of
// the named package.
func digQualConst(envs map[string]*constEnv, dflt string, e ast.Expr) (string, bool) {
	switch x := e.(type) {
	case *ast.SelectorExpr:
		if id, ok := x.X.(*ast.Ident); ok {
			if ce, ok := envs[id.Name]; ok {
				if v, ok := ce.get(x.Sel.Name); ok {
					return v.ExactString(), true
				}
			}
		}
	case *ast.Ident:
		if ce, ok := envs[dflt]; ok {
			if v, ok := ce.get(x.Name); ok {
				return v.ExactString(), true
			}
		}
	case *ast.BasicLit:
		if x.Kind == token.INT {
			return x.Value, true
		}
	}
	return "", false
}

// digSpecialClauses, when set, receives (label value, body source) of switch
// clauses that do not simply assign/return a constant.
var digSpecialClauses *[][2]string

// digEnumSwitch reads `switch tag { case A: lhs = B … }` or
// `switch tag { case A: return B, nil … }` into (A, B) value pairs.
func digEnumSwitch(what string, sw *ast.SwitchStmt, envs map[string]*constEnv,
	dflt string) (pairs [][2]string, defaultStmts []string) {

	for _, c := range sw.Body.List {
		cc := c.(*ast.CaseClause)
		if cc.List == nil {
			for _, s := range cc.Body {
				defaultStmts = append(defaultStmts, digNodeString(s))
			}
			continue
		}
		var val ast.Expr
		for _, s := range cc.Body {
			switch st := s.(type) {
			case *ast.AssignStmt:
				if len(st.Rhs) == 1 && (st.Tok == token.ASSIGN) {
					val = st.Rhs[0]
				}
			case *ast.ReturnStmt:
				if len(st.Results) >= 1 {
					val = st.Results[0]
				}
			}
		}
		if val == nil {
			if digSpecialClauses != nil {
				// a clause with its own control flow: reported as source
				// text, not as a table row
				var body []string
				for _, s := range cc.Body {
					body = append(body, digNodeString(s))
				}
				for _, l := range cc.List {
					a, _ := digQualConst(envs, dflt, l)
					*digSpecialClauses = append(*digSpecialClauses,
						[2]string{a, strings.Join(body, "; ")})
				}
				continue
			}
			// a clause that only falls out of the switch (comment-only)
			fail("%s: case %s assigns/returns nothing", what, digNodeString(cc.List[0]))
			continue
		}
		b, ok := digQualConst(envs, dflt, val)
		if !ok {
			fail("%s: value %s not a constant", what, digNodeString(val))
			continue
		}
		for _, l := range cc.List {
			a, ok := digQualConst(envs, dflt, l)
			if !ok {
				fail("%s: label %s not a constant", what, digNodeString(l))
				continue
			}
			pairs = append(pairs, [2]string{a, b})
		}
	}
	return pairs, defaultStmts
}

func digFindSwitchByTag(body ast.Node, tag string) *ast.SwitchStmt {
	var res *ast.SwitchStmt
	ast.Inspect(body, func(n ast.Node) bool {
		if sw, ok := n.(*ast.SwitchStmt); ok && sw.Tag != nil && digNodeString(sw.Tag) == tag && res == nil {
			res = sw
		}
		return true
	})
	return res
}

func digLeanPairs(ps [][2]string) string {
	var xs []string
	for _, p := range ps {
		xs = append(xs, fmt.Sprintf("(%s, %s)", p[0], p[1]))
	}
	return "[" + strings.Join(xs, ", ") + "]"
}

func digLeanStrPairs(ps [][2]string) string {
	var xs []string
	for _, p := range ps {
		xs = append(xs, fmt.Sprintf("(%q, %q)", p[0], p[1]))
	}
	return "[" + strings.Join(xs, ", ") + "]"
}

func digFuncBodyStrings(fd *ast.FuncDecl) []string {
	var res []string
	for _, s := range fd.Body.List {
		res = append(res, digNodeString(s))
	}
	return res
}

func digGenOrderDigestFacts() {
	files := pkgFiles("order")
	te := digNewTypeEnv(files)
	ce := newConstEnv(files)
	ask := digExtractDigestFn(files, te, ce, "order", "Ask.Digest")
	bid := digExtractDigestFn(files, te, ce, "order", "Bid.Digest")
	if ask == nil || bid == nil {
		return
	}
	known := map[string]bool{"isSidecar": true}
	for _, r := range []string{"a", "b"} {
		for _, e := range []string{"%s.nonce[:]", "uint32(%s.Version)", "%s.FixedRate", "%s.Amt",
			"%s.LeaseDuration", "uint64(%s.MaxBatchFeeRate)", "uint32(%s.MinUnitsMatch)",
			"uint8(%s.ChannelType)", "uint8(%s.State)", "uint64(%s.Units)",
			"uint64(%s.UnitsUnfulfilled)", "uint64(%s.MinUnitsMatch)", "uint32(%s.AuctionType)"} {

			known[fmt.Sprintf(e, r)] = true
		}
	}
	known["uint32(b.MinNodeTier)"] = true
	known["uint64(b.SelfChanBalance)"] = true
	known["b.SelfChanBalance"] = true
	for _, f := range []*digDigestFn{ask, bid} {
		for _, c := range f.cases {
			for _, a := range c.args {
				if !known[a.expr] {
					fail("order.%s case %v: argument %q has no encoder in the model",
						f.name, c.labels, a.expr)
				}
			}
		}
	}

	// ---- auctioneer.Client.SubmitOrder: composite literals, locals, enum switches
	afiles := pkgFiles("auctioneer")
	rpcEnv := newConstEnv(pkgFiles("auctioneerrpc"))
	envs := map[string]*constEnv{"order": ce, "auctioneerrpc": rpcEnv}
	so := findFunc(afiles, "Client.SubmitOrder")
	if so == nil || so.Body == nil {
		fail("auctioneer.Client.SubmitOrder not found")
		return
	}
	lits := map[string][][2]string{}
	var locals [][2]string
	ast.Inspect(so.Body, func(n ast.Node) bool {
		switch x := n.(type) {
		case *ast.CompositeLit:
			name := digNodeString(x.Type)
			switch name {
			case "auctioneerrpc.ServerOrder", "auctioneerrpc.ServerAsk", "auctioneerrpc.ServerBid":
				if _, dup := lits[name]; dup {
					fail("SubmitOrder: two %s literals", name)
				}
				var kv [][2]string
				for _, el := range x.Elts {
					k, ok := el.(*ast.KeyValueExpr)
					if !ok {
						fail("SubmitOrder: positional element in %s literal", name)
						continue
					}
					kv = append(kv, [2]string{digNodeString(k.Key), digNodeString(k.Value)})
				}
				lits[name] = kv
			}
		case *ast.AssignStmt:
			if x.Tok == token.DEFINE && len(x.Rhs) == 1 {
				var names []string
				for _, l := range x.Lhs {
					names = append(names, digNodeString(l))
				}
				if _, isLit := x.Rhs[0].(*ast.UnaryExpr); !isLit {
					locals = append(locals, [2]string{strings.Join(names, ","), digNodeString(x.Rhs[0])})
				}
			}
		}
		return true
	})
	for _, n := range []string{"auctioneerrpc.ServerOrder", "auctioneerrpc.ServerAsk", "auctioneerrpc.ServerBid"} {
		if len(lits[n]) == 0 {
			fail("SubmitOrder: composite literal %s not found", n)
		}
	}
	// later plain assignments to fields of the literals (details.X = …) would
	// bypass the literal mapping: list them
	var fieldAssigns, varAssigns [][2]string
	ast.Inspect(so.Body, func(n ast.Node) bool {
		if as, ok := n.(*ast.AssignStmt); ok && as.Tok == token.ASSIGN && len(as.Lhs) == 1 {
			if sel, ok := as.Lhs[0].(*ast.SelectorExpr); ok {
				fieldAssigns = append(fieldAssigns, [2]string{digNodeString(sel), digNodeString(as.Rhs[0])})
			}
			// re-assignment of a local after its definition (a local that
			// feeds a literal may be changed between definition and use)
			if id, ok := as.Lhs[0].(*ast.Ident); ok {
				varAssigns = append(varAssigns, [2]string{id.Name, digNodeString(as.Rhs[0])})
			}
		}
		return true
	})

	ctSw := digFindSwitchByTag(so.Body, "o.Details().ChannelType")
	atSw := digFindSwitchByTag(so.Body, "o.Details().AuctionType")
	if ctSw == nil || atSw == nil {
		fail("SubmitOrder: channel type / auction type switch not found")
		return
	}
	ctPairs, ctDefault := digEnumSwitch("SubmitOrder channel type", ctSw, envs, "order")
	atPairs, atDefault := digEnumSwitch("SubmitOrder auction type", atSw, envs, "order")

	mnt := findFunc(afiles, "MarshallNodeTier")
	var ntPairs [][2]string
	var ntDefault []string
	if mnt == nil {
		fail("auctioneer.MarshallNodeTier not found")
	} else if sw := digFindSwitchByTag(mnt.Body, "nodeTier"); sw == nil {
		fail("MarshallNodeTier: switch not found")
	} else {
		ntPairs, ntDefault = digEnumSwitch("MarshallNodeTier", sw, envs, "order")
	}

	// ---- order/rpc_parse.go: channel type switch of ParseRPCServerOrder (rpc -> order)
	var pctPairs [][2]string
	var pctDefault []string
	pso := findFunc(files, "ParseRPCServerOrder")
	var psoAssigns [][2]string
	if pso == nil {
		fail("order.ParseRPCServerOrder not found")
	} else {
		if sw := digFindSwitchByTag(pso.Body, "details.ChannelType"); sw == nil {
			fail("ParseRPCServerOrder: channel type switch not found")
		} else {
			pctPairs, pctDefault = digEnumSwitch("ParseRPCServerOrder channel type", sw, envs, "order")
		}
		for _, s := range pso.Body.List {
			if as, ok := s.(*ast.AssignStmt); ok && as.Tok == token.ASSIGN && len(as.Lhs) == 1 {
				psoAssigns = append(psoAssigns, [2]string{digNodeString(as.Lhs[0]), digNodeString(as.Rhs[0])})
			}
		}
	}
	// ---- order/rpc_parse.go: ParseRPCOrder (the trader's order as built from the RPC request)
	var poAssigns, poSpecial, poCtPairs [][2]string
	var poGuards, poCtDefault []string
	po := findFunc(files, "ParseRPCOrder")
	if po == nil {
		fail("order.ParseRPCOrder not found")
	} else {
		for _, st := range po.Body.List {
			if as, ok := st.(*ast.AssignStmt); ok && as.Tok == token.ASSIGN && len(as.Lhs) == 1 {
				poAssigns = append(poAssigns, [2]string{digNodeString(as.Lhs[0]), digNodeString(as.Rhs[0])})
			}
			// the tag-less guard switch on the min units match
			if sw, ok := st.(*ast.SwitchStmt); ok && sw.Tag == nil {
				for _, c := range sw.Body.List {
					cc := c.(*ast.CaseClause)
					for _, l := range cc.List {
						poGuards = append(poGuards, digNodeString(l))
					}
				}
			}
		}
		if sw := digFindSwitchByTag(po.Body, "details.ChannelType"); sw == nil {
			fail("ParseRPCOrder: channel type switch not found")
		} else {
			digSpecialClauses = &poSpecial
			poCtPairs, poCtDefault = digEnumSwitch("ParseRPCOrder channel type", sw, envs, "order")
			digSpecialClauses = nil
		}
	}
	toSat := findFunc(files, "SupplyUnit.ToSatoshis")
	fromSat := findFunc(files, "NewSupplyFromSats")
	if toSat == nil || fromSat == nil {
		fail("order.SupplyUnit.ToSatoshis / NewSupplyFromSats not found")
		return
	}

	l := digNewLeanImporting("DigestFacts", "PoolModel.DigestTypes", "Ordered codec.WriteElements argument lists of "+
		"order.Ask.Digest / order.Bid.Digest per version case; field mapping of the ServerOrder/ServerAsk/"+
		"ServerBid literals in auctioneer.Client.SubmitOrder with the enum switches it uses; the inverse "+
		"channel-type switch of order.ParseRPCServerOrder.")
	l.p("namespace Pool.Gen.C12")
	digEmitDigestFn(l, "askDigest", ask)
	digEmitDigestFn(l, "bidDigest", bid)
	l.p("/-- (field, value expression) of the `&auctioneerrpc.ServerOrder{…}` literal in SubmitOrder -/")
	l.p("def submitServerOrder : List (String × String) := %s", digLeanStrPairs(lits["auctioneerrpc.ServerOrder"]))
	l.p("def submitServerAsk : List (String × String) := %s", digLeanStrPairs(lits["auctioneerrpc.ServerAsk"]))
	l.p("def submitServerBid : List (String × String) := %s", digLeanStrPairs(lits["auctioneerrpc.ServerBid"]))
	l.p("/-- `name := expr` definitions inside SubmitOrder -/")
	l.p("def submitLocals : List (String × String) := %s", digLeanStrPairs(locals))
	l.p("/-- `x.f = expr` assignments inside SubmitOrder (fields set after the literals) -/")
	l.p("def submitFieldAssigns : List (String × String) := %s", digLeanStrPairs(fieldAssigns))
	l.p("/-- `local = expr` re-assignments of locals inside SubmitOrder -/")
	l.p("def submitVarAssigns : List (String × String) := %s", digLeanStrPairs(varAssigns))
	l.p("/-- SubmitOrder: order.ChannelType value ↦ auctioneerrpc.OrderChannelType value -/")
	l.p("def submitChannelType : List (Nat × Nat) := %s", digLeanPairs(ctPairs))
	l.p("def submitChannelTypeDefault : List String := %s", leanStrList(ctDefault))
	l.p("/-- SubmitOrder: order.AuctionType value ↦ auctioneerrpc.AuctionType value (no default: zero value) -/")
	l.p("def submitAuctionType : List (Nat × Nat) := %s", digLeanPairs(atPairs))
	l.p("def submitAuctionTypeDefault : List String := %s", leanStrList(atDefault))
	l.p("/-- MarshallNodeTier: order.NodeTier value ↦ auctioneerrpc.NodeTier value -/")
	l.p("def marshallNodeTier : List (Nat × Nat) := %s", digLeanPairs(ntPairs))
	l.p("def marshallNodeTierDefault : List String := %s", leanStrList(ntDefault))
	l.p("/-- ParseRPCServerOrder: auctioneerrpc.OrderChannelType value ↦ order.ChannelType value -/")
	l.p("def parseChannelType : List (Nat × Nat) := %s", digLeanPairs(pctPairs))
	l.p("def parseChannelTypeDefault : List String := %s", leanStrList(pctDefault))
	l.p("/-- ParseRPCServerOrder: top-level `lhs = rhs` assignments -/")
	l.p("def parseServerOrderAssigns : List (String × String) := %s", digLeanStrPairs(psoAssigns))
	l.p("/-- ParseRPCOrder: top-level `lhs = rhs` assignments -/")
	l.p("def parseOrderAssigns : List (String × String) := %s", digLeanStrPairs(poAssigns))
	l.p("/-- ParseRPCOrder: conditions of the tag-less guard switch (each returns an error) -/")
	l.p("def parseOrderGuards : List String := %s", leanStrList(poGuards))
	l.p("/-- ParseRPCOrder: auctioneerrpc.OrderChannelType value ↦ order.ChannelType value -/")
	l.p("def parseOrderChannelType : List (Nat × Nat) := %s", digLeanPairs(poCtPairs))
	l.p("/-- ParseRPCOrder: clauses of that switch with their own control flow (label value, source) -/")
	l.p("def parseOrderChannelTypeSpecial : List (String × String) := %s", digLeanStrPairs(poSpecial))
	l.p("def parseOrderChannelTypeDefault : List String := %s", leanStrList(poCtDefault))
	l.p("def supplyToSatoshis : List String := %s", leanStrList(digFuncBodyStrings(toSat)))
	l.p("def supplyFromSats : List String := %s", leanStrList(digFuncBodyStrings(fromSat)))
		l.p("def digestBTCOutboundLiquidity : Nat := %s", intConst(ce, "order", "BTCOutboundLiquidity"))
l.p("def digestBaseSupplyUnit : Nat := %s", intConst(ce, "order", "BaseSupplyUnit"))
	for _, n := range []string{"VersionDefault", "VersionNodeTierMinMatch", "VersionLeaseDurationBuckets",
		"VersionSelfChanBalance", "VersionSidecarChannel", "VersionChannelType"} {

		l.p("def order%s : Nat := %s", n, intConst(ce, "order", n))
	}
	l.p("end Pool.Gen.C12")
}
