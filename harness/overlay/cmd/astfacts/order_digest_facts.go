//go:build verif

package main

// ---------------------------------------------------------------- C12

func genOrderDigestFacts() {
	files := pkgFiles("order")
	te := newTypeEnv(files)
	ce := newConstEnv(files)
	ask := extractDigestFn(files, te, ce, "order", "Ask.Digest")
	bid := extractDigestFn(files, te, ce, "order", "Bid.Digest")
	if ask == nil || bid == nil {
		return
	}
	l := newLeanImporting("DigestFacts", "PoolModel.DigestTypes", "Ordered codec.WriteElements argument lists of "+
		"order.Ask.Digest / order.Bid.Digest per version case.")
	l.p("namespace Pool.Gen")
	emitDigestFn(l, "askDigest", ask)
	emitDigestFn(l, "bidDigest", bid)
	l.p("end Pool.Gen")
}
