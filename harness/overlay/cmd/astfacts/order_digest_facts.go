//go:build verif

package main

import (
	"fmt"
	"go/ast"
	"go/token"
	"sort"
	"strings"
)

// ---------------------------------------------------------------- C12

// digQualConst evaluates `pkg.Name` / `Name` against the constant environment of
// the named package.
func digQualConst(envs map[string]*constEnv, dflt string, e ast.Expr) (string, bool) {
	switch x := e.(type) {
	case *ast.SelectorExpr:
		if id, ok := x.X.(*ast.Ident); ok {
			if ce, ok := envs[id.Name]; ok {
				if v, ok := ce.get(x.Sel.Name); ok {
					return v.ExactString(), true
				}
			}
		}
	case *ast.Ident:
		if ce, ok := envs[dflt]; ok {
			if v, ok := ce.get(x.Name); ok {
				return v.ExactString(), true
			}
		}
	case *ast.BasicLit:
		if x.Kind == token.INT {
			return x.Value, true
		}
	}
	return "", false
}

// digSpecialClauses, when set, receives (label value, body source) of switch
// clauses that do not simply assign/return a constant.
var digSpecialClauses *[][2]string

// digEnumSwitch reads `switch tag { case A: lhs = B … }` or
// `switch tag { case A: return B, nil … }` into (A, B) value pairs.
func digEnumSwitch(what string, sw *ast.SwitchStmt, envs map[string]*constEnv,
	dflt string) (pairs [][2]string, defaultStmts []string) {

	for _, c := range sw.Body.List {
		cc := c.(*ast.CaseClause)
		if cc.List == nil {
			for _, s := range cc.Body {
				defaultStmts = append(defaultStmts, digNodeString(s))
			}
			continue
		}
		var val ast.Expr
		for _, s := range cc.Body {
			switch st := s.(type) {
			case *ast.AssignStmt:
				if len(st.Rhs) == 1 && (st.Tok == token.ASSIGN) {
					val = st.Rhs[0]
				}
			case *ast.ReturnStmt:
				if len(st.Results) >= 1 {
					val = st.Results[0]
				}
			}
		}
		if val == nil {
			if digSpecialClauses != nil {
				// a clause with its own control flow: reported as source
				// text, not as a table row
				var body []string
				for _, s := range cc.Body {
					body = append(body, digNodeString(s))
				}
				for _, l := range cc.List {
					a, _ := digQualConst(envs, dflt, l)
					*digSpecialClauses = append(*digSpecialClauses,
						[2]string{a, strings.Join(body, "; ")})
				}
				continue
			}
			// a clause that only falls out of the switch (comment-only)
			fail("%s: case %s assigns/returns nothing", what, digNodeString(cc.List[0]))
			continue
		}
		b, ok := digQualConst(envs, dflt, val)
		if !ok && digSpecialClauses != nil {
			var body []string
			for _, s := range cc.Body {
				body = append(body, digNodeString(s))
			}
			for _, l := range cc.List {
				a, _ := digQualConst(envs, dflt, l)
				*digSpecialClauses = append(*digSpecialClauses, [2]string{a, strings.Join(body, "; ")})
			}
			continue
		}
		if !ok {
			fail("%s: value %s not a constant", what, digNodeString(val))
			continue
		}
		for _, l := range cc.List {
			a, ok := digQualConst(envs, dflt, l)
			if !ok {
				fail("%s: label %s not a constant", what, digNodeString(l))
				continue
			}
			pairs = append(pairs, [2]string{a, b})
		}
	}
	return pairs, defaultStmts
}

// digEnumSwitchStmts is digEnumSwitch that also hands back the statements of the
// default clause.
func digEnumSwitchStmts(what string, sw *ast.SwitchStmt, envs map[string]*constEnv,
	dflt string) ([][2]string, []ast.Stmt) {

	pairs, _ := digEnumSwitch(what, sw, envs, dflt)
	for _, c := range sw.Body.List {
		if cc := c.(*ast.CaseClause); cc.List == nil {
			return pairs, cc.Body
		}
	}
	return pairs, nil
}

func digSortPairs(ps [][2]string) {
	sort.SliceStable(ps, func(i, j int) bool {
		if len(ps[i][0]) != len(ps[j][0]) {
			return len(ps[i][0]) < len(ps[j][0])
		}
		return ps[i][0] < ps[j][0]
	})
}

func digFindSwitchByTag(body ast.Node, tag string) *ast.SwitchStmt {
	var res *ast.SwitchStmt
	ast.Inspect(body, func(n ast.Node) bool {
		if sw, ok := n.(*ast.SwitchStmt); ok && sw.Tag != nil && digNodeString(sw.Tag) == tag && res == nil {
			res = sw
		}
		return true
	})
	return res
}

func digLeanPairs(ps [][2]string) string {
	var xs []string
	for _, p := range ps {
		xs = append(xs, fmt.Sprintf("(%s, %s)", p[0], p[1]))
	}
	return "[" + strings.Join(xs, ", ") + "]"
}

func digLeanStrPairs(ps [][2]string) string {
	var xs []string
	for _, p := range ps {
		xs = append(xs, fmt.Sprintf("(%q, %q)", p[0], p[1]))
	}
	return "[" + strings.Join(xs, ", ") + "]"
}

func digFuncBodyStrings(fd *ast.FuncDecl) []string {
	var res []string
	for _, s := range fd.Body.List {
		res = append(res, digNodeString(s))
	}
	return res
}

// ---- SubmitOrder: canonical value expressions ---------------------------------
//
// Values of the composite literals are printed with single-definition locals
// replaced by their defining expression (`kit := o.Details()`; the variable of
// the type switch is always called castOrder), and enum conversions — a local
// assigned in the cases of a switch, or a call of a same-package helper that
// switches over its parameter — printed as enum(<converted expression>) with the
// value table recorded. Names of locals and helpers do not matter.

type digEnum struct {
	pairs          [][2]string
	defaultIsError bool
}

type digSubmitCtx struct {
	fn      *ast.FuncDecl
	files   []*ast.File
	envs    map[string]*constEnv
	defs    map[string]ast.Expr        // inlinable locals
	mutable map[string]bool            // locals with more than one definition / re-assignment
	alias   map[string]string          // renamed identifiers
	swOf    map[string]*ast.SwitchStmt // mutable local -> the switch that assigns it
	enums   map[string]*digEnum
	second  map[string]string // local -> name of the 2nd value defined with it (ok / err)
}

func digNewSubmitCtx(fn *ast.FuncDecl, files []*ast.File, envs map[string]*constEnv) *digSubmitCtx {
	sx := &digSubmitCtx{fn: fn, files: files, envs: envs, defs: map[string]ast.Expr{},
		mutable: map[string]bool{}, alias: map[string]string{}, swOf: map[string]*ast.SwitchStmt{},
		enums: map[string]*digEnum{}, second: map[string]string{}}
	count := map[string]int{}
	define := func(name string, rhs ast.Expr) {
		count[name]++
		sx.defs[name] = rhs
	}
	var walk func(n ast.Node, sw *ast.SwitchStmt)
	walk = func(n ast.Node, sw *ast.SwitchStmt) {
		ast.Inspect(n, func(m ast.Node) bool {
			switch x := m.(type) {
			case *ast.SwitchStmt:
				if x != sw {
					if x.Init != nil {
						walk(x.Init, sw)
					}
					walk(x.Body, x)
					return false
				}
			case *ast.TypeSwitchStmt:
				if as, ok := x.Assign.(*ast.AssignStmt); ok && len(as.Lhs) == 1 {
					if id, ok := as.Lhs[0].(*ast.Ident); ok {
						sx.alias[id.Name] = "castOrder"
					}
				}
			case *ast.AssignStmt:
				if x.Tok == token.DEFINE && len(x.Rhs) == 1 {
					if id, ok := x.Lhs[0].(*ast.Ident); ok {
						if _, isAssert := x.Rhs[0].(*ast.TypeAssertExpr); isAssert {
							// `ask, ok := o.(*order.Ask)`: the order cast to its side
							sx.alias[id.Name] = "castOrder"
							return true
						}
						define(id.Name, x.Rhs[0])
						if len(x.Lhs) == 2 {
							if id2, ok := x.Lhs[1].(*ast.Ident); ok {
								sx.second[id.Name] = id2.Name
							}
						}
					}
				} else if x.Tok == token.ASSIGN {
					for _, l := range x.Lhs {
						if id, ok := l.(*ast.Ident); ok {
							sx.mutable[id.Name] = true
							if sw != nil && sx.swOf[id.Name] == nil {
								sx.swOf[id.Name] = sw
							} else if sx.swOf[id.Name] != sw {
								sx.swOf[id.Name] = nil
								count[id.Name] += 2
							}
						}
					}
				}
			case *ast.ValueSpec:
				for k, n := range x.Names {
					if k < len(x.Values) {
						define(n.Name, x.Values[k])
					}
				}
			}
			return true
		})
	}
	walk(fn.Body, nil)
	for name, rhs := range sx.defs {
		_, isPtrLit := rhs.(*ast.UnaryExpr)
		call, isCall := rhs.(*ast.CallExpr)
		isMake := isCall && (exprString(call.Fun) == "make" || exprString(call.Fun) == "append")
		if count[name] != 1 || sx.mutable[name] || isPtrLit || isMake {
			delete(sx.defs, name)
		}
	}
	return sx
}

// helperEnum: f(arg) where f is a function of this package whose body switches
// over its (single) parameter.
func (sx *digSubmitCtx) helperEnum(call *ast.CallExpr, local string) (string, bool) {
	id, ok := call.Fun.(*ast.Ident)
	if !ok || len(call.Args) != 1 {
		return "", false
	}
	h := findFunc(sx.files, id.Name)
	if h == nil || h.Body == nil || h.Type.Params == nil || len(h.Type.Params.List) != 1 ||
		len(h.Type.Params.List[0].Names) != 1 {

		return "", false
	}
	sw := digFindSwitchByTag(h.Body, h.Type.Params.List[0].Names[0].Name)
	if sw == nil {
		return "", false
	}
	tag := sx.print(call.Args[0])
	pairs, dflt := digEnumSwitchStmts("SubmitOrder helper "+id.Name, sw, sx.envs, "order")
	e := &digEnum{pairs: pairs}
	// is an unmapped value an error for SubmitOrder?
	nres := 0
	if h.Type.Results != nil {
		for _, f := range h.Type.Results.List {
			n := len(f.Names)
			if n == 0 {
				n = 1
			}
			nres += n
		}
	}
	if nres == 2 && len(dflt) > 0 {
		if r, ok := dflt[len(dflt)-1].(*ast.ReturnStmt); ok && len(r.Results) == 2 {
			last := digNodeString(r.Results[1])
			sec := sx.second[local]
			switch {
			case last == "false" && sec != "":
				// caller must bail out on !ok
				ast.Inspect(sx.fn.Body, func(n ast.Node) bool {
					if is, ok := n.(*ast.IfStmt); ok && digNodeString(is.Cond) == "!"+sec &&
						len(is.Body.List) > 0 {

						if rr, ok := is.Body.List[len(is.Body.List)-1].(*ast.ReturnStmt); ok &&
							len(rr.Results) == 1 && !digIsNil(rr.Results[0]) {

							e.defaultIsError = true
						}
					}
					return true
				})
			case last != "nil" && last != "false" && last != "true":
				// (value, error) with a non-nil error: the caller returns it
				e.defaultIsError = true
			}
		}
	}
	sx.enums[tag] = e
	return "enum(" + tag + ")", true
}

// canon prints the value of a literal field canonically.
func (sx *digSubmitCtx) canon(e ast.Expr) string {
	if id, ok := e.(*ast.Ident); ok {
		if sw := sx.swOf[id.Name]; sw != nil && sx.mutable[id.Name] && sw.Tag != nil {
			tag := sx.print(sw.Tag)
			pairs, dflt := digEnumSwitchStmts("SubmitOrder switch on "+tag, sw, sx.envs, "order")
			en := &digEnum{pairs: pairs}
			if len(dflt) > 0 {
				if r, ok := dflt[len(dflt)-1].(*ast.ReturnStmt); ok && len(r.Results) == 1 &&
					!digIsNil(r.Results[0]) {

					en.defaultIsError = true
				}
			}
			sx.enums[tag] = en
			return "enum(" + tag + ")"
		}
		if d, ok := sx.defs[id.Name]; ok {
			if call, ok := d.(*ast.CallExpr); ok {
				if s, ok := sx.helperEnum(call, id.Name); ok {
					return s
				}
			}
		}
	}
	if call, ok := e.(*ast.CallExpr); ok {
		if s, ok := sx.helperEnum(call, ""); ok {
			return s
		}
	}
	return sx.print(e)
}

// print renders an expression with inlinable locals replaced by their
// definitions.
func (sx *digSubmitCtx) print(e ast.Expr) string {
	return sx.printD(e, 0)
}

func (sx *digSubmitCtx) printD(e ast.Expr, d int) string {
	p := func(x ast.Expr) string { return sx.printD(x, d) }
	switch x := e.(type) {
	case *ast.Ident:
		if a, ok := sx.alias[x.Name]; ok {
			return a
		}
		if def, ok := sx.defs[x.Name]; ok && d < 4 {
			return sx.printD(def, d+1)
		}
		return x.Name
	case *ast.SelectorExpr:
		// package-qualified names are not locals
		if id, ok := x.X.(*ast.Ident); ok {
			if _, isLocal := sx.defs[id.Name]; !isLocal && sx.alias[id.Name] == "" {
				return id.Name + "." + x.Sel.Name
			}
		}
		return p(x.X) + "." + x.Sel.Name
	case *ast.CallExpr:
		var as []string
		for _, a := range x.Args {
			as = append(as, p(a))
		}
		return p(x.Fun) + "(" + strings.Join(as, ", ") + ")"
	case *ast.SliceExpr:
		lo, hi := "", ""
		if x.Low != nil {
			lo = p(x.Low)
		}
		if x.High != nil {
			hi = p(x.High)
		}
		return p(x.X) + "[" + lo + ":" + hi + "]"
	case *ast.IndexExpr:
		return p(x.X) + "[" + p(x.Index) + "]"
	case *ast.ParenExpr:
		return "(" + p(x.X) + ")"
	case *ast.StarExpr:
		return "*" + p(x.X)
	case *ast.UnaryExpr:
		return x.Op.String() + p(x.X)
	case *ast.BinaryExpr:
		return p(x.X) + " " + x.Op.String() + " " + p(x.Y)
	}
	return digNodeString(e)
}

func digGenOrderDigestFacts() {
	files := pkgFiles("order")
	te := digNewTypeEnv(files)
	ce := newConstEnv(files)
	ask := digExtractDigestFn(files, te, ce, "order", "Ask.Digest")
	bid := digExtractDigestFn(files, te, ce, "order", "Bid.Digest")
	if ask == nil || bid == nil {
		return
	}
	known := map[string]bool{"isSidecar": true}
	for _, r := range []string{"a", "b"} {
		for _, e := range []string{"%s.nonce[:]", "uint32(%s.Version)", "%s.FixedRate", "%s.Amt",
			"%s.LeaseDuration", "uint64(%s.MaxBatchFeeRate)", "uint32(%s.MinUnitsMatch)",
			"uint8(%s.ChannelType)", "uint8(%s.State)", "uint64(%s.Units)",
			"uint64(%s.UnitsUnfulfilled)", "uint64(%s.MinUnitsMatch)", "uint32(%s.AuctionType)"} {

			known[fmt.Sprintf(e, r)] = true
		}
	}
	known["uint32(b.MinNodeTier)"] = true
	known["uint64(b.SelfChanBalance)"] = true
	known["b.SelfChanBalance"] = true
	for _, f := range []*digDigestFn{ask, bid} {
		for _, c := range f.cases {
			for _, a := range c.args {
				if !known[a.expr] {
					fail("order.%s case %v: argument %q has no encoder in the model",
						f.name, c.labels, a.expr)
				}
			}
		}
	}

	// ---- auctioneer.Client.SubmitOrder: composite literals, locals, enum switches
	afiles := pkgFiles("auctioneer")
	rpcEnv := newConstEnv(pkgFiles("auctioneerrpc"))
	envs := map[string]*constEnv{"order": ce, "auctioneerrpc": rpcEnv}
	so := findFunc(afiles, "Client.SubmitOrder")
	if so == nil || so.Body == nil {
		fail("auctioneer.Client.SubmitOrder not found")
		return
	}
	sx := digNewSubmitCtx(so, afiles, envs)
	lits := map[string][][2]string{}
	ast.Inspect(so.Body, func(n ast.Node) bool {
		if x, ok := n.(*ast.CompositeLit); ok {
			name := digNodeString(x.Type)
			switch name {
			case "auctioneerrpc.ServerOrder", "auctioneerrpc.ServerAsk", "auctioneerrpc.ServerBid":
				if _, dup := lits[name]; dup {
					fail("SubmitOrder: two %s literals", name)
				}
				var kv [][2]string
				for _, el := range x.Elts {
					k, ok := el.(*ast.KeyValueExpr)
					if !ok {
						fail("SubmitOrder: positional element in %s literal", name)
						continue
					}
					kv = append(kv, [2]string{digNodeString(k.Key), sx.canon(k.Value)})
				}
				lits[name] = kv
			}
		}
		return true
	})
	for _, n := range []string{"auctioneerrpc.ServerOrder", "auctioneerrpc.ServerAsk", "auctioneerrpc.ServerBid"} {
		if len(lits[n]) == 0 {
			fail("SubmitOrder: composite literal %s not found", n)
		}
	}
	// `v := &Lit{…}` followed by straight-line `v.Field = expr` statements (top
	// level of the function body, unconditional) is the same as listing the
	// field in the literal: merge them (a later assignment wins).
	litVar := map[string]string{}
	topLevel := map[ast.Stmt]bool{}
	for _, st := range so.Body.List {
		as, ok := st.(*ast.AssignStmt)
		if !ok || len(as.Lhs) != 1 || len(as.Rhs) != 1 {
			continue
		}
		if id, ok := as.Lhs[0].(*ast.Ident); ok && as.Tok == token.DEFINE {
			if u, ok := as.Rhs[0].(*ast.UnaryExpr); ok {
				if cl, ok := u.X.(*ast.CompositeLit); ok {
					litVar[id.Name] = digNodeString(cl.Type)
				}
			}
			continue
		}
		sel, ok := as.Lhs[0].(*ast.SelectorExpr)
		if !ok || as.Tok != token.ASSIGN {
			continue
		}
		if v, ok := sel.X.(*ast.Ident); ok && lits[litVar[v.Name]] != nil {
			name := litVar[v.Name]
			val := sx.canon(as.Rhs[0])
			replaced := false
			for k := range lits[name] {
				if lits[name][k][0] == sel.Sel.Name {
					lits[name][k][1], replaced = val, true
				}
			}
			if !replaced {
				lits[name] = append(lits[name], [2]string{sel.Sel.Name, val})
			}
			topLevel[st] = true
		}
	}
	// any other assignment to a field (conditional, in a loop, indexed) is
	// listed as (field, target)
	var fieldAssigns [][2]string
	ast.Inspect(so.Body, func(n ast.Node) bool {
		if st, ok := n.(ast.Stmt); ok && topLevel[st] {
			return false
		}
		if as, ok := n.(*ast.AssignStmt); ok && as.Tok == token.ASSIGN && len(as.Lhs) == 1 {
			lhs := as.Lhs[0]
			if ix, ok := lhs.(*ast.IndexExpr); ok {
				lhs = ix.X
			}
			if sel, ok := lhs.(*ast.SelectorExpr); ok {
				fieldAssigns = append(fieldAssigns, [2]string{sel.Sel.Name, digNodeString(sel.X)})
			}
		}
		return true
	})
	enumTable := func(suffix string) ([][2]string, bool) {
		for tag, e := range sx.enums {
			if strings.HasSuffix(tag, suffix) {
				digSortPairs(e.pairs)
				return e.pairs, e.defaultIsError
			}
		}
		fail("SubmitOrder: no enum mapping of %s found", suffix)
		return nil, false
	}
	ctPairs, ctDefErr := enumTable(".ChannelType")
	atPairs, atDefErr := enumTable(".AuctionType")
	ntPairs, ntDefErr := enumTable(".MinNodeTier")

	// ---- order/rpc_parse.go: channel type switch of ParseRPCServerOrder (rpc -> order)
	var pctPairs [][2]string
	var pctDefault []string
	pso := findFunc(files, "ParseRPCServerOrder")
	var psoAssigns [][2]string
	if pso == nil {
		fail("order.ParseRPCServerOrder not found")
	} else {
		if sw := digFindSwitchByTag(pso.Body, "details.ChannelType"); sw == nil {
			fail("ParseRPCServerOrder: channel type switch not found")
		} else {
			pctPairs, pctDefault = digEnumSwitch("ParseRPCServerOrder channel type", sw, envs, "order")
		}
		for _, s := range pso.Body.List {
			if as, ok := s.(*ast.AssignStmt); ok && as.Tok == token.ASSIGN && len(as.Lhs) == 1 {
				psoAssigns = append(psoAssigns, [2]string{digNodeString(as.Lhs[0]), digNodeString(as.Rhs[0])})
			}
		}
	}
	// ---- order/rpc_parse.go: ParseRPCOrder (the trader's order as built from the RPC request)
	// The model consumes the channel-type table; it is looked for in the function
	// itself or in a same-package function / method it hands details.ChannelType
	// to. Assignments and guards are emitted for information only (their tie is
	// the byte-exact `parse` correspondence).
	var poAssigns, poSpecial, poCtPairs [][2]string
	var poGuards, poCtDefault []string
	po := findFunc(files, "ParseRPCOrder")
	if po == nil {
		fail("order.ParseRPCOrder not found")
	} else {
		ast.Inspect(po.Body, func(n ast.Node) bool {
			switch x := n.(type) {
			case *ast.AssignStmt:
				if x.Tok == token.ASSIGN && len(x.Lhs) == len(x.Rhs) {
					for k := range x.Lhs {
						poAssigns = append(poAssigns, [2]string{digNodeString(x.Lhs[k]), digNodeString(x.Rhs[k])})
					}
				}
			case *ast.SwitchStmt:
				if x.Tag == nil {
					for _, c := range x.Body.List {
						for _, l := range c.(*ast.CaseClause).List {
							poGuards = append(poGuards, digNodeString(l))
						}
					}
				}
			case *ast.IfStmt:
				if digReturnsError(x.Body.List) && !digIsErrCheck(x.Cond) {
					poGuards = append(poGuards, digNodeString(x.Cond))
				}
			}
			return true
		})
		sw := digFindSwitchByTag(po.Body, "details.ChannelType")
		if sw == nil {
			// follow a helper that receives details.ChannelType
			ast.Inspect(po.Body, func(n ast.Node) bool {
				call, ok := n.(*ast.CallExpr)
				if !ok || sw != nil {
					return true
				}
				for k, a := range call.Args {
					if digNodeString(a) != "details.ChannelType" {
						continue
					}
					fname := ""
					switch f := call.Fun.(type) {
					case *ast.Ident:
						fname = f.Name
					case *ast.SelectorExpr:
						fname = f.Sel.Name
					}
					for _, file := range files {
						for _, d := range file.Decls {
							fd, ok := d.(*ast.FuncDecl)
							if !ok || fd.Name.Name != fname || fd.Body == nil {
								continue
							}
							idx := 0
							for _, f := range fd.Type.Params.List {
								for _, pn := range f.Names {
									if idx == k {
										sw = digFindSwitchByTag(fd.Body, pn.Name)
									}
									idx++
								}
							}
						}
					}
				}
				return true
			})
		}
		if sw == nil {
			fail("ParseRPCOrder: channel type mapping not found")
		} else {
			digSpecialClauses = &poSpecial
			poCtPairs, poCtDefault = digEnumSwitch("ParseRPCOrder channel type", sw, envs, "order")
			digSpecialClauses = nil
			digSortPairs(poCtPairs)
		}
	}
	toSat := findFunc(files, "SupplyUnit.ToSatoshis")
	fromSat := findFunc(files, "NewSupplyFromSats")
	if toSat == nil || fromSat == nil {
		fail("order.SupplyUnit.ToSatoshis / NewSupplyFromSats not found")
		return
	}

	l := digNewLeanImporting("DigestFacts", "PoolModel.DigestTypes", "Ordered codec.WriteElements argument lists of "+
		"order.Ask.Digest / order.Bid.Digest per version case; field mapping of the ServerOrder/ServerAsk/"+
		"ServerBid literals in auctioneer.Client.SubmitOrder with the enum switches it uses; the inverse "+
		"channel-type switch of order.ParseRPCServerOrder.")
	l.p("namespace Pool.Gen.C12")
	digEmitDigestFn(l, "askDigest", ask)
	digEmitDigestFn(l, "bidDigest", bid)
	l.p("/-- (field, value expression) of the `&auctioneerrpc.ServerOrder{…}` literal in SubmitOrder -/")
	l.p("def submitServerOrder : List (String × String) := %s", digLeanStrPairs(lits["auctioneerrpc.ServerOrder"]))
	l.p("def submitServerAsk : List (String × String) := %s", digLeanStrPairs(lits["auctioneerrpc.ServerAsk"]))
	l.p("def submitServerBid : List (String × String) := %s", digLeanStrPairs(lits["auctioneerrpc.ServerBid"]))
	l.p("/-- (field, target) of `target.field = …` / `target.field[i] = …` assignments inside SubmitOrder -/")
	l.p("def submitFieldAssigns : List (String × String) := %s", digLeanStrPairs(fieldAssigns))
	l.p("/-- SubmitOrder: order.ChannelType value ↦ auctioneerrpc.OrderChannelType value (switch in SubmitOrder or in a helper it calls) -/")
	l.p("def submitChannelType : List (Nat × Nat) := %s", digLeanPairs(ctPairs))
	l.p("def submitChannelTypeDefaultIsError : Bool := %v", ctDefErr)
	l.p("/-- SubmitOrder: order.AuctionType value ↦ auctioneerrpc.AuctionType value -/")
	l.p("def submitAuctionType : List (Nat × Nat) := %s", digLeanPairs(atPairs))
	l.p("def submitAuctionTypeDefaultIsError : Bool := %v", atDefErr)
	l.p("/-- MarshallNodeTier: order.NodeTier value ↦ auctioneerrpc.NodeTier value -/")
	l.p("def marshallNodeTier : List (Nat × Nat) := %s", digLeanPairs(ntPairs))
	l.p("def marshallNodeTierDefaultIsError : Bool := %v", ntDefErr)
	l.p("/-- ParseRPCServerOrder: auctioneerrpc.OrderChannelType value ↦ order.ChannelType value -/")
	l.p("def parseChannelType : List (Nat × Nat) := %s", digLeanPairs(pctPairs))
	l.p("def parseChannelTypeDefault : List String := %s", leanStrList(pctDefault))
	l.p("/-- ParseRPCServerOrder: top-level `lhs = rhs` assignments -/")
	l.p("def parseServerOrderAssigns : List (String × String) := %s", digLeanStrPairs(psoAssigns))
	l.p("/-- ParseRPCOrder: top-level `lhs = rhs` assignments -/")
	l.p("def parseOrderAssigns : List (String × String) := %s", digLeanStrPairs(poAssigns))
	l.p("/-- ParseRPCOrder: conditions of the tag-less guard switch (each returns an error) -/")
	l.p("def parseOrderGuards : List String := %s", leanStrList(poGuards))
	l.p("/-- ParseRPCOrder: auctioneerrpc.OrderChannelType value ↦ order.ChannelType value -/")
	l.p("def parseOrderChannelType : List (Nat × Nat) := %s", digLeanPairs(poCtPairs))
	l.p("/-- ParseRPCOrder: clauses of that switch with their own control flow (label value, source) -/")
	l.p("def parseOrderChannelTypeSpecial : List (String × String) := %s", digLeanStrPairs(poSpecial))
	l.p("def parseOrderChannelTypeDefault : List String := %s", leanStrList(poCtDefault))
	l.p("def supplyToSatoshis : List String := %s", leanStrList(digFuncBodyStrings(toSat)))
	l.p("def supplyFromSats : List String := %s", leanStrList(digFuncBodyStrings(fromSat)))
		l.p("def digestBTCOutboundLiquidity : Nat := %s", intConst(ce, "order", "BTCOutboundLiquidity"))
l.p("def digestBaseSupplyUnit : Nat := %s", intConst(ce, "order", "BaseSupplyUnit"))
	for _, n := range []string{"VersionDefault", "VersionNodeTierMinMatch", "VersionLeaseDurationBuckets",
		"VersionSelfChanBalance", "VersionSidecarChannel", "VersionChannelType"} {

		l.p("def order%s : Nat := %s", n, intConst(ce, "order", n))
	}
	l.p("end Pool.Gen.C12")
}
