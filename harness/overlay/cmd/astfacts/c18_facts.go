//go:build verif

package main

import (
	"fmt"
	"go/ast"
	"go/printer"
	"sort"
	"strings"
)

func init() {
	externConsts["math.MaxInt16"] = 32767
	jobs = append(jobs, job{props: []string{"C18"}, fn: genC18})
}

func c18NodeString(n ast.Node) string {
	var sb strings.Builder
	printer.Fprint(&sb, fset, n)
	return strings.Join(strings.Fields(sb.String()), " ")
}

func c18Bool(b bool) string {
	if b {
		return "true"
	}
	return "false"
}

// c18CallArgs returns the printed arguments of every call of `callee` inside fd.
func c18CallArgs(fd *ast.FuncDecl, callee string) [][]string {
	var res [][]string
	ast.Inspect(fd.Body, func(n ast.Node) bool {
		if c, ok := n.(*ast.CallExpr); ok && exprString(c.Fun) == callee {
			var a []string
			for _, x := range c.Args {
				a = append(a, exprString(x))
			}
			res = append(res, a)
		}
		return true
	})
	return res
}

// c18PkgVarRefs returns "func:var" for every reference to a package-level
// variable made by the functions reachable from the roots through calls to
// functions or methods of the same package (resolved by name).
func c18PkgVarRefs(files []*ast.File, roots []string) []string {
	funcs := map[string][]*ast.FuncDecl{}
	pkgVars := map[string]bool{}
	top := map[*ast.ValueSpec]bool{}
	for _, f := range files {
		for _, d := range f.Decls {
			switch x := d.(type) {
			case *ast.FuncDecl:
				funcs[x.Name.Name] = append(funcs[x.Name.Name], x)
			case *ast.GenDecl:
				if x.Tok.String() != "var" {
					continue
				}
				for _, sp := range x.Specs {
					vs := sp.(*ast.ValueSpec)
					top[vs] = true
					for _, n := range vs.Names {
						if n.Name != "_" {
							pkgVars[n.Name] = true
						}
					}
				}
			}
		}
	}
	seen := map[*ast.FuncDecl]bool{}
	var work []*ast.FuncDecl
	for _, r := range roots {
		if len(funcs[r]) == 0 {
			fail("account.%s not found", r)
			return nil
		}
		work = append(work, funcs[r]...)
	}
	var refs []string
	for len(work) > 0 {
		fd := work[0]
		work = work[1:]
		if seen[fd] || fd.Body == nil {
			continue
		}
		seen[fd] = true
		ast.Inspect(fd.Body, func(n ast.Node) bool {
			switch x := n.(type) {
			case *ast.CallExpr:
				name := ""
				switch f := x.Fun.(type) {
				case *ast.Ident:
					name = f.Name
				case *ast.SelectorExpr:
					name = f.Sel.Name // method of a same-package type, by name
				}
				work = append(work, funcs[name]...)
			case *ast.Ident:
				if !pkgVars[x.Name] {
					return true
				}
				// resolved to a local declaration (parameter, := …)?
				if x.Obj != nil {
					if vs, ok := x.Obj.Decl.(*ast.ValueSpec); !ok || !top[vs] {
						return true
					}
				}
				refs = append(refs, fd.Name.Name+":"+x.Name)
			}
			return true
		})
	}
	sort.Strings(refs)
	return refs
}

// genC18 extracts the source shapes the C18 model mirrors: the hashed
// concatenations of account/auth.go, the reconnect parameters and the backoff
// update of client.go, the routing branch of ErrChanSwitch.run, the
// bookkeeping shape of HandleServerShutdown / connectAndAuthenticate, and the
// reaction of rpcServer.serverHandler to StreamErrChan.
func genC18() {
	l := newLean("C18Facts", "Source shapes of auctioneer/{client,err_chan_switch,account_subscription}.go, account/auth.go, rpcserver.go used by the C18 model.")
	l.p("namespace Pool.Gen.C18")

	// ---- account/auth.go ----
	acct := pkgFiles("account")
	for _, fn := range []string{"CommitAccount", "AuthChallenge", "AuthHash"} {
		fd := findFunc(acct, fn)
		if fd == nil {
			fail("account.%s not found", fn)
			return
		}
		args := c18CallArgs(fd, "concatAndHash")
		if len(args) != 1 {
			fail("account.%s: expected one concatAndHash call", fn)
			return
		}
		var params []string
		for _, f := range fd.Type.Params.List {
			for _, n := range f.Names {
				params = append(params, n.Name)
			}
		}
		// positions of the hashed slices among the parameters
		var idx []string
		for _, a := range args[0] {
			pos := -1
			for i, p := range params {
				if a == p+"[:]" {
					pos = i
				}
			}
			if pos < 0 {
				fail("account.%s: hashed argument %s is not a parameter slice", fn, a)
				return
			}
			idx = append(idx, string(rune('0'+pos)))
		}
		l.p("def hashOrder%s : List Nat := [%s]", fn, strings.Join(idx, ", "))
	}
	cah := findFunc(acct, "concatAndHash")
	if cah == nil {
		fail("account.concatAndHash not found")
		return
	}
	var cahParams []string
	for _, f := range cah.Type.Params.List {
		for _, n := range f.Names {
			cahParams = append(cahParams, n.Name)
		}
	}
	var writes []string
	ast.Inspect(cah.Body, func(n ast.Node) bool {
		c, ok := n.(*ast.CallExpr)
		// buf = append(buf, x...) builds the same preimage as Write(x)
		if ok && exprString(c.Fun) == "append" && len(c.Args) == 2 && c.Ellipsis.IsValid() {
			for i, p := range cahParams {
				if exprString(c.Args[1]) == p {
					writes = append(writes, fmt.Sprint(i))
				}
			}
			return true
		}
		if ok && strings.HasSuffix(exprString(c.Fun), ".Write") && len(c.Args) == 1 {
			w := "?"
			for i, p := range cahParams {
				if exprString(c.Args[0]) == p {
					w = fmt.Sprint(i)
				}
			}
			writes = append(writes, w)
		}
		return true
	})
	l.p("/-- parameter positions written to the digest, in order -/")
	l.p("def concatAndHashWrites : List String := %s", leanStrList(writes))
	// the auth functions and everything they call inside package account
	// reference no package-level variable (no shared mutable state: safe for
	// concurrent handshakes)
	l.p("/-- `func:var` for every reference to a package-level variable of package account in the functions reachable")
	l.p("from CommitAccount / AuthChallenge / AuthHash -/")
	l.p("def authPkgVarRefs : List String := %s", leanStrList(c18PkgVarRefs(acct, []string{"CommitAccount", "AuthChallenge", "AuthHash"})))
	l.p("def concatAndHashIsSha256 : Bool := %s", c18Bool(strings.Contains(c18NodeString(cah.Body), "sha256.New()") || strings.Contains(c18NodeString(cah.Body), "sha256.Sum256(")))

	// ---- auctioneer/client.go ----
	auct := pkgFiles("auctioneer")
	ce := newConstEnv(auct)
	l.p("def reconnectRetries : Nat := %s", intConst(ce, "auctioneer", "reconnectRetries"))
	l.p("end Pool.Gen.C18")
}
