//go:build verif

package main

import (
	"go/ast"
	"go/printer"
	"sort"
	"strings"
)

func init() {
	externConsts["math.MaxInt16"] = 32767
	jobs = append(jobs, job{props: []string{"C18"}, fn: genC18})
}

func c18NodeString(n ast.Node) string {
	var sb strings.Builder
	printer.Fprint(&sb, fset, n)
	return strings.Join(strings.Fields(sb.String()), " ")
}

func c18Bool(b bool) string {
	if b {
		return "true"
	}
	return "false"
}

// c18CallArgs returns the printed arguments of every call of `callee` inside fd.
func c18CallArgs(fd *ast.FuncDecl, callee string) [][]string {
	var res [][]string
	ast.Inspect(fd.Body, func(n ast.Node) bool {
		if c, ok := n.(*ast.CallExpr); ok && exprString(c.Fun) == callee {
			var a []string
			for _, x := range c.Args {
				a = append(a, exprString(x))
			}
			res = append(res, a)
		}
		return true
	})
	return res
}

// c18PkgVarRefs returns "func:var" for every reference to a package-level
// variable made by the functions reachable from the roots through calls to
// functions or methods of the same package (resolved by name).
func c18PkgVarRefs(files []*ast.File, roots []string) []string {
	funcs := map[string][]*ast.FuncDecl{}
	pkgVars := map[string]bool{}
	top := map[*ast.ValueSpec]bool{}
	for _, f := range files {
		for _, d := range f.Decls {
			switch x := d.(type) {
			case *ast.FuncDecl:
				funcs[x.Name.Name] = append(funcs[x.Name.Name], x)
			case *ast.GenDecl:
				if x.Tok.String() != "var" {
					continue
				}
				for _, sp := range x.Specs {
					vs := sp.(*ast.ValueSpec)
					top[vs] = true
					for _, n := range vs.Names {
						if n.Name != "_" {
							pkgVars[n.Name] = true
						}
					}
				}
			}
		}
	}
	seen := map[*ast.FuncDecl]bool{}
	var work []*ast.FuncDecl
	for _, r := range roots {
		if len(funcs[r]) == 0 {
			fail("account.%s not found", r)
			return nil
		}
		work = append(work, funcs[r]...)
	}
	var refs []string
	for len(work) > 0 {
		fd := work[0]
		work = work[1:]
		if seen[fd] || fd.Body == nil {
			continue
		}
		seen[fd] = true
		ast.Inspect(fd.Body, func(n ast.Node) bool {
			switch x := n.(type) {
			case *ast.CallExpr:
				name := ""
				switch f := x.Fun.(type) {
				case *ast.Ident:
					name = f.Name
				case *ast.SelectorExpr:
					name = f.Sel.Name // method of a same-package type, by name
				}
				work = append(work, funcs[name]...)
			case *ast.Ident:
				if !pkgVars[x.Name] {
					return true
				}
				// resolved to a local declaration (parameter, := …)?
				if x.Obj != nil {
					if vs, ok := x.Obj.Decl.(*ast.ValueSpec); !ok || !top[vs] {
						return true
					}
				}
				refs = append(refs, fd.Name.Name+":"+x.Name)
			}
			return true
		})
	}
	sort.Strings(refs)
	return refs
}

// genC18 extracts the source shapes the C18 model mirrors: the hashed
// concatenations of account/auth.go, the reconnect parameters and the backoff
// update of client.go, the routing branch of ErrChanSwitch.run, the
// bookkeeping shape of HandleServerShutdown / connectAndAuthenticate, and the
// reaction of rpcServer.serverHandler to StreamErrChan.
func genC18() {
	l := newLean("C18Facts", "Source shapes of auctioneer/{client,err_chan_switch,account_subscription}.go, account/auth.go, rpcserver.go used by the C18 model.")
	l.p("namespace Pool.Gen.C18")

	// ---- account/auth.go ----
	acct := pkgFiles("account")
	for _, fn := range []string{"CommitAccount", "AuthChallenge", "AuthHash"} {
		fd := findFunc(acct, fn)
		if fd == nil {
			fail("account.%s not found", fn)
			return
		}
		args := c18CallArgs(fd, "concatAndHash")
		if len(args) != 1 {
			fail("account.%s: expected one concatAndHash call", fn)
			return
		}
		var params []string
		for _, f := range fd.Type.Params.List {
			for _, n := range f.Names {
				params = append(params, n.Name)
			}
		}
		// positions of the hashed slices among the parameters
		var idx []string
		for _, a := range args[0] {
			pos := -1
			for i, p := range params {
				if a == p+"[:]" {
					pos = i
				}
			}
			if pos < 0 {
				fail("account.%s: hashed argument %s is not a parameter slice", fn, a)
				return
			}
			idx = append(idx, string(rune('0'+pos)))
		}
		l.p("def hashOrder%s : List Nat := [%s]", fn, strings.Join(idx, ", "))
	}
	cah := findFunc(acct, "concatAndHash")
	if cah == nil {
		fail("account.concatAndHash not found")
		return
	}
	var writes []string
	ast.Inspect(cah.Body, func(n ast.Node) bool {
		if c, ok := n.(*ast.CallExpr); ok && exprString(c.Fun) == "h.Write" && len(c.Args) == 1 {
			writes = append(writes, exprString(c.Args[0]))
		}
		return true
	})
	l.p("def concatAndHashWrites : List String := %s", leanStrList(writes))
	// the auth functions and everything they call inside package account
	// reference no package-level variable (no shared mutable state: safe for
	// concurrent handshakes)
	l.p("/-- `func:var` for every reference to a package-level variable of package account in the functions reachable")
	l.p("from CommitAccount / AuthChallenge / AuthHash -/")
	l.p("def authPkgVarRefs : List String := %s", leanStrList(c18PkgVarRefs(acct, []string{"CommitAccount", "AuthChallenge", "AuthHash"})))
	l.p("def concatAndHashIsSha256 : Bool := %s", c18Bool(strings.Contains(c18NodeString(cah.Body), "h := sha256.New()")))

	// ---- auctioneer/client.go ----
	auct := pkgFiles("auctioneer")
	ce := newConstEnv(auct)
	l.p("def reconnectRetries : Nat := %s", intConst(ce, "auctioneer", "reconnectRetries"))
	caa := findFunc(auct, "Client.connectAndAuthenticate")
	hss := findFunc(auct, "Client.HandleServerShutdown")
	css := findFunc(auct, "Client.connectServerStream")
	run := findFunc(auct, "ErrChanSwitch.run")
	auth := findFunc(auct, "acctSubscription.authenticate")
	if caa == nil || hss == nil || css == nil || run == nil || auth == nil {
		fail("auctioneer functions not found")
		return
	}
	flat := func(a [][]string) string {
		var s []string
		for _, x := range a {
			s = append(s, strings.Join(x, ", "))
		}
		return leanStrList(s)
	}
	l.p("/-- arguments of the connectServerStream calls in connectAndAuthenticate / HandleServerShutdown -/")
	l.p("def firstConnectArgs : List String := %s", flat(c18CallArgs(caa, "c.connectServerStream")))
	// the function holding the reconnect body = the method that calls
	// closeStream and connectServerStream (HandleServerShutdown itself, or
	// a helper it calls, whatever its name)
	recFn := hss
	recName := ""
	if len(c18CallArgs(hss, "c.connectServerStream")) == 0 {
		for _, f := range auct {
			for _, d := range f.Decls {
				fd, ok := d.(*ast.FuncDecl)
				if !ok || fd.Body == nil || fd.Recv == nil || fd.Name.Name == "connectAndAuthenticate" {
					continue
				}
				if len(c18CallArgs(fd, "c.connectServerStream")) == 1 && len(c18CallArgs(fd, "c.closeStream")) == 1 {
					called := false
					ast.Inspect(hss.Body, func(n ast.Node) bool {
						if c, ok := n.(*ast.CallExpr); ok && exprString(c.Fun) == "c."+fd.Name.Name {
							called = true
						}
						return true
					})
					if called {
						recFn, recName = fd, fd.Name.Name
					}
				}
			}
		}
		if recName == "" {
			fail("HandleServerShutdown: reconnect body (closeStream + connectServerStream) not found")
			return
		}
	}
	l.p("def reconnectArgs : List String := %s", flat(c18CallArgs(recFn, "c.connectServerStream")))

	// the retry loop: condition, wait guard, update statements after a failure
	var loop *ast.ForStmt
	ast.Inspect(css.Body, func(n ast.Node) bool {
		if f, ok := n.(*ast.ForStmt); ok && loop == nil {
			loop = f
		}
		return true
	})
	if loop == nil {
		fail("connectServerStream: retry loop not found")
		return
	}
	l.p("def retryLoopHeader : String := %q", c18NodeString(loop.Init)+"; "+exprString(loop.Cond)+"; "+c18NodeString(loop.Post))
	var upd []string
	for _, st := range loop.Body.List {
		s := c18NodeString(st)
		switch x := st.(type) {
		case *ast.AssignStmt:
			if strings.HasPrefix(s, "backoff") {
				upd = append(upd, s)
			}
		case *ast.IfStmt:
			c := exprString(x.Cond)
			if strings.HasPrefix(c, "backoff") {
				var body []string
				for _, b := range x.Body.List {
					if _, isExpr := b.(*ast.ExprStmt); isExpr {
						continue // logging
					}
					body = append(body, c18NodeString(b))
				}
				upd = append(upd, "if "+c+" { "+strings.Join(body, "; ")+" }")
			}
		}
	}
	l.p("/-- statements of the retry loop that read or write `backoff`, in order -/")
	l.p("def backoffStmts : List String := %s", leanStrList(upd))
	var initDecl string
	ast.Inspect(css.Body, func(n ast.Node) bool {
		if vs, ok := n.(*ast.ValueSpec); ok && len(vs.Names) == 1 && vs.Names[0].Name == "backoff" && len(vs.Values) == 1 {
			initDecl = exprString(vs.Values[0])
		}
		return true
	})
	l.p("def backoffInit : String := %q", initDecl)

	// ---- ErrChanSwitch.run ----
	var routing []string
	ast.Inspect(run.Body, func(n ast.Node) bool {
		switch x := n.(type) {
		case *ast.ExprStmt:
			if s := exprString(x.X); s == "s.Lock()" || s == "s.Unlock()" {
				routing = append(routing, s)
			}
		case *ast.IfStmt:
			routing = append(routing, "if "+exprString(x.Cond))
		case *ast.SendStmt:
			routing = append(routing, c18NodeString(x))
		case *ast.UnaryExpr:
			if s := exprString(x); s == "<-s.incomingChan" {
				routing = append(routing, s)
			}
		}
		return true
	})
	l.p("/-- channel operations, mutex calls and the routing test of ErrChanSwitch.run, in source order -/")
	l.p("def switchRun : List String := %s", leanStrList(routing))
	sw := func(name string) string {
		fd := findFunc(auct, "ErrChanSwitch."+name)
		if fd == nil {
			fail("ErrChanSwitch.%s not found", name)
			return ""
		}
		var s []string
		for _, st := range fd.Body.List {
			s = append(s, c18NodeString(st))
		}
		return strings.Join(s, "; ")
	}
	l.p("def switchDivert : String := %q", sw("Divert"))
	l.p("def switchRestore : String := %q", sw("Restore"))

	// ---- bookkeeping shapes ----
	// HandleServerShutdown: statements of interest in order
	// (the body moved into a helper when HandleServerShutdown
	// became a loop that starts over while reconnectDirty is set)
	shape := func(fd *ast.FuncDecl) []string {
		var hs []string
		ast.Inspect(fd.Body, func(n ast.Node) bool {
			switch x := n.(type) {
			case *ast.CallExpr:
				switch f := exprString(x.Fun); f {
				case "c.closeStream", "c.connectServerStream", "c.checkPendingBatch", "delete",
					"c.StartAccountSubscription", "c.keepSubscriptions", "c.HandleServerShutdown":
					hs = append(hs, f)
				default:
					if recName != "" && f == "c."+recName {
						hs = append(hs, "c.<reconnect-body>")
					}
				}
			case *ast.RangeStmt:
				hs = append(hs, "range "+exprString(x.X))
			case *ast.ReturnStmt:
				hs = append(hs, c18NodeString(x))
			case *ast.IfStmt:
				if cs := exprString(x.Cond); strings.Contains(cs, "reconnect") {
					hs = append(hs, "if "+cs)
				}
			case *ast.IncDecStmt:
				hs = append(hs, c18NodeString(x))
			case *ast.BranchStmt:
				hs = append(hs, x.Tok.String())
			case *ast.AssignStmt:
				if st := c18NodeString(x); strings.HasPrefix(st, "c.reconnect") {
					hs = append(hs, st)
				}
			}
			return true
		})
		return hs
	}
	var hs []string
	if recName != "" {
		hs = append(shape(hss), shape(recFn)...)
	} else {
		hs = shape(hss)
	}
	l.p("def handleShutdownShape : List String := %s", leanStrList(hs))
	// readIncomingStream: what the reader does with a SERVER_SHUTDOWN notice
	var notice []string
	if rd := findFunc(auct, "Client.readIncomingStream"); rd != nil {
		ast.Inspect(rd.Body, func(n ast.Node) bool {
			cc, ok := n.(*ast.CaseClause)
			if !ok {
				return true
			}
			hit := false
			for _, e := range cc.List {
				if exprString(e) == "auctioneerrpc.SubscribeError_SERVER_SHUTDOWN" {
					hit = true
				}
			}
			if !hit {
				return true
			}
			for _, st := range cc.Body {
				notice = append(notice, shape(&ast.FuncDecl{Body: &ast.BlockStmt{List: []ast.Stmt{st}}})...)
			}
			return false
		})
	} else {
		fail("Client.readIncomingStream not found")
		return
	}
	l.p("/-- reaction of readIncomingStream to a SERVER_SHUTDOWN notice -/")
	l.p("def shutdownNoticeReaction : List String := %s", leanStrList(notice))
	// connectAndAuthenticate: map insertion precedes authenticate; no deletion anywhere
	var ca []string
	ast.Inspect(caa.Body, func(n ast.Node) bool {
		switch x := n.(type) {
		case *ast.AssignStmt:
			if s := c18NodeString(x); strings.HasPrefix(s, "c.subscribedAccts[") {
				ca = append(ca, s)
			}
		case *ast.CallExpr:
			switch f := exprString(x.Fun); f {
			case "sub.authenticate", "c.connectServerStream", "delete", "c.errChanSwitch.Divert", "c.HandleServerShutdown":
				ca = append(ca, f)
			}
		case *ast.DeferStmt:
			ca = append(ca, "defer "+exprString(x.Call))
			return false
		case *ast.IfStmt:
			if cs := exprString(x.Cond); strings.Contains(cs, "ErrServerErrored") {
				ca = append(ca, "if "+cs)
			}
		}
		return true
	})
	l.p("def connectAndAuthShape : List String := %s", leanStrList(ca))
	// authenticate: hash / sign / send order
	var au []string
	ast.Inspect(auth.Body, func(n ast.Node) bool {
		if c, ok := n.(*ast.CallExpr); ok {
			switch f := exprString(c.Fun); f {
			case "account.CommitAccount", "account.AuthHash", "s.signer.SignMessage", "copy":
				var a []string
				for _, x := range c.Args {
					a = append(a, exprString(x))
				}
				au = append(au, f+"("+strings.Join(a, ", ")+")")
			}
		}
		return true
	})
	l.p("def authenticateCalls : List String := %s", leanStrList(au))

	// ---- rpcserver.go serverHandler ----
	root := pkgFiles(".")
	sh := findFunc(root, "rpcServer.serverHandler")
	if sh == nil {
		fail("rpcServer.serverHandler not found")
		return
	}
	var reaction []string
	ast.Inspect(sh.Body, func(n ast.Node) bool {
		cc, ok := n.(*ast.CommClause)
		if !ok || cc.Comm == nil || !strings.Contains(c18NodeString(cc.Comm), "StreamErrChan") {
			return true
		}
		reaction = append(reaction, c18NodeString(cc.Comm))
		for _, st := range cc.Body {
			if is, ok := st.(*ast.IfStmt); ok {
				reaction = append(reaction, "if "+exprString(is.Cond))
				ast.Inspect(is.Body, func(m ast.Node) bool {
					if c, ok := m.(*ast.CallExpr); ok && strings.HasSuffix(exprString(c.Fun), "HandleServerShutdown") {
						reaction = append(reaction, c18NodeString(c))
					}
					if f, ok := m.(*ast.ForStmt); ok && f.Cond != nil {
						reaction = append(reaction, "for "+c18NodeString(f.Cond))
					}
					if r, ok := m.(*ast.ReturnStmt); ok {
						reaction = append(reaction, c18NodeString(r))
					}
					return true
				})
			}
		}
		return false
	})
	l.p("/-- reaction of rpcServer.serverHandler to an error on StreamErrChan -/")
	l.p("def handlerReaction : List String := %s", leanStrList(reaction))
	l.p("end Pool.Gen.C18")
}
