//go:build verif

package main

import (
	"fmt"
	"go/ast"
	"go/token"
	"sort"
	"strings"
)

func init() {
	jobs = append(jobs, job{props: []string{"C08", "C20"}, fn: genLifecycle})
}

// lcStates evaluates the `State` constants of account/interfaces.go.
func lcStates(files []*ast.File, ce *constEnv, typ string) ([]string, map[string]string) {
	var names []string
	vals := map[string]string{}
	for _, f := range files {
		for _, d := range f.Decls {
			gd, ok := d.(*ast.GenDecl)
			if !ok || gd.Tok != token.CONST {
				continue
			}
			for _, s := range gd.Specs {
				vs := s.(*ast.ValueSpec)
				if id, ok := vs.Type.(*ast.Ident); !ok || id.Name != typ {
					continue
				}
				for _, n := range vs.Names {
					names = append(names, n.Name)
					vals[n.Name] = intConst(ce, "account", n.Name)
				}
			}
		}
	}
	return names, vals
}

// lastIdent strips a package qualifier: account.StateOpen -> StateOpen.
func lastIdent(e ast.Expr) string {
	switch x := e.(type) {
	case *ast.Ident:
		return x.Name
	case *ast.SelectorExpr:
		return x.Sel.Name
	case *ast.ParenExpr:
		return lastIdent(x.X)
	}
	return exprString(e)
}

// findSwitch returns the first `switch <tag>` statement in body whose tag
// prints as tag.
func findSwitch(body ast.Node, tag string) *ast.SwitchStmt {
	var res *ast.SwitchStmt
	ast.Inspect(body, func(n ast.Node) bool {
		if res != nil {
			return false
		}
		if ss, ok := n.(*ast.SwitchStmt); ok && ss.Tag != nil &&
			exprString(ss.Tag) == tag {

			res = ss
			return false
		}
		return true
	})
	return res
}

// callName returns the method / function name of a call expression.
var lcSignificant = map[string]bool{
	"locateTxByOutput": true, "locateTxByHash": true, "SendOutputs": true,
	"UpdateAccount": true, "maybeBroadcastTx": true, "InitAccount": true,
	"WatchAccountConf": true, "WatchAccountSpend": true,
	"WatchAccountExpiration": true, "StartAccountSubscription": true,
	"handleStateOpen": true, "PublishTransaction": true, "AddAccount": true,
	"DeriveSharedKey": true, "resumeAccount": true, "signSpendTx": true,
	"CancelAccountSpend": true, "CancelAccountConf": true,
	"MarkBatchComplete": true, "PendingBatch": true, "WatchMatchedAccounts": true,
}

// stateArgs resolves the argument of StateModifier(x) inside fn: a State
// constant directly, or a local variable assigned from one.
func stateArg(fn ast.Node, e ast.Expr) string {
	name := lastIdent(e)
	if strings.HasPrefix(name, "State") {
		return name
	}
	res := "?" + name
	ast.Inspect(fn, func(n ast.Node) bool {
		as, ok := n.(*ast.AssignStmt)
		if !ok || len(as.Lhs) != 1 || len(as.Rhs) != 1 {
			return true
		}
		if lastIdent(as.Lhs[0]) == name {
			r := lastIdent(as.Rhs[0])
			if strings.HasPrefix(r, "State") {
				res = r
			}
		}
		return true
	})
	return res
}

// sigCalls lists, in source order, the significant calls below n. Calls
// nested in an `if` whose condition mentions onRestart / onRecovery /
// createTx are prefixed with that condition in brackets; UpdateAccount calls
// carry the target of their StateModifier.
func sigCalls(fn ast.Node, n ast.Node) []string {
	var res []string
	var walk func(n ast.Node, guard string)
	walk = func(n ast.Node, guard string) {
		switch x := n.(type) {
		case nil:
			return
		case *ast.IfStmt:
			if x.Init != nil {
				walk(x.Init, guard)
			}
			walk(x.Cond, guard)
			g := guard
			c := exprString(x.Cond)
			if strings.Contains(c, "onRestart") ||
				strings.Contains(c, "onRecovery") ||
				strings.Contains(c, "createTx") ||
				strings.Contains(c, "account.State") {

				g = guard + "[" + c + "]"
			}
			walk(x.Body, g)
			if x.Else != nil {
				walk(x.Else, guard+"[else "+c+"]")
			}
			return
		case *ast.BranchStmt:
			if x.Tok == token.FALLTHROUGH {
				res = append(res, guard+"fallthrough")
			}
			return
		case *ast.FuncLit:
			return
		case *ast.CallExpr:
			nm := callName(x)
			if lcSignificant[nm] {
				s := nm
				if nm == "UpdateAccount" {
					for _, a := range x.Args {
						if c, ok := a.(*ast.CallExpr); ok &&
							callName(c) == "StateModifier" &&
							len(c.Args) == 1 {

							s += "(" + stateArg(fn, c.Args[0]) + ")"
						}
					}
				}
				if nm == "resumeAccount" && len(x.Args) == 5 {
					s += "(" + exprString(x.Args[2]) + "," +
						exprString(x.Args[3]) + "," +
						exprString(x.Args[4]) + ")"
				}
				res = append(res, guard+s)
			}
			for _, a := range x.Args {
				walk(a, guard)
			}
			walk(x.Fun, guard)
			return
		}
		// generic descent, preserving source order
		ast.Inspect(n, func(c ast.Node) bool {
			if c == n || c == nil {
				return true
			}
			walk(c, guard)
			return false
		})
	}
	walk(n, "")
	return res
}

// acceptStates evaluates a state guard of a user action over all states and
// returns the states in which the action proceeds. Two shapes are
// understood: `if <bool expr over account.State ==/!= C> { return ... }` and
// `switch account.State { case A, B: ...; default: return ... }`.
func acceptStates(fd *ast.FuncDecl, names []string, what string) []string {
	var evalBool func(e ast.Expr, st string) (bool, bool)
	evalBool = func(e ast.Expr, st string) (bool, bool) {
		switch x := e.(type) {
		case *ast.ParenExpr:
			return evalBool(x.X, st)
		case *ast.BinaryExpr:
			switch x.Op {
			case token.LOR, token.LAND:
				a, ok1 := evalBool(x.X, st)
				b, ok2 := evalBool(x.Y, st)
				if !ok1 || !ok2 {
					return false, false
				}
				if x.Op == token.LOR {
					return a || b, true
				}
				return a && b, true
			case token.EQL, token.NEQ:
				if exprString(x.X) != "account.State" {
					return false, false
				}
				eq := lastIdent(x.Y) == st
				if x.Op == token.NEQ {
					eq = !eq
				}
				return eq, true
			}
		}
		return false, false
	}
	endsInReturn := func(body []ast.Stmt) bool {
		if len(body) == 0 {
			return false
		}
		_, ok := body[len(body)-1].(*ast.ReturnStmt)
		return ok
	}
	for _, st := range fd.Body.List {
		switch x := st.(type) {
		case *ast.IfStmt:
			if !strings.Contains(exprString(x.Cond), "account.State") {
				continue
			}
			if !endsInReturn(x.Body.List) {
				continue
			}
			var acc []string
			for _, s := range names {
				v, ok := evalBool(x.Cond, s)
				if !ok {
					fail("%s: state guard %q not understood", what, exprString(x.Cond))
					return nil
				}
				if !v {
					acc = append(acc, s)
				}
			}
			return acc
		case *ast.SwitchStmt:
			if x.Tag == nil || exprString(x.Tag) != "account.State" {
				continue
			}
			refused := map[string]bool{}
			listed := map[string]bool{}
			defRefuses := false
			for _, c := range x.Body.List {
				cc := c.(*ast.CaseClause)
				if cc.List == nil {
					defRefuses = endsInReturn(cc.Body)
					continue
				}
				for _, e := range cc.List {
					listed[lastIdent(e)] = true
					if endsInReturn(cc.Body) {
						refused[lastIdent(e)] = true
					}
				}
			}
			var acc []string
			for _, s := range names {
				if refused[s] || (!listed[s] && defRefuses) {
					continue
				}
				acc = append(acc, s)
			}
			return acc
		}
	}
	fail("%s: no state guard found", what)
	return nil
}

func natList(vals map[string]string, names []string) string {
	q := make([]string, len(names))
	for i, n := range names {
		v, ok := vals[n]
		if !ok {
			fail("unknown state constant %s", n)
			v = "999"
		}
		q[i] = v
	}
	return "[" + strings.Join(q, ", ") + "]"
}

func genLifecycle() {
	acctFiles := pkgFiles("account")
	ce := newConstEnv(acctFiles)
	names, vals := lcStates(acctFiles, ce, "State")
	if len(names) == 0 {
		fail("no account.State constants found")
		return
	}
	l := newLean("LifecycleFacts", "Switch tables and call orders of the account lifecycle code "+
		"(account/manager.go, auctioneer/client.go, order/batch_storer.go), consumed by the C08/C20 model and theorems.")
	l.p("namespace Pool.Gen.Lifecycle")

	// ---- account states
	var sb []string
	for _, n := range names {
		sb = append(sb, fmt.Sprintf("(%q, %s)", n, vals[n]))
	}
	l.p("def accountStates : List (String × Nat) := [%s]", strings.Join(sb, ", "))
	_, vvals := lcStates(acctFiles, ce, "Version")
	var vn []string
	for n := range vvals {
		vn = append(vn, n)
	}
	sort.Slice(vn, func(i, j int) bool { return vvals[vn[i]] < vvals[vn[j]] })
	sb = nil
	for _, n := range vn {
		sb = append(sb, fmt.Sprintf("(%q, %s)", n, vvals[n]))
	}
	l.p("def accountVersions : List (String × Nat) := [%s]", strings.Join(sb, ", "))

	// IsActive
	if fd := findFunc(acctFiles, "State.IsActive"); fd != nil {
		ss := findSwitch(fd.Body, "s")
		var inactive []string
		if ss != nil {
			for _, c := range ss.Body.List {
				cc := c.(*ast.CaseClause)
				for _, e := range cc.List {
					if len(cc.Body) == 1 && exprString(cc.Body[0].(*ast.ReturnStmt).Results[0]) == "false" {
						inactive = append(inactive, lastIdent(e))
					}
				}
			}
		}
		l.p("def inactiveStates : List Nat := %s", natList(vals, inactive))
	} else {
		fail("State.IsActive not found")
	}

	// ---- HandleAccountConf: state -> new state (default = error)
	if fd := findFunc(acctFiles, "manager.HandleAccountConf"); fd != nil {
		ss := findSwitch(fd.Body, "account.State")
		if ss == nil {
			fail("HandleAccountConf: switch account.State not found")
		} else {
			var rows []string
			defErr := false
			for _, c := range ss.Body.List {
				cc := c.(*ast.CaseClause)
				if cc.List == nil {
					_, defErr = cc.Body[len(cc.Body)-1].(*ast.ReturnStmt)
					continue
				}
				tgt := ""
				for _, st := range cc.Body {
					if as, ok := st.(*ast.AssignStmt); ok && exprString(as.Lhs[0]) == "newState" {
						tgt = lastIdent(as.Rhs[0])
					}
				}
				if tgt == "" {
					fail("HandleAccountConf: case without newState assignment")
					continue
				}
				for _, e := range cc.List {
					rows = append(rows, fmt.Sprintf("(%s, %s)", vals[lastIdent(e)], vals[tgt]))
				}
			}
			l.p("def handleConf : List (Nat × Nat) := [%s]", strings.Join(rows, ", "))
			l.p("def handleConfDefaultIsError : Bool := %s", leanBool(defErr))
			l.p("def handleConfCalls : List String := %s", leanStrList(sigCalls(fd, fd.Body)))
		}
	} else {
		fail("manager.HandleAccountConf not found")
	}

	// ---- HandleAccountExpiry: state -> some newState | none (= return nil)
	if fd := findFunc(acctFiles, "manager.HandleAccountExpiry"); fd != nil {
		ss := findSwitch(fd.Body, "account.State")
		if ss == nil {
			fail("HandleAccountExpiry: switch account.State not found")
		} else {
			var rows []string
			defErr := false
			for _, c := range ss.Body.List {
				cc := c.(*ast.CaseClause)
				if cc.List == nil {
					if rs, ok := cc.Body[len(cc.Body)-1].(*ast.ReturnStmt); ok {
						defErr = exprString(rs.Results[0]) != "nil"
					}
					continue
				}
				tgt := "none"
				for _, st := range cc.Body {
					if as, ok := st.(*ast.AssignStmt); ok && exprString(as.Lhs[0]) == "expiredState" {
						tgt = "some " + vals[lastIdent(as.Rhs[0])]
					}
				}
				if tgt == "none" {
					rs, ok := cc.Body[len(cc.Body)-1].(*ast.ReturnStmt)
					if !ok || exprString(rs.Results[0]) != "nil" {
						fail("HandleAccountExpiry: case neither assigns expiredState nor returns nil")
					}
				}
				for _, e := range cc.List {
					rows = append(rows, fmt.Sprintf("(%s, %s)", vals[lastIdent(e)], tgt))
				}
			}
			l.p("def handleExpiry : List (Nat × Option Nat) := [%s]", strings.Join(rows, ", "))
			l.p("def handleExpiryDefaultIsError : Bool := %s", leanBool(defErr))
			l.p("def handleExpiryCalls : List String := %s", leanStrList(sigCalls(fd, fd.Body)))
		}
	} else {
		fail("manager.HandleAccountExpiry not found")
	}

	// ---- HandleAccountSpend: witness-kind switch, closing state
	if fd := findFunc(acctFiles, "manager.HandleAccountSpend"); fd != nil {
		var kinds []string
		var ws *ast.SwitchStmt
		for _, st := range fd.Body.List {
			if ss, ok := st.(*ast.SwitchStmt); ok && ss.Tag == nil {
				ws = ss
			}
		}
		if ws == nil {
			fail("HandleAccountSpend: witness switch not found")
		} else {
			for _, c := range ws.Body.List {
				cc := c.(*ast.CaseClause)
				kind := "default"
				if cc.List != nil {
					c0 := exprString(cc.List[0])
					switch {
					case strings.Contains(c0, "IsExpirySpend") && strings.Contains(c0, "IsTaprootExpirySpend"):
						kind = "expiry"
					case strings.Contains(c0, "IsMultiSigSpend") && strings.Contains(c0, "IsTaprootMultiSigSpend"):
						kind = "multisig"
					default:
						kind = "?" + c0
					}
				}
				body := "other"
				if len(cc.Body) == 1 {
					if br, ok := cc.Body[0].(*ast.BranchStmt); ok && br.Tok == token.BREAK {
						body = "break"
					}
					if _, ok := cc.Body[0].(*ast.ReturnStmt); ok {
						body = "return-error"
					}
				}
				if kind == "multisig" {
					body = strings.Join(sigCalls(fd, cc), ";")
				}
				kinds = append(kinds, kind+":"+body)
			}
			l.p("def handleSpendCases : List String := %s", leanStrList(kinds))
		}
		last, ok := fd.Body.List[len(fd.Body.List)-1].(*ast.ReturnStmt)
		closing := []string{}
		if ok {
			closing = sigCalls(fd, last)
		}
		l.p("def handleSpendFinal : List String := %s", leanStrList(closing))
	} else {
		fail("manager.HandleAccountSpend not found")
	}

	// ---- resumeAccount: per-state ordered significant calls
	if fd := findFunc(acctFiles, "manager.resumeAccount"); fd != nil {
		ss := findSwitch(fd.Body, "account.State")
		if ss == nil {
			fail("resumeAccount: switch account.State not found")
		} else {
			var rows []string
			defErr := false
			for _, c := range ss.Body.List {
				cc := c.(*ast.CaseClause)
				if cc.List == nil {
					_, defErr = cc.Body[len(cc.Body)-1].(*ast.ReturnStmt)
					continue
				}
				calls := sigCalls(fd, &ast.BlockStmt{List: cc.Body})
				for _, e := range cc.List {
					rows = append(rows, fmt.Sprintf("(%s, %s)", vals[lastIdent(e)], leanStrList(calls)))
				}
			}
			l.p("def resume : List (Nat × List String) := [%s]", strings.Join(rows, ",\n  "))
			l.p("def resumeDefaultIsError : Bool := %s", leanBool(defErr))
		}
	} else {
		fail("manager.resumeAccount not found")
	}
	if fd := findFunc(acctFiles, "manager.handleStateOpen"); fd != nil {
		l.p("def handleStateOpenCalls : List String := %s", leanStrList(sigCalls(fd, fd.Body)))
	} else {
		fail("manager.handleStateOpen not found")
	}
	for _, nm := range []string{"spendAccount", "RecoverAccount", "WatchMatchedAccounts", "start", "InitAccount", "RenewAccount",
		"DepositAccount", "WithdrawAccount"} {
		fd := findFunc(acctFiles, "manager."+nm)
		if fd == nil {
			fail("manager.%s not found", nm)
			continue
		}
		l.p("def %sCalls : List String := %s", strings.ToLower(nm[:1])+nm[1:], leanStrList(sigCalls(fd, fd.Body)))
	}

	// ---- user-action state guards
	for _, nm := range []string{"DepositAccount", "WithdrawAccount", "RenewAccount", "CloseAccount", "BumpAccountFee"} {
		fd := findFunc(acctFiles, "manager."+nm)
		if fd == nil {
			fail("manager.%s not found", nm)
			continue
		}
		acc := acceptStates(fd, names, nm)
		l.p("def accepts%s : List Nat := %s", nm, natList(vals, acc))
	}

	// ---- unmarshallServerRecoveredAccount: server state -> local state
	aucFiles := pkgFiles("auctioneer")
	rpcCE := newConstEnv(pkgFiles("auctioneerrpc"))
	if fd := findFunc(aucFiles, "unmarshallServerRecoveredAccount"); fd != nil {
		ss := findSwitch(fd.Body, "a.State")
		def := ""
		for _, st := range fd.Body.List {
			if as, ok := st.(*ast.AssignStmt); ok && as.Tok == token.DEFINE &&
				exprString(as.Lhs[0]) == "state" {

				def = lastIdent(as.Rhs[0])
			}
		}
		if ss == nil || def == "" {
			fail("unmarshallServerRecoveredAccount: switch a.State / default state not found")
		} else {
			var rows []string
			for _, c := range ss.Body.List {
				cc := c.(*ast.CaseClause)
				if cc.List == nil {
					fail("unmarshallServerRecoveredAccount: unexpected default clause")
					continue
				}
				tgt := ""
				for _, st := range cc.Body {
					if as, ok := st.(*ast.AssignStmt); ok && exprString(as.Lhs[0]) == "state" {
						tgt = lastIdent(as.Rhs[0])
					}
				}
				if tgt == "" {
					fail("unmarshallServerRecoveredAccount: case without state assignment")
					continue
				}
				for _, e := range cc.List {
					rows = append(rows, fmt.Sprintf("(%s, %s)",
						intConst(rpcCE, "auctioneerrpc", lastIdent(e)), vals[tgt]))
				}
			}
			l.p("def recoveryMap : List (Nat × Nat) := [%s]", strings.Join(rows, ", "))
			l.p("def recoveryDefault : Nat := %s", vals[def])
		}
		// latestTx is parsed unless a.State == <const>
		noTx := ""
		ast.Inspect(fd.Body, func(n ast.Node) bool {
			is, ok := n.(*ast.IfStmt)
			if !ok {
				return true
			}
			be, ok := is.Cond.(*ast.BinaryExpr)
			if ok && be.Op == token.NEQ && exprString(be.X) == "a.State" {
				for _, c := range sigLatestTx(is.Body) {
					_ = c
					noTx = intConst(rpcCE, "auctioneerrpc", lastIdent(be.Y))
				}
			}
			return true
		})
		if noTx == "" {
			fail("unmarshallServerRecoveredAccount: latestTx guard not found")
			noTx = "999"
		}
		l.p("def recoveryNoLatestTx : List Nat := [%s]", noTx)
	} else {
		fail("unmarshallServerRecoveredAccount not found")
	}
	var srv []string
	for _, f := range pkgFiles("auctioneerrpc") {
		for _, d := range f.Decls {
			gd, ok := d.(*ast.GenDecl)
			if !ok || gd.Tok != token.CONST {
				continue
			}
			for _, s := range gd.Specs {
				vs := s.(*ast.ValueSpec)
				if id, ok := vs.Type.(*ast.Ident); ok && id.Name == "AuctionAccountState" {
					for _, n := range vs.Names {
						srv = append(srv, fmt.Sprintf("(%q, %s)", n.Name, intConst(rpcCE, "auctioneerrpc", n.Name)))
					}
				}
			}
		}
	}
	l.p("def serverStates : List (String × Nat) := [%s]", strings.Join(srv, ", "))

	// ---- RecoverAccounts sweep
	if fd := findFunc(aucFiles, "Client.RecoverAccounts"); fd != nil {
		aucCE := newConstEnv(aucFiles)
		l.p("def maxUnusedAccountKeyLookup : Nat := %s", intConst(aucCE, "auctioneer", "MaxUnusedAccountKeyLookup"))
		stop, reset, incr := "", false, false
		ast.Inspect(fd.Body, func(n ast.Node) bool {
			switch x := n.(type) {
			case *ast.IfStmt:
				if strings.Contains(exprString(x.Cond), "MaxUnusedAccountKeyLookup") {
					stop = canonCmp(x.Cond)
				}
			case *ast.AssignStmt:
				if len(x.Lhs) == 1 && exprString(x.Lhs[0]) == "numNotFoundAccounts" &&
					x.Tok == token.ASSIGN && exprString(x.Rhs[0]) == "0" {

					reset = true
				}
			case *ast.IncDecStmt:
				if exprString(x.X) == "numNotFoundAccounts" && x.Tok == token.INC {
					incr = true
				}
			}
			return true
		})
		l.p("def sweepStopCond : String := %q", stop)
		l.p("def sweepResets : Bool := %s", leanBool(reset))
		l.p("def sweepIncrements : Bool := %s", leanBool(incr))
	} else {
		fail("Client.RecoverAccounts not found")
	}

	// ---- batch storer account modifiers
	ordFiles := pkgFiles("order")
	if fd := findFunc(ordFiles, "batchStorer.StorePendingBatch"); fd != nil {
		ss := findSwitch(fd.Body, "diff.EndingState")
		if ss == nil {
			fail("StorePendingBatch: switch diff.EndingState not found")
		} else {
			var rows []string
			for _, c := range ss.Body.List {
				cc := c.(*ast.CaseClause)
				if cc.List == nil {
					continue
				}
				tgt, hasOp, hasInc := "", false, false
				ast.Inspect(&ast.BlockStmt{List: cc.Body}, func(n ast.Node) bool {
					if ce, ok := n.(*ast.CallExpr); ok {
						switch callName(ce) {
						case "StateModifier":
							tgt = lastIdent(ce.Args[0])
						case "OutPointModifier":
							hasOp = true
						case "IncrementBatchKey":
							hasInc = true
						}
					}
					return true
				})
				for _, e := range cc.List {
					rows = append(rows, fmt.Sprintf("(%s, %s, %s, %s)",
						intConst(rpcCE, "auctioneerrpc", lastIdent(e)), vals[tgt], leanBool(hasOp), leanBool(hasInc)))
				}
			}
			l.p("def storerEnding : List (Nat × Nat × Bool × Bool) := [%s]", strings.Join(rows, ", "))
		}
	} else {
		fail("batchStorer.StorePendingBatch not found")
	}
	l.p("end Pool.Gen.Lifecycle")
}

// sigLatestTx reports whether the block assigns latestTx.
func sigLatestTx(b *ast.BlockStmt) []string {
	var res []string
	ast.Inspect(b, func(n ast.Node) bool {
		if as, ok := n.(*ast.AssignStmt); ok && len(as.Lhs) > 0 &&
			exprString(as.Lhs[0]) == "latestTx" {

			res = append(res, "latestTx")
		}
		return true
	})
	return res
}
