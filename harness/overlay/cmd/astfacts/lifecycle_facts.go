//go:build verif

package main

import (
	"fmt"
	"go/ast"
	"go/token"
	"sort"
	"strings"
)

func init() {
	jobs = append(jobs, job{props: []string{"C08", "C20"}, fn: genLifecycle})
}

// lcStates evaluates the `State` constants of account/interfaces.go.
func lcStates(files []*ast.File, ce *constEnv, typ string) ([]string, map[string]string) {
	var names []string
	vals := map[string]string{}
	for _, f := range files {
		for _, d := range f.Decls {
			gd, ok := d.(*ast.GenDecl)
			if !ok || gd.Tok != token.CONST {
				continue
			}
			for _, s := range gd.Specs {
				vs := s.(*ast.ValueSpec)
				if id, ok := vs.Type.(*ast.Ident); !ok || id.Name != typ {
					continue
				}
				for _, n := range vs.Names {
					names = append(names, n.Name)
					vals[n.Name] = intConst(ce, "account", n.Name)
				}
			}
		}
	}
	return names, vals
}

// lastIdent strips a package qualifier: account.StateOpen -> StateOpen.
func lastIdent(e ast.Expr) string {
	switch x := e.(type) {
	case *ast.Ident:
		return x.Name
	case *ast.SelectorExpr:
		return x.Sel.Name
	case *ast.ParenExpr:
		return lastIdent(x.X)
	}
	return exprString(e)
}

// findSwitch returns the first `switch <tag>` statement in body whose tag
// prints as tag.
func findSwitch(body ast.Node, tag string) *ast.SwitchStmt {
	var res *ast.SwitchStmt
	ast.Inspect(body, func(n ast.Node) bool {
		if res != nil {
			return false
		}
		if ss, ok := n.(*ast.SwitchStmt); ok && ss.Tag != nil &&
			exprString(ss.Tag) == tag {

			res = ss
			return false
		}
		return true
	})
	return res
}

// lcPkgFiles holds the files of the package currently analysed (for following
// calls into same-package helpers).
var lcPkgFiles []*ast.File

// lcCallee resolves a call to a function or method declared in the package.
func lcCallee(c *ast.CallExpr) *ast.FuncDecl {
	name := callName(c)
	if name == "" {
		return nil
	}
	for _, f := range lcPkgFiles {
		for _, d := range f.Decls {
			if fd, ok := d.(*ast.FuncDecl); ok && fd.Name.Name == name && fd.Body != nil {
				// a qualified call pkg.F(...) is not ours
				if se, ok := c.Fun.(*ast.SelectorExpr); ok && fd.Recv == nil {
					if id, ok := se.X.(*ast.Ident); ok && id.Obj == nil && id.Name != "m" {
						continue
					}
				}
				return fd
			}
		}
	}
	return nil
}

// lcParamNames lists the parameter names of a function in order.
func lcParamNames(fd *ast.FuncDecl) []string {
	var res []string
	for _, f := range fd.Type.Params.List {
		if len(f.Names) == 0 {
			res = append(res, "_")
		}
		for _, n := range f.Names {
			res = append(res, n.Name)
		}
	}
	return res
}

// lcStateSwitch finds the `switch <tag>` over the given expression in fd, or -
// when the decision was extracted - in a same-package helper that is called
// with that expression as an argument (the tag is then the helper's parameter).
// It returns the switch and the name the switched value has inside it.
func lcStateSwitch(fd *ast.FuncDecl, tag string, depth int) (*ast.SwitchStmt, string) {
	if fd == nil || fd.Body == nil {
		return nil, ""
	}
	if ss := findSwitch(fd.Body, tag); ss != nil {
		return ss, tag
	}
	if depth == 0 {
		return nil, ""
	}
	var res *ast.SwitchStmt
	var resTag string
	ast.Inspect(fd.Body, func(n ast.Node) bool {
		if res != nil {
			return false
		}
		c, ok := n.(*ast.CallExpr)
		if !ok {
			return true
		}
		for i, a := range c.Args {
			if exprString(a) != tag {
				continue
			}
			callee := lcCallee(c)
			if callee == nil {
				continue
			}
			ps := lcParamNames(callee)
			if i < len(ps) {
				if ss, t := lcStateSwitch(callee, ps[i], depth-1); ss != nil {
					res, resTag = ss, t
				}
			}
		}
		return true
	})
	return res, resTag
}

// lcClauseTarget classifies what a case clause of a state switch decides:
// ("to", X) a new state X (assigned to one of the given variables, or returned
// as the first result together with a nil error), ("noop", "") nothing
// (`return nil` / returning the switched value itself), ("error", "") an error.
func lcClauseTarget(cc *ast.CaseClause, vars []string, tag string) (string, string) {
	for _, st := range cc.Body {
		as, ok := st.(*ast.AssignStmt)
		if !ok || len(as.Lhs) != 1 || len(as.Rhs) != 1 {
			continue
		}
		for _, v := range vars {
			if exprString(as.Lhs[0]) == v && strings.HasPrefix(lastIdent(as.Rhs[0]), "State") {
				return "to", lastIdent(as.Rhs[0])
			}
		}
	}
	if len(cc.Body) == 0 {
		return "", ""
	}
	rs, ok := cc.Body[len(cc.Body)-1].(*ast.ReturnStmt)
	if !ok || len(rs.Results) == 0 {
		return "", ""
	}
	last := exprString(rs.Results[len(rs.Results)-1])
	first := rs.Results[0]
	switch {
	case len(rs.Results) == 1 && last == "nil":
		return "noop", ""
	case len(rs.Results) == 1 && strings.HasPrefix(lastIdent(first), "State"):
		return "to", lastIdent(first)
	case len(rs.Results) >= 2 && last == "nil" && strings.HasPrefix(lastIdent(first), "State"):
		return "to", lastIdent(first)
	case len(rs.Results) >= 2 && last == "nil" && exprString(first) == tag:
		return "noop", ""
	case last != "nil":
		return "error", ""
	}
	return "", ""
}

// lcServerStateNames lists the constants of the auctioneer's account state enum.
func lcServerStateNames() []string {
	var res []string
	for _, f := range pkgFiles("auctioneerrpc") {
		for _, d := range f.Decls {
			gd, ok := d.(*ast.GenDecl)
			if !ok || gd.Tok != token.CONST {
				continue
			}
			for _, s := range gd.Specs {
				vs := s.(*ast.ValueSpec)
				if id, ok := vs.Type.(*ast.Ident); ok && id.Name == "AuctionAccountState" {
					for _, n := range vs.Names {
						res = append(res, n.Name)
					}
				}
			}
		}
	}
	return res
}

func lcServerStateValues(ce *constEnv) []string {
	var res []string
	for _, n := range lcServerStateNames() {
		res = append(res, intConst(ce, "auctioneerrpc", n))
	}
	return res
}

// lcGuardText renders a guard condition independent of its spelling: the
// operands of || / && are sorted, a constant compared with == / != stands on
// the right, parentheses are dropped.
func lcGuardText(e ast.Expr) string {
	switch x := e.(type) {
	case *ast.ParenExpr:
		return lcGuardText(x.X)
	case *ast.BinaryExpr:
		switch x.Op {
		case token.LOR, token.LAND:
			var ops []string
			var flat func(e ast.Expr)
			flat = func(e ast.Expr) {
				if p, ok := e.(*ast.ParenExpr); ok {
					flat(p.X)
					return
				}
				if b, ok := e.(*ast.BinaryExpr); ok && b.Op == x.Op {
					flat(b.X)
					flat(b.Y)
					return
				}
				ops = append(ops, lcGuardText(e))
			}
			flat(x)
			sort.Strings(ops)
			return strings.Join(ops, " "+x.Op.String()+" ")
		case token.EQL, token.NEQ:
			l, r := lcGuardText(x.X), lcGuardText(x.Y)
			if strings.HasPrefix(lastIdent(x.X), "State") && !strings.HasPrefix(lastIdent(x.Y), "State") {
				l, r = r, l
			}
			return l + " " + x.Op.String() + " " + r
		}
	}
	return exprString(e)
}

// lcSortRows orders table rows "(key, ...)" by their numeric key: the cases
// of a switch over a state are exclusive, so their order carries no meaning.
func lcSortRows(rows []string) []string {
	key := func(r string) int {
		n := 0
		fmt.Sscanf(strings.TrimLeft(r, "( "), "%d", &n)
		return n
	}
	res := append([]string(nil), rows...)
	sort.SliceStable(res, func(i, j int) bool { return key(res[i]) < key(res[j]) })
	return res
}

// callName returns the method / function name of a call expression.
var lcSignificant = map[string]bool{
	"locateTxByOutput": true, "locateTxByHash": true, "SendOutputs": true,
	"UpdateAccount": true, "maybeBroadcastTx": true, "InitAccount": true,
	"WatchAccountConf": true, "WatchAccountSpend": true,
	"WatchAccountExpiration": true, "StartAccountSubscription": true,
	"handleStateOpen": true, "PublishTransaction": true, "AddAccount": true,
	"DeriveSharedKey": true, "resumeAccount": true, "signSpendTx": true,
	"CancelAccountSpend": true, "CancelAccountConf": true,
	"MarkBatchComplete": true, "PendingBatch": true, "WatchMatchedAccounts": true,
}

// stateArgs resolves the argument of StateModifier(x) inside fn: a State
// constant directly, or a local variable assigned from one.
func stateArg(fn ast.Node, e ast.Expr) string {
	name := lastIdent(e)
	if strings.HasPrefix(name, "State") {
		return name
	}
	// a local variable: the state it was assigned, if that is one constant
	// (the name of the variable does not matter)
	consts := map[string]bool{}
	other := false
	ast.Inspect(fn, func(n ast.Node) bool {
		as, ok := n.(*ast.AssignStmt)
		if !ok || len(as.Lhs) != 1 || len(as.Rhs) != 1 {
			return true
		}
		if lastIdent(as.Lhs[0]) == name {
			r := lastIdent(as.Rhs[0])
			if strings.HasPrefix(r, "State") {
				consts[r] = true
			} else {
				other = true
			}
		}
		return true
	})
	if len(consts) == 1 && !other {
		for c := range consts {
			return c
		}
	}
	return "*"
}

// sigCalls lists, in source order, the significant calls below n. Calls
// nested in an `if` whose condition mentions onRestart / onRecovery /
// createTx are prefixed with that condition in brackets; UpdateAccount calls
// carry the target of their StateModifier.
func sigCalls(fn ast.Node, n ast.Node) []string {
	return sigCallsDepth(fn, n, 2)
}

// lcNegGuard renders the negation of a guard text.
func lcNegGuard(c string) string {
	simple := !strings.ContainsAny(c, " ()")
	switch {
	case strings.HasPrefix(c, "!") && !strings.ContainsAny(c[1:], " ()"):
		return c[1:]
	case simple:
		return "!" + c
	case strings.Count(c, " == ") == 1 && !strings.Contains(c, "||") && !strings.Contains(c, "&&"):
		return strings.Replace(c, " == ", " != ", 1)
	case strings.Count(c, " != ") == 1 && !strings.Contains(c, "||") && !strings.Contains(c, "&&"):
		return strings.Replace(c, " != ", " == ", 1)
	}
	return "!(" + c + ")"
}

func sigCallsDepth(fn ast.Node, n ast.Node, depth int) []string {
	var res []string
	// variables that carry the result of the restart / recovery look-up: whatever is
	// assigned under a guard over onRestart / onRecovery (`createTx`, `accountTx`, ...).
	// A later guard over one of them means "the look-up found nothing" / "found it";
	// the name of the variable does not matter.
	lookupVars := map[string]bool{}
	ast.Inspect(n, func(c ast.Node) bool {
		is, ok := c.(*ast.IfStmt)
		if !ok {
			return true
		}
		ct := exprString(is.Cond)
		if !strings.Contains(ct, "onRestart") && !strings.Contains(ct, "onRecovery") {
			return true
		}
		ast.Inspect(is.Body, func(c ast.Node) bool {
			if as, ok := c.(*ast.AssignStmt); ok {
				for _, l := range as.Lhs {
					if id, ok := l.(*ast.Ident); ok && id.Name != "err" && id.Name != "_" {
						lookupVars[id.Name] = true
					}
				}
			}
			return true
		})
		return true
	})
	// guardOf: the canonical text of a condition that matters for the call lists, "" otherwise
	guardOf := func(cond ast.Expr) string {
		c := lcGuardText(cond)
		if strings.Contains(c, "onRestart") || strings.Contains(c, "onRecovery") ||
			strings.Contains(c, "account.State") {

			return c
		}
		e := cond
		if p, ok := e.(*ast.ParenExpr); ok {
			e = p.X
		}
		switch x := e.(type) {
		case *ast.Ident:
			if lookupVars[x.Name] {
				return "notLocated"
			}
		case *ast.UnaryExpr:
			if id, ok := x.X.(*ast.Ident); ok && x.Op == token.NOT && lookupVars[id.Name] {
				return "located"
			}
		case *ast.BinaryExpr:
			l, lok := x.X.(*ast.Ident)
			r, rok := x.Y.(*ast.Ident)
			if lok && rok && (x.Op == token.EQL || x.Op == token.NEQ) {
				v := ""
				switch {
				case r.Name == "nil" && lookupVars[l.Name]:
					v = l.Name
				case l.Name == "nil" && lookupVars[r.Name]:
					v = r.Name
				}
				if v != "" && x.Op == token.EQL {
					return "notLocated"
				}
				if v != "" {
					return "located"
				}
			}
		}
		return ""
	}
	var walk func(n ast.Node, guard string)
	// a guard clause `if c { ...; return }` puts the rest of the block under !c
	walkList := func(list []ast.Stmt, guard string) {
		g := guard
		for _, st := range list {
			walk(st, g)
			is, ok := st.(*ast.IfStmt)
			if !ok || is.Else != nil || len(is.Body.List) == 0 {
				continue
			}
			if _, ret := is.Body.List[len(is.Body.List)-1].(*ast.ReturnStmt); !ret {
				continue
			}
			// (state guards at the head of a user action are facts of their own:
			// accepts*; they do not qualify the calls that follow)
			if c := guardOf(is.Cond); c != "" && !strings.Contains(c, "account.State") {
				g += "[" + lcNegGuard(c) + "]"
			}
		}
	}
	walk = func(n ast.Node, guard string) {
		switch x := n.(type) {
		case nil:
			return
		case *ast.BlockStmt:
			if x != nil {
				walkList(x.List, guard)
			}
			return
		case *ast.CaseClause:
			for _, e := range x.List {
				walk(e, guard)
			}
			walkList(x.Body, guard)
			return
		case *ast.IfStmt:
			if x.Init != nil {
				walk(x.Init, guard)
			}
			walk(x.Cond, guard)
			g := guard
			c := guardOf(x.Cond)
			if c != "" {
				g = guard + "[" + c + "]"
			}
			walk(x.Body, g)
			if x.Else != nil {
				if c == "" {
					walk(x.Else, guard)
				} else {
					walk(x.Else, guard+"["+lcNegGuard(c)+"]")
				}
			}
			return
		case *ast.BranchStmt:
			if x.Tok == token.FALLTHROUGH {
				res = append(res, guard+"fallthrough")
			}
			return
		case *ast.FuncLit:
			return
		case *ast.CallExpr:
			nm := callName(x)
			if lcSignificant[nm] {
				s := nm
				if nm == "UpdateAccount" {
					for _, a := range x.Args {
						if c, ok := a.(*ast.CallExpr); ok &&
							callName(c) == "StateModifier" &&
							len(c.Args) == 1 {

							s += "(" + stateArg(fn, c.Args[0]) + ")"
						}
					}
				}
				if nm == "resumeAccount" && len(x.Args) == 5 {
					s += "(" + exprString(x.Args[2]) + "," +
						exprString(x.Args[3]) + "," +
						exprString(x.Args[4]) + ")"
				}
				res = append(res, guard+s)
			} else if depth > 0 {
				// an extracted same-package helper: its significant calls count as
				// made here (under the guard of the call site)
				if callee := lcCallee(x); callee != nil && callee.Body != nil && callee != fn {
					for _, c := range sigCallsDepth(callee, callee.Body, depth-1) {
						res = append(res, guard+c)
					}
				}
			}
			for _, a := range x.Args {
				walk(a, guard)
			}
			walk(x.Fun, guard)
			return
		}
		// generic descent, preserving source order
		ast.Inspect(n, func(c ast.Node) bool {
			if c == n || c == nil {
				return true
			}
			walk(c, guard)
			return false
		})
	}
	walk(n, "")
	return res
}

// acceptStates evaluates a state guard of a user action over all states and
// returns the states in which the action proceeds. Two shapes are
// understood: `if <bool expr over account.State ==/!= C> { return ... }` and
// `switch account.State { case A, B: ...; default: return ... }`.
func acceptStates(fd *ast.FuncDecl, names []string, what string) []string {
	var evalBool func(e ast.Expr, st string) (bool, bool)
	evalBool = func(e ast.Expr, st string) (bool, bool) {
		switch x := e.(type) {
		case *ast.ParenExpr:
			return evalBool(x.X, st)
		case *ast.BinaryExpr:
			switch x.Op {
			case token.LOR, token.LAND:
				a, ok1 := evalBool(x.X, st)
				b, ok2 := evalBool(x.Y, st)
				if !ok1 || !ok2 {
					return false, false
				}
				if x.Op == token.LOR {
					return a || b, true
				}
				return a && b, true
			case token.EQL, token.NEQ:
				if exprString(x.X) != "account.State" {
					return false, false
				}
				eq := lastIdent(x.Y) == st
				if x.Op == token.NEQ {
					eq = !eq
				}
				return eq, true
			}
		}
		return false, false
	}
	endsInReturn := func(body []ast.Stmt) bool {
		if len(body) == 0 {
			return false
		}
		_, ok := body[len(body)-1].(*ast.ReturnStmt)
		return ok
	}
	for _, st := range fd.Body.List {
		switch x := st.(type) {
		case *ast.IfStmt:
			if !strings.Contains(exprString(x.Cond), "account.State") {
				continue
			}
			if !endsInReturn(x.Body.List) {
				continue
			}
			var acc []string
			for _, s := range names {
				v, ok := evalBool(x.Cond, s)
				if !ok {
					fail("%s: state guard %q not understood", what, exprString(x.Cond))
					return nil
				}
				if !v {
					acc = append(acc, s)
				}
			}
			return acc
		case *ast.SwitchStmt:
			if x.Tag == nil || exprString(x.Tag) != "account.State" {
				continue
			}
			refused := map[string]bool{}
			listed := map[string]bool{}
			defRefuses := false
			for _, c := range x.Body.List {
				cc := c.(*ast.CaseClause)
				if cc.List == nil {
					defRefuses = endsInReturn(cc.Body)
					continue
				}
				for _, e := range cc.List {
					listed[lastIdent(e)] = true
					if endsInReturn(cc.Body) {
						refused[lastIdent(e)] = true
					}
				}
			}
			var acc []string
			for _, s := range names {
				if refused[s] || (!listed[s] && defRefuses) {
					continue
				}
				acc = append(acc, s)
			}
			return acc
		}
	}
	fail("%s: no state guard found", what)
	return nil
}

func natList(vals map[string]string, names []string) string {
	q := make([]string, len(names))
	for i, n := range names {
		v, ok := vals[n]
		if !ok {
			fail("unknown state constant %s", n)
			v = "999"
		}
		q[i] = v
	}
	return "[" + strings.Join(q, ", ") + "]"
}

func genLifecycle() {
	acctFiles := pkgFiles("account")
	lcPkgFiles = acctFiles
	ce := newConstEnv(acctFiles)
	names, vals := lcStates(acctFiles, ce, "State")
	if len(names) == 0 {
		fail("no account.State constants found")
		return
	}
	l := newLean("LifecycleFacts", "Switch tables and call orders of the account lifecycle code "+
		"(account/manager.go, auctioneer/client.go, order/batch_storer.go), consumed by the C08/C20 model and theorems.")
	l.p("namespace Pool.Gen.Lifecycle")

	// ---- account states
	var sb []string
	for _, n := range names {
		sb = append(sb, fmt.Sprintf("(%q, %s)", n, vals[n]))
	}
	l.p("def accountStates : List (String × Nat) := [%s]", strings.Join(sb, ", "))
	_, vvals := lcStates(acctFiles, ce, "Version")
	var vn []string
	for n := range vvals {
		vn = append(vn, n)
	}
	sort.Slice(vn, func(i, j int) bool { return vvals[vn[i]] < vvals[vn[j]] })
	sb = nil
	for _, n := range vn {
		sb = append(sb, fmt.Sprintf("(%q, %s)", n, vvals[n]))
	}
	l.p("def accountVersions : List (String × Nat) := [%s]", strings.Join(sb, ", "))

	// IsActive
	if fd := findFunc(acctFiles, "State.IsActive"); fd != nil {
		ss := findSwitch(fd.Body, "s")
		var inactive []string
		if ss != nil {
			for _, c := range ss.Body.List {
				cc := c.(*ast.CaseClause)
				for _, e := range cc.List {
					if len(cc.Body) == 1 && exprString(cc.Body[0].(*ast.ReturnStmt).Results[0]) == "false" {
						inactive = append(inactive, lastIdent(e))
					}
				}
			}
		}
		l.p("def inactiveStates : List Nat := %s", natList(vals, inactive))
	} else {
		fail("State.IsActive not found")
	}

	// ---- HandleAccountConf: state -> new state (default = error)
	if fd := findFunc(acctFiles, "manager.HandleAccountConf"); fd != nil {
		ss, tag := lcStateSwitch(fd, "account.State", 2)
		if ss == nil {
			fail("HandleAccountConf: switch over the account state not found (also not in a helper called with it)")
		} else {
			var rows []string
			defErr := false
			for _, c := range ss.Body.List {
				cc := c.(*ast.CaseClause)
				kind, tgt := lcClauseTarget(cc, []string{"newState"}, tag)
				if cc.List == nil {
					defErr = kind == "error" || kind == ""
					if len(cc.Body) > 0 {
						_, isRet := cc.Body[len(cc.Body)-1].(*ast.ReturnStmt)
						defErr = defErr && isRet
					}
					continue
				}
				if kind != "to" {
					fail("HandleAccountConf: case that does not decide a new state")
					continue
				}
				for _, e := range cc.List {
					rows = append(rows, fmt.Sprintf("(%s, %s)", vals[lastIdent(e)], vals[tgt]))
				}
			}
			l.p("def handleConf : List (Nat × Nat) := [%s]", strings.Join(lcSortRows(rows), ", "))
			l.p("def handleConfDefaultIsError : Bool := %s", leanBool(defErr))
			l.p("def handleConfCalls : List String := %s", leanStrList(sigCalls(fd, fd.Body)))
		}
	} else {
		fail("manager.HandleAccountConf not found")
	}

	// ---- HandleAccountExpiry: state -> some newState | none (= return nil)
	if fd := findFunc(acctFiles, "manager.HandleAccountExpiry"); fd != nil {
		ss, tag := lcStateSwitch(fd, "account.State", 2)
		if ss == nil {
			fail("HandleAccountExpiry: switch over the account state not found (also not in a helper called with it)")
		} else {
			var rows []string
			defErr := false
			for _, c := range ss.Body.List {
				cc := c.(*ast.CaseClause)
				kind, tgtName := lcClauseTarget(cc, []string{"expiredState"}, tag)
				if cc.List == nil {
					defErr = kind == "error"
					continue
				}
				tgt := "none"
				switch kind {
				case "to":
					tgt = "some " + vals[tgtName]
				case "noop":
				default:
					fail("HandleAccountExpiry: case neither decides an expired state nor returns nil")
				}
				for _, e := range cc.List {
					rows = append(rows, fmt.Sprintf("(%s, %s)", vals[lastIdent(e)], tgt))
				}
			}
			l.p("def handleExpiry : List (Nat × Option Nat) := [%s]", strings.Join(lcSortRows(rows), ", "))
			l.p("def handleExpiryDefaultIsError : Bool := %s", leanBool(defErr))
			l.p("def handleExpiryCalls : List String := %s", leanStrList(sigCalls(fd, fd.Body)))
		}
	} else {
		fail("manager.HandleAccountExpiry not found")
	}

	// ---- HandleAccountSpend: witness-kind switch, closing state
	if fd := findFunc(acctFiles, "manager.HandleAccountSpend"); fd != nil {
		// The witness classification is a tagless switch or an if / else-if
		// chain over the poolscript witness predicates; both read the same.
		type branch struct {
			cond string
			body []ast.Stmt
		}
		isWitnessCond := func(e ast.Expr) bool {
			c := exprString(e)
			return strings.Contains(c, "ExpirySpend") || strings.Contains(c, "MultiSigSpend")
		}
		var branches []branch
		var after []ast.Stmt
		for i, st := range fd.Body.List {
			switch x := st.(type) {
			case *ast.SwitchStmt:
				if x.Tag != nil {
					continue
				}
				hit := false
				for _, c := range x.Body.List {
					cc := c.(*ast.CaseClause)
					for _, e := range cc.List {
						hit = hit || isWitnessCond(e)
					}
				}
				if !hit {
					continue
				}
				for _, c := range x.Body.List {
					cc := c.(*ast.CaseClause)
					cond := ""
					if cc.List != nil {
						var cs []string
						for _, e := range cc.List {
							cs = append(cs, exprString(e))
						}
						cond = strings.Join(cs, " || ")
					}
					branches = append(branches, branch{cond, cc.Body})
				}
				after = fd.Body.List[i+1:]
			case *ast.IfStmt:
				if x.Init != nil || !isWitnessCond(x.Cond) {
					continue
				}
				var cur ast.Stmt = x
				for cur != nil {
					switch y := cur.(type) {
					case *ast.IfStmt:
						branches = append(branches, branch{exprString(y.Cond), y.Body.List})
						cur = y.Else
					case *ast.BlockStmt:
						branches = append(branches, branch{"", y.List})
						cur = nil
					default:
						cur = nil
					}
				}
				after = fd.Body.List[i+1:]
			}
			if branches != nil {
				break
			}
		}
		var kinds, outcomes []string
		msCalls := []string{}
		closing := []string{}
		if branches == nil {
			fail("HandleAccountSpend: witness classification (switch or if-chain over the spend predicates) not found")
		} else {
			// a default branch sorts last whatever its position (Go semantics)
			var ordered []branch
			var defaults []branch
			for _, b := range branches {
				if b.cond == "" {
					defaults = append(defaults, b)
				} else {
					ordered = append(ordered, b)
				}
			}
			for _, b := range append(ordered, defaults...) {
				kind := "default"
				if b.cond != "" {
					exp := strings.Contains(b.cond, "IsExpirySpend") && strings.Contains(b.cond, "IsTaprootExpirySpend")
					ms := strings.Contains(b.cond, "IsMultiSigSpend") && strings.Contains(b.cond, "IsTaprootMultiSigSpend")
					switch {
					case exp && !ms:
						kind = "expiry"
					case ms && !exp:
						kind = "multisig"
					default:
						kind = "?" + b.cond
					}
				}
				blk := &ast.BlockStmt{List: b.body}
				calls := sigCalls(fd, blk)
				body := "other"
				switch {
				case len(calls) > 0:
					body = strings.Join(calls, ";")
				case len(b.body) > 0:
					if rs, ok := b.body[len(b.body)-1].(*ast.ReturnStmt); ok && len(rs.Results) > 0 &&
						exprString(rs.Results[len(rs.Results)-1]) != "nil" {

						body = "return-error"
					} else if !ok {
						body = "break"
					}
				default:
					body = "break"
				}
				kinds = append(kinds, kind+":"+body)
				if len(calls) > 0 {
					body = "calls"
				}
				outcomes = append(outcomes, fmt.Sprintf("(%q, %q)", kind, body))
				if kind == "multisig" {
					msCalls = calls
				}
			}
			l.p("def handleSpendCases : List String := %s", leanStrList(kinds))
			l.p("def handleSpendKinds : List (String × String) := [%s]", strings.Join(outcomes, ", "))
			l.p("def handleSpendMultisigCalls : List String := %s", leanStrList(msCalls))
			closing = sigCalls(fd, &ast.BlockStmt{List: after})
		}
		l.p("def handleSpendFinal : List String := %s", leanStrList(closing))
	} else {
		fail("manager.HandleAccountSpend not found")
	}

	// ---- resumeAccount: per-state ordered significant calls
	if fd := findFunc(acctFiles, "manager.resumeAccount"); fd != nil {
		ss, _ := lcStateSwitch(fd, "account.State", 1)
		if ss == nil {
			fail("resumeAccount: switch account.State not found")
		} else {
			var rows []string
			defErr := false
			for _, c := range ss.Body.List {
				cc := c.(*ast.CaseClause)
				if cc.List == nil {
					_, defErr = cc.Body[len(cc.Body)-1].(*ast.ReturnStmt)
					continue
				}
				calls := sigCalls(fd, &ast.BlockStmt{List: cc.Body})
				for _, e := range cc.List {
					rows = append(rows, fmt.Sprintf("(%s, %s)", vals[lastIdent(e)], leanStrList(calls)))
				}
			}
			l.p("def resume : List (Nat × List String) := [%s]", strings.Join(lcSortRows(rows), ",\n  "))
			l.p("def resumeDefaultIsError : Bool := %s", leanBool(defErr))
		}
	} else {
		fail("manager.resumeAccount not found")
	}
	if fd := findFunc(acctFiles, "manager.handleStateOpen"); fd != nil {
		l.p("def handleStateOpenCalls : List String := %s", leanStrList(sigCalls(fd, fd.Body)))
	} else {
		fail("manager.handleStateOpen not found")
	}
	for _, nm := range []string{"spendAccount", "RecoverAccount", "WatchMatchedAccounts", "start", "InitAccount", "RenewAccount",
		"DepositAccount", "WithdrawAccount"} {
		fd := findFunc(acctFiles, "manager."+nm)
		if fd == nil {
			fail("manager.%s not found", nm)
			continue
		}
		l.p("def %sCalls : List String := %s", strings.ToLower(nm[:1])+nm[1:], leanStrList(sigCalls(fd, fd.Body)))
	}

	// ---- user-action state guards
	for _, nm := range []string{"DepositAccount", "WithdrawAccount", "RenewAccount", "CloseAccount", "BumpAccountFee"} {
		fd := findFunc(acctFiles, "manager."+nm)
		if fd == nil {
			fail("manager.%s not found", nm)
			continue
		}
		acc := acceptStates(fd, names, nm)
		l.p("def accepts%s : List Nat := %s", nm, natList(vals, acc))
	}

	// ---- unmarshallServerRecoveredAccount: server state -> local state
	aucFiles := pkgFiles("auctioneer")
	lcPkgFiles = aucFiles
	rpcCE := newConstEnv(pkgFiles("auctioneerrpc"))
	if fd := findFunc(aucFiles, "unmarshallServerRecoveredAccount"); fd != nil {
		ss, tag := lcStateSwitch(fd, "a.State", 2)
		def := ""
		for _, st := range fd.Body.List {
			if as, ok := st.(*ast.AssignStmt); ok && as.Tok == token.DEFINE &&
				exprString(as.Lhs[0]) == "state" &&
				strings.HasPrefix(lastIdent(as.Rhs[0]), "State") {

				def = lastIdent(as.Rhs[0])
			}
		}
		if ss != nil {
			// a default clause (helper form) decides the default as well
			for _, c := range ss.Body.List {
				if cc := c.(*ast.CaseClause); cc.List == nil {
					if kind, t := lcClauseTarget(cc, []string{"state"}, tag); kind == "to" {
						def = t
					}
				}
			}
		}
		if ss == nil || def == "" {
			fail("unmarshallServerRecoveredAccount: switch over the server state / default state not found")
		} else {
			var rows []string
			for _, c := range ss.Body.List {
				cc := c.(*ast.CaseClause)
				if cc.List == nil {
					continue
				}
				kind, tgt := lcClauseTarget(cc, []string{"state"}, tag)
				if kind != "to" {
					fail("unmarshallServerRecoveredAccount: case that does not decide a state")
					continue
				}
				for _, e := range cc.List {
					rows = append(rows, fmt.Sprintf("(%s, %s)",
						intConst(rpcCE, "auctioneerrpc", lastIdent(e)), vals[tgt]))
				}
			}
			// total over the server's enum: a state handled by the default and one
			// listed with the default's target are the same mapping
			have := map[string]bool{}
			for _, r := range rows {
				have[strings.TrimSpace(strings.Split(strings.TrimLeft(r, "("), ",")[0])] = true
			}
			for _, v := range lcServerStateValues(rpcCE) {
				if !have[v] {
					rows = append(rows, fmt.Sprintf("(%s, %s)", v, vals[def]))
				}
			}
			l.p("def recoveryMap : List (Nat × Nat) := [%s]", strings.Join(lcSortRows(rows), ", "))
			l.p("def recoveryDefault : Nat := %s", vals[def])
		}
		// latestTx is parsed unless a.State == <const>
		noTx := ""
		ast.Inspect(fd.Body, func(n ast.Node) bool {
			is, ok := n.(*ast.IfStmt)
			if !ok {
				return true
			}
			be, ok := is.Cond.(*ast.BinaryExpr)
			if ok && be.Op == token.NEQ && exprString(be.X) == "a.State" {
				for _, c := range sigLatestTx(is.Body) {
					_ = c
					noTx = intConst(rpcCE, "auctioneerrpc", lastIdent(be.Y))
				}
			}
			return true
		})
		if noTx == "" {
			fail("unmarshallServerRecoveredAccount: latestTx guard not found")
			noTx = "999"
		}
		l.p("def recoveryNoLatestTx : List Nat := [%s]", noTx)
	} else {
		fail("unmarshallServerRecoveredAccount not found")
	}
	var srv []string
	for _, f := range pkgFiles("auctioneerrpc") {
		for _, d := range f.Decls {
			gd, ok := d.(*ast.GenDecl)
			if !ok || gd.Tok != token.CONST {
				continue
			}
			for _, s := range gd.Specs {
				vs := s.(*ast.ValueSpec)
				if id, ok := vs.Type.(*ast.Ident); ok && id.Name == "AuctionAccountState" {
					for _, n := range vs.Names {
						srv = append(srv, fmt.Sprintf("(%q, %s)", n.Name, intConst(rpcCE, "auctioneerrpc", n.Name)))
					}
				}
			}
		}
	}
	l.p("def serverStates : List (String × Nat) := [%s]", strings.Join(srv, ", "))

	// ---- RecoverAccounts sweep
	if fd := findFunc(aucFiles, "Client.RecoverAccounts"); fd != nil {
		aucCE := newConstEnv(aucFiles)
		l.p("def maxUnusedAccountKeyLookup : Nat := %s", intConst(aucCE, "auctioneer", "MaxUnusedAccountKeyLookup"))
		// the miss counter is whatever variable the stop condition compares with
		// MaxUnusedAccountKeyLookup; it is rendered as `misses` (its name and the
		// side it stands on do not matter)
		stop, reset, incr, counter := "", false, false, ""
		ast.Inspect(fd.Body, func(n ast.Node) bool {
			x, ok := n.(*ast.IfStmt)
			if !ok {
				return true
			}
			be, ok := x.Cond.(*ast.BinaryExpr)
			if !ok || !strings.Contains(exprString(x.Cond), "MaxUnusedAccountKeyLookup") {
				return true
			}
			for _, side := range []ast.Expr{be.X, be.Y} {
				if id, ok := side.(*ast.Ident); ok && id.Name != "MaxUnusedAccountKeyLookup" {
					counter = id.Name
				}
			}
			if counter != "" {
				stop = strings.ReplaceAll(" "+canonCmp(x.Cond)+" ", " "+counter+" ", " misses ")
				stop = strings.TrimSpace(stop)
			}
			return true
		})
		ast.Inspect(fd.Body, func(n ast.Node) bool {
			switch x := n.(type) {
			case *ast.AssignStmt:
				if len(x.Lhs) == 1 && counter != "" && exprString(x.Lhs[0]) == counter &&
					x.Tok == token.ASSIGN && exprString(x.Rhs[0]) == "0" {

					reset = true
				}
				if len(x.Lhs) == 1 && counter != "" && exprString(x.Lhs[0]) == counter &&
					((x.Tok == token.ADD_ASSIGN && exprString(x.Rhs[0]) == "1") ||
						(x.Tok == token.ASSIGN && (exprString(x.Rhs[0]) == counter+" + 1" ||
							exprString(x.Rhs[0]) == "1 + "+counter))) {

					incr = true
				}
			case *ast.IncDecStmt:
				if counter != "" && exprString(x.X) == counter && x.Tok == token.INC {
					incr = true
				}
			}
			return true
		})
		l.p("def sweepStopCond : String := %q", stop)
		l.p("def sweepResets : Bool := %s", leanBool(reset))
		l.p("def sweepIncrements : Bool := %s", leanBool(incr))
	} else {
		fail("Client.RecoverAccounts not found")
	}

	// ---- batch storer account modifiers
	ordFiles := pkgFiles("order")
	if fd := findFunc(ordFiles, "batchStorer.StorePendingBatch"); fd != nil {
		lcPkgFiles = ordFiles
		ss, _ := lcStateSwitch(fd, "diff.EndingState", 2)
		if ss == nil {
			fail("StorePendingBatch: switch diff.EndingState not found")
		} else {
			var rows []string
			for _, c := range ss.Body.List {
				cc := c.(*ast.CaseClause)
				if cc.List == nil {
					continue
				}
				tgt, hasOp, hasInc := "", false, false
				ast.Inspect(&ast.BlockStmt{List: cc.Body}, func(n ast.Node) bool {
					if ce, ok := n.(*ast.CallExpr); ok {
						switch callName(ce) {
						case "StateModifier":
							tgt = lastIdent(ce.Args[0])
						case "OutPointModifier":
							hasOp = true
						case "IncrementBatchKey":
							hasInc = true
						}
					}
					return true
				})
				for _, e := range cc.List {
					rows = append(rows, fmt.Sprintf("(%s, %s, %s, %s)",
						intConst(rpcCE, "auctioneerrpc", lastIdent(e)), vals[tgt], leanBool(hasOp), leanBool(hasInc)))
				}
			}
			l.p("def storerEnding : List (Nat × Nat × Bool × Bool) := [%s]", strings.Join(lcSortRows(rows), ", "))
		}
		// the optional attributes of a re-created output (expiry extension, version
		// upgrade): are they decided independently, or as alternatives of one
		// switch / if-else chain (then a diff carrying both gets only one)?
		expPath := lcBranchPath(fd.Body, "ExpiryModifier")
		verPath := lcBranchPath(fd.Body, "VersionModifier")
		if expPath == nil || verPath == nil {
			fail("StorePendingBatch: ExpiryModifier / VersionModifier not found")
		}
		exclusive := false
		for root, b1 := range expPath {
			if b2, ok := verPath[root]; ok && b1 != b2 {
				exclusive = true
			}
		}
		l.p("def storerOptionalExclusive : Bool := %s", leanBool(exclusive))
	} else {
		fail("batchStorer.StorePendingBatch not found")
	}
	l.p("end Pool.Gen.Lifecycle")
}

// lcBranchPath locates the first call of the named function (also through
// same-package helpers, one level) and returns, for every branching statement
// around it (switch, if / else chain), which branch it sits in.
func lcBranchPath(body ast.Node, name string) map[ast.Node]int {
	var res map[ast.Node]int
	var stack []ast.Node
	ast.Inspect(body, func(n ast.Node) bool {
		if n == nil {
			stack = stack[:len(stack)-1]
			return true
		}
		stack = append(stack, n)
		c, ok := n.(*ast.CallExpr)
		if !ok || res != nil {
			return true
		}
		hit := callName(c) == name
		if !hit {
			if callee := lcCallee(c); callee != nil && callee.Body != nil {
				ast.Inspect(callee.Body, func(m ast.Node) bool {
					if cc, ok := m.(*ast.CallExpr); ok && callName(cc) == name {
						hit = true
					}
					return true
				})
			}
		}
		if !hit {
			return true
		}
		res = map[ast.Node]int{}
		for i := 0; i+1 < len(stack); i++ {
			switch x := stack[i].(type) {
			case *ast.IfStmt:
				switch stack[i+1] {
				case ast.Node(x.Body):
					res[x] = 1
				case x.Else:
					res[x] = 2
				}
			case *ast.SwitchStmt:
				// stack: switch, its body block, the case clause
				if i+2 < len(stack) {
					for j, cl := range x.Body.List {
						if ast.Node(cl) == stack[i+2] {
							res[x] = j + 1
						}
					}
				}
			}
		}
		return true
	})
	return res
}

// sigLatestTx reports whether the block assigns latestTx.
func sigLatestTx(b *ast.BlockStmt) []string {
	var res []string
	ast.Inspect(b, func(n ast.Node) bool {
		if as, ok := n.(*ast.AssignStmt); ok && len(as.Lhs) > 0 &&
			exprString(as.Lhs[0]) == "latestTx" {

			res = append(res, "latestTx")
		}
		return true
	})
	return res
}
