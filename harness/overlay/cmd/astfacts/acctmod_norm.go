//go:build verif

package main

import (
	"fmt"
	"go/ast"
	"go/token"
	"sort"
	"strings"
)

// Semantic normalisation used by the C07 fact extractors, so that
// behaviour-preserving refactorings yield the same facts:
//   - parameters are named by their TYPE and position among that type
//     ($account, $u32_1, $wt, $amt_1, …), the receiver is $recv;
//   - locals that are assigned exactly once are replaced by their defining
//     expression (a few levels deep);
//   - comparisons are canonicalised (a >= b ≡ b <= a, a > b ≡ b < a), the
//     operands of ==, !=, +, || and && are sorted, parentheses dropped;
//   - an if / else-if chain and a tagless switch are the same decision list; a
//     tagged switch and a chain of `tag == const` decisions are the same case
//     list;
//   - same-package helpers called from a function are searched too.

type acctmodNorm struct {
	params map[string]string
	locals map[string]ast.Expr
}

func acctmodTypeKey(t ast.Expr) string {
	s := exprString(t)
	switch s {
	case "*Account":
		return "account"
	case "uint32":
		return "u32"
	case "witnessType":
		return "wt"
	case "btcutil.Amount":
		return "amt"
	case "chainfee.SatPerKWeight":
		return "rate"
	case "[]*wire.TxOut":
		return "outs"
	case "*wire.TxOut":
		return "out"
	case "*input.TxWeightEstimator":
		return "twe"
	case "txscript.ScriptClass":
		return "class"
	}
	return ""
}

func acctmodNewNorm(fd *ast.FuncDecl) *acctmodNorm {
	n := &acctmodNorm{params: map[string]string{}, locals: map[string]ast.Expr{}}
	if fd == nil {
		return n
	}
	if fd.Recv != nil {
		for _, f := range fd.Recv.List {
			for _, id := range f.Names {
				n.params[id.Name] = "$recv"
			}
		}
	}
	perType := map[string]int{}
	pos := 0
	// first pass: count per type so that a single one gets no index
	type pinfo struct{ name, key string }
	var ps []pinfo
	if fd.Type.Params != nil {
		for _, f := range fd.Type.Params.List {
			k := acctmodTypeKey(f.Type)
			for _, id := range f.Names {
				ps = append(ps, pinfo{id.Name, k})
				perType[k]++
			}
		}
	}
	seen := map[string]int{}
	for _, p := range ps {
		pos++
		switch {
		case p.key == "":
			n.params[p.name] = fmt.Sprintf("$%d", pos)
		case perType[p.key] == 1:
			n.params[p.name] = "$" + p.key
		default:
			seen[p.key]++
			n.params[p.name] = fmt.Sprintf("$%s_%d", p.key, seen[p.key])
		}
	}
	// locals assigned exactly once by a single-valued definition
	count := map[string]int{}
	def := map[string]ast.Expr{}
	bump := func(e ast.Expr) {
		if id, ok := e.(*ast.Ident); ok {
			count[id.Name]++
		}
	}
	ast.Inspect(fd.Body, func(x ast.Node) bool {
		switch s := x.(type) {
		case *ast.AssignStmt:
			for _, l := range s.Lhs {
				bump(l)
			}
			if s.Tok == token.DEFINE && len(s.Lhs) == len(s.Rhs) {
				for i, l := range s.Lhs {
					if id, ok := l.(*ast.Ident); ok {
						def[id.Name] = s.Rhs[i]
					}
				}
			}
		case *ast.IncDecStmt:
			bump(s.X)
		case *ast.RangeStmt:
			if s.Key != nil {
				bump(s.Key)
				bump(s.Key)
			}
			if s.Value != nil {
				bump(s.Value)
				bump(s.Value)
			}
		case *ast.ValueSpec:
			for i, id := range s.Names {
				count[id.Name]++
				if i < len(s.Values) && len(s.Values) == len(s.Names) {
					def[id.Name] = s.Values[i]
				}
			}
		}
		return true
	})
	for name, e := range def {
		if count[name] == 1 {
			if _, isParam := n.params[name]; !isParam {
				n.locals[name] = e
			}
		}
	}
	return n
}

func (n *acctmodNorm) flatten(e ast.Expr, op token.Token, depth int, acc *[]string) {
	if p, ok := e.(*ast.ParenExpr); ok {
		n.flatten(p.X, op, depth, acc)
		return
	}
	if id, ok := e.(*ast.Ident); ok && depth < 4 {
		if d, ok := n.locals[id.Name]; ok {
			n.flatten(d, op, depth+1, acc)
			return
		}
	}
	if b, ok := e.(*ast.BinaryExpr); ok && b.Op == op {
		n.flatten(b.X, op, depth, acc)
		n.flatten(b.Y, op, depth, acc)
		return
	}
	*acc = append(*acc, n.operand(e, depth))
}

// operand prints a sub-expression, parenthesised when it is itself binary.
func (n *acctmodNorm) operand(e ast.Expr, depth int) string {
	s := n.str(e, depth)
	x := e
	for {
		if p, ok := x.(*ast.ParenExpr); ok {
			x = p.X
			continue
		}
		if id, ok := x.(*ast.Ident); ok {
			if d, ok := n.locals[id.Name]; ok && depth < 4 {
				x = d
				continue
			}
		}
		break
	}
	if _, ok := x.(*ast.BinaryExpr); ok {
		return "(" + s + ")"
	}
	return s
}

func (n *acctmodNorm) str(e ast.Expr, depth int) string {
	switch x := e.(type) {
	case *ast.ParenExpr:
		return n.str(x.X, depth)
	case *ast.Ident:
		if p, ok := n.params[x.Name]; ok {
			return p
		}
		if d, ok := n.locals[x.Name]; ok && depth < 4 {
			return n.str(d, depth+1)
		}
		return x.Name
	case *ast.BasicLit:
		return x.Value
	case *ast.SelectorExpr:
		return n.str(x.X, depth) + "." + x.Sel.Name
	case *ast.StarExpr:
		return "*" + n.str(x.X, depth)
	case *ast.UnaryExpr:
		return x.Op.String() + n.operand(x.X, depth)
	case *ast.CallExpr:
		args := make([]string, len(x.Args))
		for i, a := range x.Args {
			args[i] = n.str(a, depth)
		}
		return n.str(x.Fun, depth) + "(" + strings.Join(args, ", ") + ")"
	case *ast.BinaryExpr:
		switch x.Op {
		case token.LOR, token.LAND, token.ADD:
			var parts []string
			n.flatten(x, x.Op, depth, &parts)
			sort.Strings(parts)
			return strings.Join(parts, " "+x.Op.String()+" ")
		}
		a, b, op := n.operand(x.X, depth), n.operand(x.Y, depth), x.Op
		switch op {
		case token.GEQ:
			a, b, op = b, a, token.LEQ
		case token.GTR:
			a, b, op = b, a, token.LSS
		case token.EQL, token.NEQ:
			if b < a {
				a, b = b, a
			}
		}
		return a + " " + op.String() + " " + b
	}
	return exprString(e)
}

func (n *acctmodNorm) s(e ast.Expr) string { return n.str(e, 0) }

// acctmodDecision is one guarded branch: an `if` of a chain or a clause of a
// tagless switch.
type acctmodDecision struct {
	cond ast.Expr
	body []ast.Stmt
}

func acctmodDecisions(root ast.Node) []acctmodDecision {
	var res []acctmodDecision
	if root == nil {
		return nil
	}
	ast.Inspect(root, func(x ast.Node) bool {
		switch s := x.(type) {
		case *ast.IfStmt:
			res = append(res, acctmodDecision{s.Cond, s.Body.List})
		case *ast.SwitchStmt:
			if s.Tag == nil {
				for _, st := range s.Body.List {
					cc := st.(*ast.CaseClause)
					for _, e := range cc.List {
						res = append(res, acctmodDecision{e, cc.Body})
					}
				}
			}
		}
		return true
	})
	return res
}

// acctmodCase is one `tag == const` alternative with its body.
type acctmodCase struct {
	consts []ast.Expr
	body   []ast.Stmt
}

// acctmodCallees returns the same-package functions / methods called in fd.
func acctmodCallees(files []*ast.File, fd *ast.FuncDecl) []*ast.FuncDecl {
	var res []*ast.FuncDecl
	seen := map[string]bool{}
	ast.Inspect(fd.Body, func(x ast.Node) bool {
		c, ok := x.(*ast.CallExpr)
		if !ok {
			return true
		}
		name := ""
		switch f := c.Fun.(type) {
		case *ast.Ident:
			name = f.Name
		case *ast.SelectorExpr:
			if _, ok := f.X.(*ast.Ident); ok {
				name = f.Sel.Name
			}
		}
		if name == "" || seen[name] {
			return true
		}
		seen[name] = true
		for _, file := range files {
			for _, d := range file.Decls {
				if g, ok := d.(*ast.FuncDecl); ok && g.Name.Name == name && g.Body != nil && g != fd {
					// selector calls must be methods, plain calls functions
					_, isSel := c.Fun.(*ast.SelectorExpr)
					if isSel == (g.Recv != nil) {
						res = append(res, g)
					}
				}
			}
		}
		return true
	})
	return res
}

// acctmodFindCases finds, in fd or (up to depth levels of) the same-package
// helpers it calls, the case list whose tag satisfies isTag: a tagged switch,
// or a decision list of `tag == const [|| tag == const…]` conditions.
func acctmodFindCases(files []*ast.File, fd *ast.FuncDecl, depth int,
	isTag func(n *acctmodNorm, tag ast.Expr) bool) ([]acctmodCase, *ast.FuncDecl) {

	if fd == nil || fd.Body == nil {
		return nil, nil
	}
	n := acctmodNewNorm(fd)
	var res []acctmodCase
	ast.Inspect(fd.Body, func(x ast.Node) bool {
		sw, ok := x.(*ast.SwitchStmt)
		if !ok || res != nil || sw.Tag == nil || !isTag(n, sw.Tag) {
			return true
		}
		for _, st := range sw.Body.List {
			cc := st.(*ast.CaseClause)
			if cc.List != nil {
				res = append(res, acctmodCase{cc.List, cc.Body})
			}
		}
		return false
	})
	if res == nil {
		for _, d := range acctmodDecisions(fd.Body) {
			var alts []ast.Expr
			var split func(e ast.Expr) bool
			split = func(e ast.Expr) bool {
				if p, ok := e.(*ast.ParenExpr); ok {
					return split(p.X)
				}
				b, ok := e.(*ast.BinaryExpr)
				if !ok {
					return false
				}
				switch b.Op {
				case token.LOR:
					return split(b.X) && split(b.Y)
				case token.EQL:
					if isTag(n, b.X) {
						alts = append(alts, b.Y)
						return true
					}
					if isTag(n, b.Y) {
						alts = append(alts, b.X)
						return true
					}
				}
				return false
			}
			if split(d.cond) && len(alts) > 0 {
				res = append(res, acctmodCase{alts, d.body})
			}
		}
	}
	if res != nil {
		return res, fd
	}
	if depth > 0 {
		for _, g := range acctmodCallees(files, fd) {
			if r, owner := acctmodFindCases(files, g, depth-1, isTag); r != nil {
				return r, owner
			}
		}
	}
	return nil, nil
}

// acctmodAddCalls lists the lnd estimator methods (Add…Output / Add…Input)
// called in stmts, whatever the estimator variable is called.
func acctmodAddCalls(stmts []ast.Stmt) []string {
	var res []string
	for _, st := range stmts {
		ast.Inspect(st, func(x ast.Node) bool {
			if c, ok := x.(*ast.CallExpr); ok {
				if s, ok := c.Fun.(*ast.SelectorExpr); ok &&
					strings.HasPrefix(s.Sel.Name, "Add") &&
					(strings.HasSuffix(s.Sel.Name, "Output") || strings.HasSuffix(s.Sel.Name, "Input")) {

					res = append(res, s.Sel.Name)
				}
			}
			return true
		})
	}
	return res
}

// acctmodReturnsError reports whether the statements return a non-nil last
// result (an error refusal).
func acctmodReturnsError(stmts []ast.Stmt) bool {
	for _, st := range stmts {
		if r, ok := st.(*ast.ReturnStmt); ok && len(r.Results) > 0 {
			return exprString(r.Results[len(r.Results)-1]) != "nil"
		}
	}
	return false
}

func acctmodConstName(e ast.Expr) string {
	if s, ok := e.(*ast.SelectorExpr); ok {
		return s.Sel.Name
	}
	return exprString(e)
}

// acctmodEvalCond evaluates a condition over the witness-type value `wt`
// (named $recv or $wt after normalisation) for the concrete constant c:
// `wt == X`, `wt != X`, `wt.IsExpirySpend()`, !, &&, ||.  ok=false when the
// condition mentions anything else.
func acctmodEvalCond(n *acctmodNorm, e ast.Expr, c string, expirySet map[string]bool) (val, ok bool) {
	isWt := func(x ast.Expr) bool {
		t := n.s(x)
		return t == "$recv" || t == "$wt"
	}
	switch x := e.(type) {
	case *ast.ParenExpr:
		return acctmodEvalCond(n, x.X, c, expirySet)
	case *ast.UnaryExpr:
		if x.Op == token.NOT {
			v, ok := acctmodEvalCond(n, x.X, c, expirySet)
			return !v, ok
		}
	case *ast.CallExpr:
		if s, isSel := x.Fun.(*ast.SelectorExpr); isSel && isWt(s.X) && s.Sel.Name == "IsExpirySpend" && len(x.Args) == 0 {
			return expirySet[c], true
		}
	case *ast.BinaryExpr:
		switch x.Op {
		case token.LAND, token.LOR:
			a, ok1 := acctmodEvalCond(n, x.X, c, expirySet)
			b, ok2 := acctmodEvalCond(n, x.Y, c, expirySet)
			if x.Op == token.LAND {
				return a && b, ok1 && ok2
			}
			return a || b, ok1 && ok2
		case token.EQL, token.NEQ:
			var other ast.Expr
			switch {
			case isWt(x.X):
				other = x.Y
			case isWt(x.Y):
				other = x.X
			default:
				return false, false
			}
			eq := acctmodConstName(other) == c
			if x.Op == token.NEQ {
				return !eq, true
			}
			return eq, true
		}
	}
	return false, false
}

// acctmodLastOkReturn returns the first result of the last top-level
// `return v, nil` of stmts ("" if the statements only return errors).
func acctmodLastOkReturn(stmts []ast.Stmt) (ast.Expr, bool) {
	for i := len(stmts) - 1; i >= 0; i-- {
		if r, ok := stmts[i].(*ast.ReturnStmt); ok && len(r.Results) == 2 {
			if exprString(r.Results[1]) == "nil" {
				return r.Results[0], true
			}
			return nil, true
		}
	}
	return nil, false
}

// acctmodEvalPerWt evaluates a helper `func (wt witnessType) f(…) (T, error)`
// (or one with a witnessType parameter) written as a sequence of top-level
// early-return `if`s / a tagless switch followed by a final return, for the
// witness type constant c.  It returns the normalised value returned without
// error ("" when the helper returns an error), ok=false if the shape is not
// understood.
func acctmodEvalPerWt(fd *ast.FuncDecl, c string, expirySet map[string]bool) (string, bool) {
	n := acctmodNewNorm(fd)
	for _, st := range fd.Body.List {
		var ds []acctmodDecision
		switch s := st.(type) {
		case *ast.IfStmt:
			for cur := s; cur != nil; {
				ds = append(ds, acctmodDecision{cur.Cond, cur.Body.List})
				switch el := cur.Else.(type) {
				case *ast.IfStmt:
					cur = el
				case *ast.BlockStmt:
					ds = append(ds, acctmodDecision{nil, el.List})
					cur = nil
				default:
					cur = nil
				}
			}
		case *ast.SwitchStmt:
			if s.Tag != nil {
				return "", false
			}
			for _, cs := range s.Body.List {
				cc := cs.(*ast.CaseClause)
				if cc.List == nil {
					ds = append(ds, acctmodDecision{nil, cc.Body})
				}
				for _, e := range cc.List {
					ds = append(ds, acctmodDecision{e, cc.Body})
				}
			}
		case *ast.ReturnStmt:
			v, ok := acctmodLastOkReturn([]ast.Stmt{s})
			if !ok {
				return "", false
			}
			if v == nil {
				return "", true
			}
			return n.s(v), true
		default:
			continue
		}
		for _, d := range ds {
			taken := true
			if d.cond != nil {
				v, ok := acctmodEvalCond(n, d.cond, c, expirySet)
				if !ok {
					return "", false
				}
				taken = v
			}
			if !taken {
				continue
			}
			v, ok := acctmodLastOkReturn(d.body)
			if !ok {
				break // the branch falls through to the following statements
			}
			if v == nil {
				return "", true
			}
			return n.s(v), true
		}
	}
	return "", false
}

// conjuncts splits a condition into the operands of its top-level &&
// (parentheses dropped, single-assignment locals replaced by their definition).
func (n *acctmodNorm) conjuncts(e ast.Expr, depth int) []ast.Expr {
	switch x := e.(type) {
	case *ast.ParenExpr:
		return n.conjuncts(x.X, depth)
	case *ast.Ident:
		if d, ok := n.locals[x.Name]; ok && depth < 4 {
			return n.conjuncts(d, depth+1)
		}
	case *ast.BinaryExpr:
		if x.Op == token.LAND {
			return append(n.conjuncts(x.X, depth), n.conjuncts(x.Y, depth)...)
		}
	}
	return []ast.Expr{e}
}
