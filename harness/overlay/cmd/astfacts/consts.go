//go:build verif

package main

func init() { jobs = append(jobs, job{props: []string{"C01"}, fn: genConsts}) }

// genConsts emits integer constants the model's arithmetic and windows use.
func genConsts() {
	l := newLean("Consts", "Integer constants read from the Go source.")
	l.p("namespace Pool.Gen")
	order := newConstEnv(pkgFiles("order"))
	l.p("def heightHintPadding : Nat := %s", intConst(order, "order", "heightHintPadding"))
	l.p("end Pool.Gen")
}
