//go:build verif

package main

import (
	"fmt"
	"go/ast"
	"go/token"
	"sort"
	"strings"
)

// Semantic facts for C18: what the anchored functions DO, recovered in a
// way that survives behaviour-preserving refactorings (if-chain <-> switch,
// flipped comparison operands, renamed locals, statements moved into
// same-type helper methods, logging).

func init() { jobs = append(jobs, job{props: []string{"C18"}, fn: genC18Sem}) }

// ------------------------------------------------------------ canonical expressions

// c18Env maps local variable names to the canonical expression they hold.
type c18Env map[string]string

func (e c18Env) clone() c18Env {
	n := c18Env{}
	for k, v := range e {
		n[k] = v
	}
	return n
}

// c18Alias maps spelled-out selector expressions to symbols.
var c18Alias = map[string]string{
	"c.cfg.MinBackoff": "MIN",
	"c.cfg.MaxBackoff": "MAX",
}

// c18Canon prints an expression canonically: locals replaced by what they
// hold, commutative operands sorted, > / >= turned into < / <=, parentheses
// and conversions dropped.
func c18Canon(x ast.Expr, env c18Env) string {
	switch e := x.(type) {
	case *ast.ParenExpr:
		return c18Canon(e.X, env)
	case *ast.Ident:
		if v, ok := env[e.Name]; ok {
			return v
		}
		return e.Name
	case *ast.BasicLit:
		return e.Value
	case *ast.SelectorExpr:
		s := exprString(e)
		if a, ok := c18Alias[s]; ok {
			return a
		}
		return s
	case *ast.UnaryExpr:
		if e.Op == token.NOT {
			return c18Not(c18Canon(e.X, env))
		}
		return e.Op.String() + c18Canon(e.X, env)
	case *ast.BinaryExpr:
		a, b := c18Canon(e.X, env), c18Canon(e.Y, env)
		op := e.Op
		switch op {
		case token.GTR:
			a, b, op = b, a, token.LSS
		case token.GEQ:
			a, b, op = b, a, token.LEQ
		case token.MUL, token.ADD, token.EQL, token.NEQ, token.LAND, token.LOR:
			if b < a {
				a, b = b, a
			}
		}
		return "(" + a + " " + op.String() + " " + b + ")"
	case *ast.CallExpr:
		// conversion T(x) with one argument and a type-like callee
		if len(e.Args) == 1 {
			if id, ok := e.Fun.(*ast.SelectorExpr); ok && exprString(id) == "time.Duration" {
				return c18Canon(e.Args[0], env)
			}
		}
		var a []string
		for _, x := range e.Args {
			a = append(a, c18Canon(x, env))
		}
		return exprString(e.Fun) + "(" + strings.Join(a, ", ") + ")"
	}
	return exprString(x)
}

func c18Not(s string) string {
	if strings.HasPrefix(s, "!") {
		return s[1:]
	}
	return "!" + s
}

func c18Ite(c, a, b string) string {
	if a == b {
		return a
	}
	return "ite(" + c + ", " + a + ", " + b + ")"
}

// c18IsLog reports whether a statement only logs.
func c18IsLog(st ast.Stmt) bool {
	es, ok := st.(*ast.ExprStmt)
	if !ok {
		return false
	}
	c, ok := es.X.(*ast.CallExpr)
	if !ok {
		return false
	}
	f := exprString(c.Fun)
	return strings.HasPrefix(f, "log.") || strings.HasPrefix(f, "rpcLog.")
}

// c18Sym symbolically executes straight-line code with if / switch decisions
// over the environment; it returns false on a statement it does not
// understand.
func c18Sym(stmts []ast.Stmt, env c18Env) bool {
	for _, st := range stmts {
		if c18IsLog(st) {
			continue
		}
		switch s := st.(type) {
		case *ast.AssignStmt:
			if len(s.Lhs) != 1 || len(s.Rhs) != 1 {
				return false
			}
			id, ok := s.Lhs[0].(*ast.Ident)
			if !ok {
				return false
			}
			rhs := c18Canon(s.Rhs[0], env)
			switch s.Tok {
			case token.ASSIGN, token.DEFINE:
				env[id.Name] = rhs
			case token.MUL_ASSIGN, token.ADD_ASSIGN:
				cur := c18Canon(id, env)
				a, b := cur, rhs
				if b < a {
					a, b = b, a
				}
				op := "*"
				if s.Tok == token.ADD_ASSIGN {
					op = "+"
				}
				env[id.Name] = "(" + a + " " + op + " " + b + ")"
			default:
				return false
			}
		case *ast.IfStmt:
			if s.Init != nil && !c18Sym([]ast.Stmt{s.Init}, env) {
				return false
			}
			cond := c18Canon(s.Cond, env)
			th, el := env.clone(), env.clone()
			if !c18Sym(s.Body.List, th) {
				return false
			}
			switch e := s.Else.(type) {
			case nil:
			case *ast.BlockStmt:
				if !c18Sym(e.List, el) {
					return false
				}
			case *ast.IfStmt:
				if !c18Sym([]ast.Stmt{e}, el) {
					return false
				}
			}
			c18Merge(env, cond, th, el)
		case *ast.SwitchStmt:
			if s.Init != nil && !c18Sym([]ast.Stmt{s.Init}, env) {
				return false
			}
			tag := ""
			if s.Tag != nil {
				tag = c18Canon(s.Tag, env)
			}
			// decision list: cases in order, default last
			type arm struct {
				cond string
				body []ast.Stmt
			}
			var arms []arm
			var def []ast.Stmt
			for _, cc := range s.Body.List {
				c := cc.(*ast.CaseClause)
				if c.List == nil {
					def = c.Body
					continue
				}
				var alts []string
				for _, x := range c.List {
					v := c18Canon(x, env)
					if s.Tag != nil {
						a, b := tag, v
						if b < a {
							a, b = b, a
						}
						v = "(" + a + " == " + b + ")"
					}
					alts = append(alts, v)
				}
				sort.Strings(alts)
				arms = append(arms, arm{strings.Join(alts, " || "), c.Body})
			}
			res := env.clone()
			if !c18Sym(def, res) {
				return false
			}
			for i := len(arms) - 1; i >= 0; i-- {
				th := env.clone()
				if !c18Sym(arms[i].body, th) {
					return false
				}
				merged := env.clone()
				c18Merge(merged, arms[i].cond, th, res)
				res = merged
			}
			for k, v := range res {
				env[k] = v
			}
		case *ast.ExprStmt, *ast.EmptyStmt:
			// a call for its effect: not part of the arithmetic
		default:
			return false
		}
	}
	return true
}

func c18Merge(env c18Env, cond string, th, el c18Env) {
	keys := map[string]bool{}
	for k := range th {
		keys[k] = true
	}
	for k := range el {
		keys[k] = true
	}
	for k := range keys {
		a, okA := th[k]
		b, okB := el[k]
		if !okA {
			a = k
		}
		if !okB {
			b = k
		}
		env[k] = c18Ite(cond, a, b)
	}
}

// ------------------------------------------------------------ helpers over methods

// c18Methods returns the methods of the package by name.
func c18Methods(files []*ast.File) map[string]*ast.FuncDecl {
	m := map[string]*ast.FuncDecl{}
	for _, f := range files {
		for _, d := range f.Decls {
			if fd, ok := d.(*ast.FuncDecl); ok && fd.Recv != nil && fd.Body != nil {
				m[fd.Name.Name] = fd
			}
		}
	}
	return m
}

// c18Event is one call / map operation / return met while walking a body.
type c18Event struct {
	kind  string // name of the event
	depth int    // block nesting depth (0 = function body)
	block int    // id of the innermost block
	arg   string // for returns: the canonical result
}

// c18Walk linearises a method body into events; calls to same-receiver
// methods that are not themselves named events are inlined (two levels).
func c18Walk(body *ast.BlockStmt, recv string, methods map[string]*ast.FuncDecl, named map[string]bool, inline int) []c18Event {
	var evs []c18Event
	blockID := 0
	var walk func(n ast.Node, depth, block int, inl int, top bool)
	walk = func(n ast.Node, depth, block int, inl int, top bool) {
		switch x := n.(type) {
		case nil:
			return
		case *ast.BlockStmt:
			blockID++
			id := blockID
			for _, st := range x.List {
				walk(st, depth+1, id, inl, top)
			}
			return
		case *ast.RangeStmt:
			// "remove everything from the map": range over the map
			// with a delete of the same map inside
			m := exprString(x.X)
			del := false
			ast.Inspect(x.Body, func(k ast.Node) bool {
				if c, ok := k.(*ast.CallExpr); ok && exprString(c.Fun) == "delete" && len(c.Args) == 2 && exprString(c.Args[0]) == m {
					del = true
				}
				return true
			})
			if del {
				evs = append(evs, c18Event{kind: "deleteAll:" + m, depth: depth, block: block})
				return
			}
		case *ast.ReturnStmt:
			if top {
				r := ""
				for i, e := range x.Results {
					if i > 0 {
						r += ","
					}
					r += exprString(e)
				}
				// calls inside the returned expression come first
				for _, e := range x.Results {
					walk(e, depth, block, inl, top)
				}
				evs = append(evs, c18Event{kind: "return", depth: depth, block: block, arg: r})
				return
			}
		case *ast.FuncLit:
			return
		case *ast.CallExpr:
			for _, a := range x.Args {
				walk(a, depth, block, inl, top)
			}
			f := exprString(x.Fun)
			if strings.HasPrefix(f, recv+".") {
				name := strings.TrimPrefix(f, recv+".")
				if named[name] {
					evs = append(evs, c18Event{kind: name, depth: depth, block: block})
					return
				}
				if fd, ok := methods[name]; ok && inl > 0 && !strings.Contains(name, ".") {
					// inline the helper at this position
					for _, st := range fd.Body.List {
						walk(st, depth, block, inl-1, false)
					}
					return
				}
			}
			if f == "delete" && len(x.Args) == 2 {
				evs = append(evs, c18Event{kind: "delete:" + exprString(x.Args[0]), depth: depth, block: block})
			}
			return
		}
		// generic traversal of children, in source order
		var kids []ast.Node
		ast.Inspect(n, func(k ast.Node) bool {
			if k == nil || k == n {
				return k == n
			}
			kids = append(kids, k)
			return false
		})
		for _, k := range kids {
			walk(k, depth, block, inl, top)
		}
	}
	blockID = 0
	for _, st := range body.List {
		walk(st, 0, 0, inline, true)
	}
	return evs
}

// c18Flat returns the statements/expressions of a body in source (pre-)order
// with calls to same-receiver helper methods (`recv.<name>(…)`, not in
// `stop`) replaced by the helper's body, `levels` deep.
func c18Flat(body *ast.BlockStmt, recv string, methods map[string]*ast.FuncDecl, stop map[string]bool, levels int) []ast.Node {
	var out []ast.Node
	var walk func(n ast.Node, lv int)
	walk = func(n ast.Node, lv int) {
		ast.Inspect(n, func(k ast.Node) bool {
			if k == nil {
				return false
			}
			if _, ok := k.(*ast.FuncLit); ok {
				return false
			}
			out = append(out, k)
			if c, ok := k.(*ast.CallExpr); ok && lv > 0 {
				f := exprString(c.Fun)
				if strings.HasPrefix(f, recv+".") {
					name := strings.TrimPrefix(f, recv+".")
					if fd, ok := methods[name]; ok && !stop[name] && !strings.Contains(name, ".") {
						for _, a := range c.Args {
							walk(a, lv)
						}
						walk(fd.Body, lv-1)
						return false
					}
				}
			}
			return true
		})
	}
	walk(body, levels)
	return out
}

func c18First(evs []c18Event, kind string) int {
	for i, e := range evs {
		if e.kind == kind {
			return i
		}
	}
	return -1
}

// ------------------------------------------------------------ the job

func genC18Sem() {
	l := newLean("C18Sem", "Semantic essentials of auctioneer/{client,err_chan_switch,account_subscription}.go and rpcserver.go (what is called, in which order where it matters, under which guard), robust against behaviour-preserving refactorings.")
	l.p("namespace Pool.Gen.C18Sem")
	auct := pkgFiles("auctioneer")
	methods := c18Methods(auct)

	// ================= backoff arithmetic of connectServerStream =================
	css := methods["connectServerStream"]
	if css == nil {
		fail("connectServerStream not found")
		return
	}
	var loop *ast.ForStmt
	ast.Inspect(css.Body, func(n ast.Node) bool {
		if f, ok := n.(*ast.ForStmt); ok && loop == nil {
			loop = f
		}
		return true
	})
	if loop == nil {
		fail("connectServerStream: retry loop not found")
		return
	}
	params := []string{}
	for _, f := range css.Type.Params.List {
		for _, n := range f.Names {
			params = append(params, n.Name)
		}
	}
	// the variable that is waited for: argument of c.wait(...)
	waitVar, waitGuard := "", ""
	termsAt := -1
	for i, st := range loop.Body.List {
		if is, ok := st.(*ast.IfStmt); ok && waitVar == "" {
			ast.Inspect(is.Body, func(n ast.Node) bool {
				if c, ok := n.(*ast.CallExpr); ok && exprString(c.Fun) == "c.wait" && len(c.Args) == 1 {
					waitVar = exprString(c.Args[0])
					waitGuard = c18Canon(is.Cond, c18Env{waitVar: "b"})
				}
				return true
			})
		}
		if strings.Contains(c18NodeString(st), "c.client.Terms(") && termsAt < 0 {
			termsAt = i
		}
	}
	if waitVar == "" || termsAt < 0 {
		fail("connectServerStream: wait / Terms probe not found")
		return
	}
	// statements after the success test (`if err == nil { … break }`)
	after := -1
	for i := termsAt; i < len(loop.Body.List); i++ {
		if is, ok := loop.Body.List[i].(*ast.IfStmt); ok {
			hasBreak := false
			ast.Inspect(is.Body, func(n ast.Node) bool {
				if b, ok := n.(*ast.BranchStmt); ok && b.Tok == token.BREAK {
					hasBreak = true
				}
				return true
			})
			if hasBreak {
				after = i + 1
				break
			}
		}
	}
	update := "?"
	if after > 0 {
		env := c18Env{waitVar: "b"}
		// stop at the first statement that is not arithmetic on locals
		// (the "will try again" logging `if`)
		var arith []ast.Stmt
		for _, st := range loop.Body.List[after:] {
			if is, ok := st.(*ast.IfStmt); ok {
				onlyLog := true
				for _, b := range is.Body.List {
					if !c18IsLog(b) {
						onlyLog = false
					}
				}
				if onlyLog && is.Else == nil {
					continue
				}
			}
			arith = append(arith, st)
		}
		if c18Sym(arith, env) {
			update = env[waitVar]
		}
	}
	// where the waited variable starts: a `var (… x = <param> …)` or `x := <param>`
	initFrom := "?"
	ast.Inspect(css.Body, func(n ast.Node) bool {
		switch x := n.(type) {
		case *ast.ValueSpec:
			for i, nm := range x.Names {
				if nm.Name == waitVar && i < len(x.Values) {
					initFrom = exprString(x.Values[i])
				}
			}
		case *ast.AssignStmt:
			if x.Tok == token.DEFINE && len(x.Lhs) == 1 && exprString(x.Lhs[0]) == waitVar && initFrom == "?" {
				initFrom = exprString(x.Rhs[0])
			}
		}
		return true
	})
	initParam := -1
	for i, p := range params {
		if p == initFrom {
			initParam = i
		}
	}
	// loop bound: counts a fresh variable from 0 while < param
	boundParam := -1
	if as, ok := loop.Init.(*ast.AssignStmt); ok && len(as.Lhs) == 1 && exprString(as.Rhs[0]) == "0" && loop.Cond != nil {
		iv := exprString(as.Lhs[0])
		c := c18Canon(loop.Cond, c18Env{iv: "i"})
		for i, p := range params {
			if c == "(i < "+p+")" {
				boundParam = i
			}
		}
		if inc, ok := loop.Post.(*ast.IncDecStmt); !ok || inc.Tok != token.INC || exprString(inc.X) != iv {
			boundParam = -1
		}
	}
	l.p("/-- value of the waited duration after a failed attempt, as a function of its value `b` before (canonical form) -/")
	l.p("def backoffUpdate : String := %q", update)
	l.p("/-- guard under which `c.wait(b)` is called before an attempt -/")
	l.p("def waitGuard : String := %q", waitGuard)
	l.p("/-- index of the parameter the waited duration starts from / of the parameter bounding the number of attempts -/")
	l.p("def backoffInitParam : Int := %d", initParam)
	l.p("def retryBoundParam : Int := %d", boundParam)

	// call sites: first argument symbol, second argument value
	ce := newConstEnv(auct)
	// (first argument as a symbol, second argument as a number); "" / 0 when
	// the function has not exactly one call site
	site2 := func(fd *ast.FuncDecl) (string, string) {
		var a0s, a1s []string
		ast.Inspect(fd.Body, func(n ast.Node) bool {
			if c, ok := n.(*ast.CallExpr); ok && exprString(c.Fun) == "c.connectServerStream" && len(c.Args) == 2 {
				a1 := exprString(c.Args[1])
				if v, ok := ce.get(a1); ok {
					a1 = v.ExactString()
				}
				a0s = append(a0s, c18Canon(c.Args[0], c18Env{}))
				a1s = append(a1s, a1)
			}
			return true
		})
		if len(a0s) != 1 {
			return "", "0"
		}
		for _, ch := range a1s[0] {
			if ch < '0' || ch > '9' {
				return a0s[0], "0"
			}
		}
		return a0s[0], a1s[0]
	}
	site := func(fd *ast.FuncDecl) string { a, _ := site2(fd); return a }
	hss := methods["HandleServerShutdown"]
	caa := methods["connectAndAuthenticate"]
	if hss == nil || caa == nil {
		fail("HandleServerShutdown / connectAndAuthenticate not found")
		return
	}
	// the reconnect body: HandleServerShutdown itself or the helper it calls
	// that closes and re-opens the stream (whatever its name)
	body := hss
	bodyName := ""
	if site(hss) == "" {
		ast.Inspect(hss.Body, func(n ast.Node) bool {
			if c, ok := n.(*ast.CallExpr); ok {
				f := exprString(c.Fun)
				if strings.HasPrefix(f, "c.") {
					if fd, ok := methods[strings.TrimPrefix(f, "c.")]; ok && site(fd) != "" && fd != caa {
						body, bodyName = fd, fd.Name.Name
					}
				}
			}
			return true
		})
	}
	fi, fr := site2(caa)
	ri, rr := site2(body)
	l.p("/-- `connectServerStream(<init>, <retries>)` as called on a first connect / on a reconnect (MIN = c.cfg.MinBackoff) -/")
	l.p("def firstConnectInit : String := %q", fi)
	l.p("def firstConnectRetries : Nat := %s", fr)
	l.p("def reconnectInit : String := %q", ri)
	l.p("def reconnectRetriesArg : Nat := %s", rr)

	// ================= ErrChanSwitch =================
	run := methods["run"]
	if run == nil {
		fail("ErrChanSwitch.run not found")
		return
	}
	// functions that make up the forwarding: run + the s.<helper>() it calls
	fwd := []*ast.FuncDecl{run}
	recvVar := ""
	ast.Inspect(run.Body, func(n ast.Node) bool {
		if cc, ok := n.(*ast.CommClause); ok {
			if as, ok := cc.Comm.(*ast.AssignStmt); ok && len(as.Rhs) == 1 && exprString(as.Rhs[0]) == "<-s.incomingChan" {
				recvVar = exprString(as.Lhs[0])
			}
		}
		return true
	})
	type sendInfo struct {
		guard, ch        string
		locked, quit, ok bool
	}
	var sends []sendInfo
	recvQuit := false
	forwardsReceived := true
	divertedUnderLock := true
	var scan func(fd *ast.FuncDecl, val string, depth int)
	scan = func(fd *ast.FuncDecl, val string, depth int) {
		// positions of Lock / Unlock / defer Unlock in this function
		lockPos, unlockPos, deferUnlock := token.NoPos, token.NoPos, false
		ast.Inspect(fd.Body, func(n ast.Node) bool {
			switch x := n.(type) {
			case *ast.DeferStmt:
				if exprString(x.Call) == "s.Unlock()" {
					deferUnlock = true
				}
				return false
			case *ast.CallExpr:
				switch exprString(x) {
				case "s.Lock()":
					if lockPos == token.NoPos {
						lockPos = x.Pos()
					}
				case "s.Unlock()":
					unlockPos = x.Pos()
				}
			}
			return true
		})
		held := func(p token.Pos) bool {
			return lockPos != token.NoPos && lockPos < p && (deferUnlock || unlockPos > p)
		}
		// conditional (re)assignments of local channel variables
		type asg struct{ guard, val string }
		locals := map[string][]asg{}
		var visit func(n ast.Node, guard string)
		visit = func(n ast.Node, guard string) {
			switch x := n.(type) {
			case nil:
				return
			case *ast.IfStmt:
				c := c18Canon(x.Cond, c18Env{})
				if strings.Contains(c, "s.diverted") && !held(x.Pos()) {
					divertedUnderLock = false
				}
				visit(x.Body, c)
				if x.Else != nil {
					visit(x.Else, c18Not(c))
				}
				return
			case *ast.AssignStmt:
				if len(x.Lhs) == 1 && len(x.Rhs) == 1 {
					if id, ok := x.Lhs[0].(*ast.Ident); ok {
						locals[id.Name] = append(locals[id.Name], asg{guard, exprString(x.Rhs[0])})
					}
				}
			case *ast.SelectStmt:
				// does this select honour quit?
				q := false
				for _, c := range x.Body.List {
					cc := c.(*ast.CommClause)
					if cc.Comm != nil && strings.Contains(c18NodeString(cc.Comm), "<-s.quit") {
						q = true
					}
				}
				for _, c := range x.Body.List {
					cc := c.(*ast.CommClause)
					if ss, ok := cc.Comm.(*ast.SendStmt); ok {
						if exprString(ss.Value) != val {
							forwardsReceived = false
						}
						ch := exprString(ss.Chan)
						if as, ok := locals[ch]; ok {
							// a local: one entry per assignment; the
							// unconditional one holds when no later guard does
							var others []string
							for _, a := range as {
								if a.guard != "" {
									others = append(others, a.guard)
									sends = append(sends, sendInfo{a.guard, a.val, held(ss.Pos()), q, true})
								}
							}
							for _, a := range as {
								if a.guard == "" {
									g := ""
									for _, o := range others {
										g += c18Not(o)
									}
									sends = append(sends, sendInfo{g, a.val, held(ss.Pos()), q, true})
								}
							}
						} else {
							sends = append(sends, sendInfo{guard, ch, held(ss.Pos()), q, true})
						}
					}
					if as, ok := cc.Comm.(*ast.AssignStmt); ok && len(as.Rhs) == 1 && exprString(as.Rhs[0]) == "<-s.incomingChan" && q {
						recvQuit = true
					}
					for _, st := range cc.Body {
						visit(st, guard)
					}
				}
				return
			case *ast.CallExpr:
				f := exprString(x.Fun)
				if strings.HasPrefix(f, "s.") && depth > 0 {
					if h, ok := methods[strings.TrimPrefix(f, "s.")]; ok && h != fd {
						// the helper gets the received value as the
						// parameter at the position it is passed
						pv := ""
						pi := 0
						for _, pf := range h.Type.Params.List {
							for _, pn := range pf.Names {
								if pi < len(x.Args) && exprString(x.Args[pi]) == val {
									pv = pn.Name
								}
								pi++
							}
						}
						if pv != "" {
							fwd = append(fwd, h)
							scan(h, pv, depth-1)
						}
					}
				}
			case *ast.FuncLit:
				return
			}
			var kids []ast.Node
			ast.Inspect(n, func(k ast.Node) bool {
				if k == nil || k == n {
					return k == n
				}
				kids = append(kids, k)
				return false
			})
			for _, k := range kids {
				visit(k, guard)
			}
		}
		visit(fd.Body, "")
	}
	scan(run, recvVar, 2)
	var routing []string
	allLocked, allQuit := len(sends) > 0, len(sends) > 0
	for _, s := range sends {
		routing = append(routing, s.guard+" -> "+s.ch)
		allLocked = allLocked && s.locked
		allQuit = allQuit && s.quit
	}
	sort.Strings(routing)
	l.p("/-- every send of a received error: guard -> channel (sorted) -/")
	l.p("def switchRouting : List String := %s", leanStrList(routing))
	l.p("def switchSendsUnderMutex : Bool := %s", c18Bool(allLocked))
	l.p("def switchDivertedReadUnderMutex : Bool := %s", c18Bool(divertedUnderLock))
	l.p("def switchSendsHonourQuit : Bool := %s", c18Bool(allQuit))
	l.p("def switchRecvHonoursQuit : Bool := %s", c18Bool(recvQuit))
	l.p("def switchForwardsReceived : Bool := %s", c18Bool(forwardsReceived && recvVar != ""))
	// Divert / Restore: whole body under the mutex, fields set
	setter := func(name string) (bool, []string) {
		fd := methods[name]
		if fd == nil {
			fail("ErrChanSwitch.%s not found", name)
			return false, nil
		}
		p0 := ""
		if len(fd.Type.Params.List) > 0 && len(fd.Type.Params.List[0].Names) > 0 {
			p0 = fd.Type.Params.List[0].Names[0].Name
		}
		locked := len(fd.Body.List) >= 2 && c18NodeString(fd.Body.List[0]) == "s.Lock()" &&
			c18NodeString(fd.Body.List[1]) == "defer s.Unlock()"
		var sets []string
		for _, st := range fd.Body.List {
			if as, ok := st.(*ast.AssignStmt); ok && len(as.Lhs) == 1 {
				v := exprString(as.Rhs[0])
				if v == p0 && p0 != "" {
					v = "<arg>"
				}
				sets = append(sets, exprString(as.Lhs[0])+" = "+v)
			}
		}
		sort.Strings(sets)
		return locked, sets
	}
	dl, ds := setter("Divert")
	rl, rs := setter("Restore")
	l.p("def divertLocked : Bool := %s", c18Bool(dl))
	l.p("def divertSets : List String := %s", leanStrList(ds))
	l.p("def restoreLocked : Bool := %s", c18Bool(rl))
	l.p("def restoreSets : List String := %s", leanStrList(rs))

	// ================= reconnect body =================
	named0 := map[string]bool{"closeStream": true, "connectServerStream": true, "checkPendingBatch": true,
		"StartAccountSubscription": true, "keepSubscriptions": true, "HandleServerShutdown": true}
	named := map[string]bool{"closeStream": true, "connectServerStream": true, "checkPendingBatch": true,
		"StartAccountSubscription": true, "keepSubscriptions": true, "HandleServerShutdown": true}
	evs := c18Walk(body.Body, "c", methods, named, 2)
	pos := func(k string) int { return c18First(evs, k) }
	order := pos("closeStream") >= 0 && pos("closeStream") < pos("connectServerStream") &&
		pos("connectServerStream") < pos("checkPendingBatch") &&
		pos("checkPendingBatch") < pos("StartAccountSubscription")
	delBeforeResub := pos("deleteAll:c.subscribedAccts") >= 0
	{
		// the map is emptied before the first re-subscription on the
		// success path: a deleteAll at the top block level before it
		ok := false
		for i, e := range evs {
			if e.kind == "deleteAll:c.subscribedAccts" && i < pos("StartAccountSubscription") && e.depth <= 1 {
				ok = true
			}
		}
		delBeforeResub = ok
	}
	// every error return that can follow a deleteAll keeps the accounts
	keepOnFailure := true
	nErrReturns := 0
	for i, e := range evs {
		if e.kind != "return" || e.arg == "nil" || e.arg == "" {
			continue
		}
		nErrReturns++
		delBefore := false
		for _, p := range evs[:i] {
			if strings.HasPrefix(p.kind, "deleteAll:") {
				delBefore = true
			}
		}
		if !delBefore {
			continue
		}
		kept := false
		for _, p := range evs[:i] {
			if p.kind == "keepSubscriptions" && p.block == e.block {
				kept = true
			}
		}
		if !kept {
			keepOnFailure = false
		}
	}
	// the failing pending-batch check: its own block empties the map and keeps
	batchFailKeeps := false
	for i, e := range evs {
		if e.kind == "checkPendingBatch" {
			// the next return in a deeper block
			for j := i + 1; j < len(evs); j++ {
				if evs[j].kind == "return" && evs[j].depth > e.depth-0 && evs[j].arg != "nil" {
					d, k := false, false
					for _, p := range evs[i+1 : j] {
						if p.block == evs[j].block && strings.HasPrefix(p.kind, "deleteAll:") {
							d = true
						}
						if p.block == evs[j].block && p.kind == "keepSubscriptions" {
							k = true
						}
					}
					batchFailKeeps = d && k
					break
				}
				if evs[j].kind == "StartAccountSubscription" {
					break
				}
			}
		}
	}
	l.p("/-- closeStream < connectServerStream < checkPendingBatch < first StartAccountSubscription -/")
	l.p("def reconnectOrder : Bool := %s", c18Bool(order))
	l.p("/-- the map is emptied before the accounts are re-subscribed -/")
	l.p("def reconnectEmptiesMapFirst : Bool := %s", c18Bool(delBeforeResub))
	l.p("/-- every error return that can follow the emptying of the map is preceded, in its block, by keepSubscriptions -/")
	l.p("def reconnectKeepsOnFailure : Bool := %s", c18Bool(keepOnFailure && nErrReturns > 0))
	l.p("/-- a failing checkPendingBatch empties the map and keeps every account before returning -/")
	l.p("def batchFailureKeeps : Bool := %s", c18Bool(batchFailKeeps))

	// HandleServerShutdown as a loop that starts over while dirty (the
	// bookkeeping may live in same-receiver helpers)
	incBefore, decBeforeRet, dirtyRestart := false, false, false
	if bodyName != "" {
		var loopH *ast.ForStmt
		for _, st := range hss.Body.List {
			if f, ok := st.(*ast.ForStmt); ok {
				loopH = f
				break
			}
			for _, n := range c18Flat(&ast.BlockStmt{List: []ast.Stmt{st}}, "c", methods, named0, 1) {
				if i, ok := n.(*ast.IncDecStmt); ok && i.Tok == token.INC {
					incBefore = true
				}
			}
		}
		if loopH != nil {
			callsBody, reset, dec, ret := false, false, false, false
			stop := map[string]bool{bodyName: true}
			for k := range named0 {
				stop[k] = true
			}
			for _, n := range c18Flat(loopH.Body, "c", methods, stop, 1) {
				switch x := n.(type) {
				case *ast.CallExpr:
					if exprString(x.Fun) == "c."+bodyName {
						callsBody = true
					}
				case *ast.IfStmt:
					// if <flag> { <flag> = false; … }
					flag := c18Canon(x.Cond, c18Env{})
					for _, b := range x.Body.List {
						if as, ok := b.(*ast.AssignStmt); ok && len(as.Lhs) == 1 && exprString(as.Lhs[0]) == flag && exprString(as.Rhs[0]) == "false" {
							reset = true
						}
					}
				case *ast.IncDecStmt:
					if x.Tok == token.DEC {
						dec = true
					}
				case *ast.ReturnStmt:
					ret = true
				}
			}
			dirtyRestart = callsBody && reset && loopH.Cond == nil
			decBeforeRet = dec && ret
		}
	}
	l.p("/-- HandleServerShutdown counts itself, calls the reconnect body in a loop that starts over while the dirty flag is")
	l.p("set (resetting it), and un-counts itself before returning -/")
	l.p("def shutdownStartsOverWhileDirty : Bool := %s", c18Bool(incBefore && dirtyRestart && decBeforeRet))

	// the reader's reaction to a SERVER_SHUTDOWN notice
	noticeOnlyMarks := false
	noticeElseHandles := false
	if rd := methods["readIncomingStream"]; rd != nil {
		ast.Inspect(rd.Body, func(n ast.Node) bool {
			cc, ok := n.(*ast.CaseClause)
			if !ok {
				return true
			}
			hit := false
			for _, e := range cc.List {
				if exprString(e) == "auctioneerrpc.SubscribeError_SERVER_SHUTDOWN" {
					hit = true
				}
			}
			if !hit {
				return true
			}
			sawGuarded := false
			for _, st := range cc.Body {
				if is, ok := st.(*ast.IfStmt); ok && !sawGuarded {
					c := c18Canon(is.Cond, c18Env{})
					if strings.HasPrefix(c, "(0 < ") {
						setTrue, closes, rets, handles := false, false, false, false
						ast.Inspect(is.Body, func(m ast.Node) bool {
							switch x := m.(type) {
							case *ast.AssignStmt:
								if len(x.Rhs) == 1 && exprString(x.Rhs[0]) == "true" {
									setTrue = true
								}
							case *ast.CallExpr:
								switch exprString(x.Fun) {
								case "c.closeStream":
									closes = true
								case "c.HandleServerShutdown":
									handles = true
								}
							case *ast.ReturnStmt:
								rets = true
							}
							return true
						})
						noticeOnlyMarks = setTrue && closes && rets && !handles
						sawGuarded = true
						continue
					}
				}
				if sawGuarded && strings.Contains(c18NodeString(st), "c.HandleServerShutdown(nil)") {
					noticeElseHandles = true
				}
				if !sawGuarded && strings.Contains(c18NodeString(st), "c.HandleServerShutdown(nil)") {
					noticeElseHandles = true
				}
			}
			return false
		})
	}
	l.p("/-- on a shutdown notice with a reconnect in progress the reader only sets the dirty flag, closes the stream and")
	l.p("returns; otherwise it runs HandleServerShutdown(nil) -/")
	l.p("def noticeOnlyMarksWhileReconnecting : Bool := %s", c18Bool(noticeOnlyMarks))
	l.p("def noticeElseHandles : Bool := %s", c18Bool(noticeElseHandles))

	// ================= connectAndAuthenticate =================
	cev := c18Walk(caa.Body, "c", methods, map[string]bool{"connectServerStream": true, "checkPendingBatch": true,
		"HandleServerShutdown": true, "SendAuctionMessage": true}, 0)
	_ = cev
	posOf := func(sub string) token.Pos {
		p := token.NoPos
		ast.Inspect(caa.Body, func(n ast.Node) bool {
			if p != token.NoPos {
				return false
			}
			switch x := n.(type) {
			case *ast.CallExpr:
				if exprString(x.Fun) == sub {
					p = x.Pos()
				}
			case *ast.AssignStmt:
				if len(x.Lhs) == 1 && strings.HasPrefix(exprString(x.Lhs[0]), sub) {
					p = x.Pos()
				}
			}
			return true
		})
		return p
	}
	pDivert, pInsert := posOf("c.errChanSwitch.Divert"), posOf("c.subscribedAccts[")
	pAuth := token.NoPos
	ast.Inspect(caa.Body, func(n ast.Node) bool {
		if c, ok := n.(*ast.CallExpr); ok && strings.HasSuffix(exprString(c.Fun), ".authenticate") && pAuth == token.NoPos {
			pAuth = c.Pos()
		}
		return true
	})
	deferRestore := false
	inline := 0
	deletes := 0
	handles := false
	caaStop := map[string]bool{"HandleServerShutdown": true, "connectServerStream": true, "checkPendingBatch": true,
		"SendAuctionMessage": true, "StartAccountSubscription": true}
	for _, n := range c18Flat(caa.Body, "c", methods, caaStop, 1) {
		switch x := n.(type) {
		case *ast.DeferStmt:
			if exprString(x.Call) == "c.errChanSwitch.Restore()" && x.Pos() > pDivert {
				deferRestore = true
			}
		case *ast.BinaryExpr:
			// <x> == ErrServerErrored / <x> != ErrServerErrored
			if (x.Op == token.EQL || x.Op == token.NEQ) &&
				(exprString(x.X) == "ErrServerErrored" || exprString(x.Y) == "ErrServerErrored") {
				inline++
			}
		case *ast.CallExpr:
			f := exprString(x.Fun)
			if f == "errors.Is" && len(x.Args) == 2 && exprString(x.Args[1]) == "ErrServerErrored" {
				inline++
			}
			if f == "c.HandleServerShutdown" && len(x.Args) == 1 && exprString(x.Args[0]) == "nil" {
				handles = true
			}
			if f == "delete" && len(x.Args) == 2 && exprString(x.Args[0]) == "c.subscribedAccts" {
				deletes++
			}
		}
	}
	if !handles {
		inline = 0
	}
	l.p("/-- Divert < map insertion < authenticate, Restore deferred after Divert -/")
	l.p("def subscribeOrder : Bool := %s", c18Bool(pDivert != token.NoPos && pDivert < pInsert && pInsert < pAuth && deferRestore))
	l.p("/-- number of tests for ErrServerErrored (==, !=, errors.Is) in connectAndAuthenticate and its same-receiver helpers,")
	l.p("0 unless HandleServerShutdown(nil) is called there -/")
	l.p("def inlineReconnects : Nat := %d", inline)
	l.p("/-- connectAndAuthenticate never removes an entry from the map -/")
	l.p("def subscribeNeverDeletes : Bool := %s", c18Bool(deletes == 0))

	// ================= authenticate =================
	auth := methods["authenticate"]
	if auth == nil {
		fail("acctSubscription.authenticate not found")
		return
	}
	var calls []string
	commitToField, hashArgs, signArgs := false, false, false
	copies := map[string]string{} // dst local -> source expr of copy(dst[:], src)
	hashVar := ""
	for _, n := range c18Flat(auth.Body, "s", methods, map[string]bool{"sendMsg": true}, 1) {
		switch x := n.(type) {
		case *ast.AssignStmt:
			if len(x.Rhs) == 1 {
				if c, ok := x.Rhs[0].(*ast.CallExpr); ok {
					switch exprString(c.Fun) {
					case "account.CommitAccount":
						if exprString(x.Lhs[0]) == "s.commitHash" {
							commitToField = true
						}
					case "account.AuthHash":
						hashVar = exprString(x.Lhs[0])
					}
				}
			}
		case *ast.CallExpr:
			f := exprString(x.Fun)
			switch f {
			case "copy":
				if len(x.Args) == 2 {
					copies[strings.TrimSuffix(exprString(x.Args[0]), "[:]")] = exprString(x.Args[1])
				}
			case "account.CommitAccount", "account.AuthHash", "s.signer.SignMessage", "s.sendMsg":
				calls = append(calls, f)
				if f == "account.AuthHash" && len(x.Args) == 2 {
					hashArgs = exprString(x.Args[0]) == "s.commitHash" &&
						strings.HasSuffix(copies[exprString(x.Args[1])], ".Challenge.Challenge")
				}
				if f == "s.signer.SignMessage" && len(x.Args) >= 3 {
					signArgs = exprString(x.Args[1]) == hashVar+"[:]" && exprString(x.Args[2]) == "s.acctKey.KeyLocator"
				}
			}
		}
	}
	l.p("/-- order of the hashing / signing / sending calls of authenticate -/")
	l.p("def authenticateCalls : List String := %s", leanStrList(calls))
	l.p("def commitStoredInSubscription : Bool := %s", c18Bool(commitToField))
	l.p("/-- AuthHash(s.commitHash, <copy of msg.Challenge.Challenge>) ; SignMessage(<that hash>[:], s.acctKey.KeyLocator) -/")
	l.p("def authHashOfCommitAndChallenge : Bool := %s", c18Bool(hashArgs))
	l.p("def signsAuthHashWithAccountKey : Bool := %s", c18Bool(signArgs))

	// ================= rpcServer.serverHandler =================
	root := pkgFiles(".")
	sh := findFunc(root, "rpcServer.serverHandler")
	if sh == nil {
		fail("rpcServer.serverHandler not found")
		return
	}
	conj := func(s string) []string {
		s = strings.TrimPrefix(strings.TrimSuffix(s, ")"), "(")
		parts := strings.Split(s, " && ")
		for i := range parts {
			parts[i] = strings.Trim(parts[i], "()")
		}
		sort.Strings(parts)
		return parts
	}
	var guard, retry []string
	retryAssigns := false
	ast.Inspect(sh.Body, func(n ast.Node) bool {
		cc, ok := n.(*ast.CommClause)
		if !ok || cc.Comm == nil || !strings.Contains(c18NodeString(cc.Comm), "StreamErrChan") {
			return true
		}
		ev := ""
		if as, ok := cc.Comm.(*ast.AssignStmt); ok {
			ev = exprString(as.Lhs[0])
		}
		for _, st := range cc.Body {
			is, ok := st.(*ast.IfStmt)
			if !ok {
				continue
			}
			calls := false
			ast.Inspect(is.Body, func(m ast.Node) bool {
				switch x := m.(type) {
				case *ast.ForStmt:
					if x.Cond != nil {
						retry = conj(c18Canon(x.Cond, c18Env{ev: "e"}))
					}
				case *ast.AssignStmt:
					if len(x.Rhs) == 1 && strings.Contains(exprString(x.Rhs[0]), "HandleServerShutdown(") &&
						exprString(x.Lhs[0]) == ev {
						retryAssigns = true
					}
				case *ast.CallExpr:
					if strings.HasSuffix(exprString(x.Fun), "HandleServerShutdown") {
						calls = true
					}
				}
				return true
			})
			if calls {
				guard = conj(c18Canon(is.Cond, c18Env{ev: "e"}))
			}
		}
		return false
	})
	l.p("/-- serverHandler on an error `e` from StreamErrChan: conjuncts of the guard of the reconnect, conjuncts of the")
	l.p("condition of its retry loop, and whether the loop feeds HandleServerShutdown's result back into `e` -/")
	l.p("def handlerGuard : List String := %s", leanStrList(guard))
	l.p("def handlerRetryWhile : List String := %s", leanStrList(retry))
	l.p("def handlerRetryFeedsBack : Bool := %s", c18Bool(retryAssigns))
	l.p("end Pool.Gen.C18Sem")
	_ = fmt.Sprint
}
