//go:build verif

package main

import (
	"go/ast"
	"go/token"
	"sort"
	"strconv"
	"strings"
)

// Semantic helpers of the C16 extractors: conditions are canonicalised
// (operand order of ==/!=, direction of </<=, parentheses, once-assigned
// locals replaced by their defining expression), conjunctions become sorted
// atom lists, and small state functions (if-chains, tagged / tagless switches,
// same-package helpers) are EVALUATED over the state enum instead of being
// matched by shape.

// c16OnceAssigned maps locals that are defined exactly once (`x := e`, never
// assigned again) in fn to their defining expression.
func c16OnceAssigned(body ast.Node) map[string]ast.Expr {
	count := map[string]int{}
	def := map[string]ast.Expr{}
	ast.Inspect(body, func(n ast.Node) bool {
		switch x := n.(type) {
		case *ast.AssignStmt:
			for i, l := range x.Lhs {
				id, ok := l.(*ast.Ident)
				if !ok || id.Name == "_" {
					continue
				}
				count[id.Name]++
				if x.Tok == token.DEFINE && len(x.Lhs) == len(x.Rhs) {
					def[id.Name] = x.Rhs[i]
				} else if x.Tok == token.DEFINE && len(x.Rhs) == 1 {
					// `a, b := f(...)`: the i-th result of that call
					if c, ok := x.Rhs[0].(*ast.CallExpr); ok {
						def[id.Name] = ast.NewIdent(exprString(c.Fun) + "()#" + strconv.Itoa(i))
					}
				}
			}
		case *ast.DeclStmt:
			if gd, ok := x.Decl.(*ast.GenDecl); ok && gd.Tok == token.VAR {
				for _, sp := range gd.Specs {
					vs, ok := sp.(*ast.ValueSpec)
					if !ok {
						continue
					}
					for i, n := range vs.Names {
						count[n.Name]++
						if len(vs.Values) == len(vs.Names) {
							def[n.Name] = vs.Values[i]
						} else {
							count[n.Name]++ // declared without value: assigned later
						}
					}
				}
			}
		case *ast.IncDecStmt:
			if id, ok := x.X.(*ast.Ident); ok {
				count[id.Name] += 2
			}
		case *ast.RangeStmt:
			for _, e := range []ast.Expr{x.Key, x.Value} {
				if id, ok := e.(*ast.Ident); ok {
					count[id.Name] += 2
				}
			}
		}
		return true
	})
	res := map[string]ast.Expr{}
	for n, e := range def {
		if count[n] == 1 {
			res[n] = e
		}
	}
	return res
}

// c16FuncSubst: once-assigned locals of a function plus its parameters
// (renamed to their position, so that their names do not matter).
func c16FuncSubst(fd *ast.FuncDecl) map[string]ast.Expr {
	res := c16OnceAssigned(fd.Body)
	k := 0
	if fd.Type.Params != nil {
		for _, f := range fd.Type.Params.List {
			for _, n := range f.Names {
				k++
				if _, ok := res[n.Name]; !ok {
					res[n.Name] = ast.NewIdent("$" + strconv.Itoa(k))
				}
			}
		}
	}
	return res
}

// c16Canon renders an expression canonically.
func c16Canon(e ast.Expr, subst map[string]ast.Expr, depth int) string {
	switch x := e.(type) {
	case *ast.ParenExpr:
		return c16Canon(x.X, subst, depth)
	case *ast.Ident:
		if d, ok := subst[x.Name]; ok && depth < 4 {
			return c16Canon(d, subst, depth+1)
		}
		return x.Name
	case *ast.UnaryExpr:
		if x.Op == token.NOT {
			// !(a == b) ≡ a != b
			if b, ok := c16Unparen(x.X).(*ast.BinaryExpr); ok {
				switch b.Op {
				case token.EQL:
					return c16Canon(&ast.BinaryExpr{X: b.X, Op: token.NEQ, Y: b.Y}, subst, depth)
				case token.NEQ:
					return c16Canon(&ast.BinaryExpr{X: b.X, Op: token.EQL, Y: b.Y}, subst, depth)
				}
			}
			return "!" + c16Canon(x.X, subst, depth)
		}
		return x.Op.String() + c16Canon(x.X, subst, depth)
	case *ast.BinaryExpr:
		l, r := c16Canon(x.X, subst, depth), c16Canon(x.Y, subst, depth)
		switch x.Op {
		case token.EQL, token.NEQ:
			if r < l {
				l, r = r, l
			}
			return l + " " + x.Op.String() + " " + r
		case token.LSS:
			return r + " > " + l
		case token.LEQ:
			return r + " >= " + l
		case token.LAND, token.LOR:
			parts := c16Flatten(x, x.Op, subst, depth)
			sort.Strings(parts)
			return strings.Join(parts, " "+x.Op.String()+" ")
		}
		return l + " " + x.Op.String() + " " + r
	case *ast.SelectorExpr:
		return c16Canon(x.X, subst, depth) + "." + x.Sel.Name
	case *ast.CallExpr:
		var args []string
		for _, a := range x.Args {
			args = append(args, c16Canon(a, subst, depth))
		}
		return c16Canon(x.Fun, subst, depth) + "(" + strings.Join(args, ", ") + ")"
	}
	return strings.Join(strings.Fields(exprString(e)), " ")
}

func c16Unparen(e ast.Expr) ast.Expr {
	for {
		p, ok := e.(*ast.ParenExpr)
		if !ok {
			return e
		}
		e = p.X
	}
}

// c16Files: the files of the root package (for following helpers).
var c16Files []*ast.File

// c16BoolHelper: `x.m()` where m is a same-package method whose body is a
// single `return <expr>`: returns that expression and a substitution that
// binds the method's receiver to x.
func c16BoolHelper(e ast.Expr, subst map[string]ast.Expr) (ast.Expr, map[string]ast.Expr, bool) {
	c, ok := e.(*ast.CallExpr)
	if !ok || len(c.Args) != 0 {
		return nil, nil, false
	}
	sel, ok := c.Fun.(*ast.SelectorExpr)
	if !ok {
		return nil, nil, false
	}
	for _, f := range c16Files {
		for _, d := range f.Decls {
			fd, ok := d.(*ast.FuncDecl)
			if !ok || fd.Name.Name != sel.Sel.Name || fd.Recv == nil || fd.Body == nil || len(fd.Body.List) != 1 ||
				len(fd.Recv.List) != 1 || len(fd.Recv.List[0].Names) != 1 {
				continue
			}
			r, ok := fd.Body.List[0].(*ast.ReturnStmt)
			if !ok || len(r.Results) != 1 {
				continue
			}
			if _, isBin := c16Unparen(r.Results[0]).(*ast.BinaryExpr); !isBin {
				continue
			}
			s2 := map[string]ast.Expr{}
			for k, v := range subst {
				s2[k] = v
			}
			// bind the receiver to the (already resolved) argument
			s2[fd.Recv.List[0].Names[0].Name] = ast.NewIdent(c16Canon(sel.X, subst, 0))
			return r.Results[0], s2, true
		}
	}
	return nil, nil, false
}

func c16Flatten(e ast.Expr, op token.Token, subst map[string]ast.Expr, depth int) []string {
	e = c16Unparen(e)
	if b, ok := e.(*ast.BinaryExpr); ok && b.Op == op {
		return append(c16Flatten(b.X, op, subst, depth), c16Flatten(b.Y, op, subst, depth)...)
	}
	if depth < 3 {
		// a boolean local defined once, or a one-line boolean helper method
		if id, ok := e.(*ast.Ident); ok {
			if d, ok := subst[id.Name]; ok {
				if _, isBin := c16Unparen(d).(*ast.BinaryExpr); isBin {
					return c16Flatten(d, op, subst, depth+1)
				}
			}
		}
		if body, s2, ok := c16BoolHelper(e, subst); ok {
			return c16Flatten(body, op, s2, depth+1)
		}
	}
	return []string{c16Canon(e, subst, depth)}
}

// c16Conj: the sorted canonical atoms of a conjunction.
func c16Conj(e ast.Expr, subst map[string]ast.Expr) []string {
	parts := c16Flatten(e, token.LAND, subst, 0)
	sort.Strings(parts)
	return parts
}

// ---------------------------------------------------------------- evaluation over the state enum

type c16Eval struct {
	files  []*ast.File
	states map[string]string // StateX -> value
	input  int64             // value of `<ticket>.State`
	depth  int
}

type c16Env map[string]int64

// expr evaluates an integer/state expression; ok=false when unknown.
func (ev *c16Eval) expr(e ast.Expr, env c16Env) (int64, bool) {
	switch x := c16Unparen(e).(type) {
	case *ast.Ident:
		if v, ok := env[x.Name]; ok {
			return v, true
		}
		if v, ok := ev.states[x.Name]; ok {
			n, _ := strconv.ParseInt(v, 10, 64)
			return n, true
		}
	case *ast.SelectorExpr:
		if v, ok := ev.states[x.Sel.Name]; ok && exprString(x.X) == "sidecar" {
			n, _ := strconv.ParseInt(v, 10, 64)
			return n, true
		}
		if x.Sel.Name == "State" {
			// the state of the ticket being resumed
			return ev.input, true
		}
	case *ast.BasicLit:
		if n, err := strconv.ParseInt(x.Value, 0, 64); err == nil {
			return n, true
		}
	case *ast.CallExpr:
		if len(x.Args) == 1 {
			arg, ok := ev.expr(x.Args[0], env)
			if !ok {
				return 0, false
			}
			// type conversion
			if s := exprString(x.Fun); s == "sidecar.State" || s == "uint32" || s == "uint8" || s == "int" {
				return arg, true
			}
			// same-package helper with one parameter
			if id, ok := x.Fun.(*ast.Ident); ok && ev.depth < 3 {
				if fd := findFunc(ev.files, id.Name); fd != nil && fd.Body != nil &&
					fd.Type.Params != nil && len(fd.Type.Params.List) == 1 && len(fd.Type.Params.List[0].Names) == 1 {
					sub := &c16Eval{files: ev.files, states: ev.states, input: ev.input, depth: ev.depth + 1}
					env2 := c16Env{fd.Type.Params.List[0].Names[0].Name: arg}
					if v, ret, ok := sub.stmts(fd.Body.List, env2); ok && ret {
						return v, true
					}
				}
			}
		}
	}
	return 0, false
}

// cond evaluates a boolean expression; ok=false when unknown.
func (ev *c16Eval) cond(e ast.Expr, env c16Env) (bool, bool) {
	switch x := c16Unparen(e).(type) {
	case *ast.Ident:
		if x.Name == "true" {
			return true, true
		}
		if x.Name == "false" {
			return false, true
		}
	case *ast.UnaryExpr:
		if x.Op == token.NOT {
			v, ok := ev.cond(x.X, env)
			return !v, ok
		}
	case *ast.BinaryExpr:
		switch x.Op {
		case token.LAND, token.LOR:
			a, ok1 := ev.cond(x.X, env)
			b, ok2 := ev.cond(x.Y, env)
			if x.Op == token.LAND {
				if (ok1 && !a) || (ok2 && !b) {
					return false, true
				}
				return a && b, ok1 && ok2
			}
			if (ok1 && a) || (ok2 && b) {
				return true, true
			}
			return a || b, ok1 && ok2
		case token.EQL, token.NEQ, token.LSS, token.LEQ, token.GTR, token.GEQ:
			a, ok1 := ev.expr(x.X, env)
			b, ok2 := ev.expr(x.Y, env)
			if !ok1 || !ok2 {
				return false, false
			}
			switch x.Op {
			case token.EQL:
				return a == b, true
			case token.NEQ:
				return a != b, true
			case token.LSS:
				return a < b, true
			case token.LEQ:
				return a <= b, true
			case token.GTR:
				return a > b, true
			default:
				return a >= b, true
			}
		}
	}
	return false, false
}

// stmts executes a statement list; returns (value, returned, ok).
// Statements whose conditions cannot be evaluated (error handling, …) are
// skipped; statements that do not touch integer locals are ignored.
func (ev *c16Eval) stmts(list []ast.Stmt, env c16Env) (int64, bool, bool) {
	for _, st := range list {
		switch x := st.(type) {
		case *ast.AssignStmt:
			if len(x.Lhs) == 1 && len(x.Rhs) == 1 {
				if id, ok := x.Lhs[0].(*ast.Ident); ok {
					if v, ok := ev.expr(x.Rhs[0], env); ok {
						env[id.Name] = v
					} else {
						delete(env, id.Name)
					}
				}
			}
		case *ast.DeclStmt:
			if gd, ok := x.Decl.(*ast.GenDecl); ok {
				for _, sp := range gd.Specs {
					if vs, ok := sp.(*ast.ValueSpec); ok && len(vs.Names) == 1 && len(vs.Values) == 1 {
						if v, ok := ev.expr(vs.Values[0], env); ok {
							env[vs.Names[0].Name] = v
						}
					}
				}
			}
		case *ast.ReturnStmt:
			if len(x.Results) >= 1 {
				if v, ok := ev.expr(x.Results[0], env); ok {
					return v, true, true
				}
				// a boolean result
				if b, ok := ev.cond(x.Results[0], env); ok {
					if b {
						return 1, true, true
					}
					return 0, true, true
				}
				return 0, true, false
			}
			return 0, true, false
		case *ast.BlockStmt:
			if v, ret, ok := ev.stmts(x.List, env); ret {
				return v, ret, ok
			}
		case *ast.IfStmt:
			c, ok := ev.cond(x.Cond, env)
			if !ok {
				continue
			}
			if c {
				if v, ret, ok := ev.stmts(x.Body.List, env); ret {
					return v, ret, ok
				}
			} else if x.Else != nil {
				if v, ret, ok := ev.stmts([]ast.Stmt{x.Else}, env); ret {
					return v, ret, ok
				}
			}
		case *ast.SwitchStmt:
			var body []ast.Stmt
			var def []ast.Stmt
			hasDef, matched, unknown := false, false, false
			var tag int64
			if x.Tag != nil {
				t, ok := ev.expr(x.Tag, env)
				if !ok {
					continue
				}
				tag = t
			}
			for _, c := range x.Body.List {
				cc := c.(*ast.CaseClause)
				if cc.List == nil {
					def, hasDef = cc.Body, true
					continue
				}
				if matched {
					continue
				}
				for _, ce := range cc.List {
					if x.Tag != nil {
						v, ok := ev.expr(ce, env)
						if !ok {
							unknown = true
						} else if v == tag {
							body, matched = cc.Body, true
						}
					} else {
						v, ok := ev.cond(ce, env)
						if !ok {
							unknown = true
						} else if v {
							body, matched = cc.Body, true
						}
					}
				}
			}
			if unknown && !matched {
				continue
			}
			if !matched && hasDef {
				body = def
			}
			if v, ret, ok := ev.stmts(body, env); ret {
				return v, ret, ok
			}
		}
	}
	return 0, false, true
}

// c16EnclosingList finds the innermost statement list that contains (at any
// depth of one of its statements) the node target; returns the statements
// before that statement.
func c16EnclosingList(root ast.Node, target ast.Node) []ast.Stmt {
	var best []ast.Stmt
	var visit func(list []ast.Stmt)
	contains := func(s ast.Stmt) bool {
		found := false
		ast.Inspect(s, func(n ast.Node) bool {
			if n == target {
				found = true
			}
			return !found
		})
		return found
	}
	visit = func(list []ast.Stmt) {
		for i, s := range list {
			if !contains(s) {
				continue
			}
			best = list[:i]
			ast.Inspect(s, func(n ast.Node) bool {
				switch x := n.(type) {
				case *ast.BlockStmt:
					if n != s {
						visit(x.List)
						return false
					}
				case *ast.CaseClause:
					visit(x.Body)
					return false
				case *ast.CommClause:
					visit(x.Body)
					return false
				}
				return true
			})
			return
		}
	}
	if fd, ok := root.(*ast.FuncDecl); ok {
		visit(fd.Body.List)
	}
	return best
}
