//go:build verif

package main

import (
	"fmt"
	"go/ast"
	"go/token"
	"sort"
	"strings"
)

func init() {
	jobs = append(jobs, job{props: []string{"C19", "C15"}, fn: genC19State})
}

// decPkgState analyses one package: the functions reachable (by calls to
// functions / methods of the same package, resolved by name) from the given
// roots, and every write they make to a package-level variable: assignment
// to it, to an element / field of it, ++/--, delete(v, …), or taking a
// pointer-less mutation through an index expression.
func decPkgState(dir string, roots []string) (reach []string, writes []string, used []string) {
	files := pkgFiles(dir)
	funcs := map[string]*ast.FuncDecl{}     // plain functions by name
	methods := map[string][]*ast.FuncDecl{} // methods by name (any receiver)
	pkgVars := map[string]bool{}
	varKind := map[string]string{} // declared type or shape of the initialiser
	topSpecs := map[*ast.ValueSpec]bool{}
	for _, f := range files {
		for _, d := range f.Decls {
			switch x := d.(type) {
			case *ast.FuncDecl:
				if x.Recv == nil {
					funcs[x.Name.Name] = x
				} else {
					methods[x.Name.Name] = append(methods[x.Name.Name], x)
				}
			case *ast.GenDecl:
				if x.Tok != token.VAR {
					continue
				}
				for _, s := range x.Specs {
					vs := s.(*ast.ValueSpec)
					topSpecs[vs] = true
					for i, n := range vs.Names {
						pkgVars[n.Name] = true
						switch {
						case vs.Type != nil:
							varKind[n.Name] = exprString(vs.Type)
						case i < len(vs.Values):
							switch v := vs.Values[i].(type) {
							case *ast.CompositeLit:
								varKind[n.Name] = exprString(v.Type)
							case *ast.CallExpr:
								varKind[n.Name] = "call " + exprString(v.Fun)
							case *ast.UnaryExpr:
								if cl, ok := v.X.(*ast.CompositeLit); ok {
									varKind[n.Name] = "&" + exprString(cl.Type)
								} else {
									varKind[n.Name] = "expr"
								}
							default:
								varKind[n.Name] = "expr"
							}
						}
					}
				}
			}
		}
	}
	for _, r := range roots {
		if funcs[r] == nil {
			fail("%s: root function %s not found", dir, r)
		}
	}

	key := func(fd *ast.FuncDecl) string {
		if fd.Recv == nil {
			return fd.Name.Name
		}
		t := fd.Recv.List[0].Type
		if st, ok := t.(*ast.StarExpr); ok {
			t = st.X
		}
		return exprString(t) + "." + fd.Name.Name
	}
	seen := map[string]*ast.FuncDecl{}
	var work []*ast.FuncDecl
	push := func(fd *ast.FuncDecl) {
		if fd == nil || fd.Body == nil {
			return
		}
		if _, ok := seen[key(fd)]; !ok {
			seen[key(fd)] = fd
			work = append(work, fd)
		}
	}
	for _, r := range roots {
		push(funcs[r])
	}
	for len(work) > 0 {
		fd := work[0]
		work = work[1:]
		ast.Inspect(fd.Body, func(n ast.Node) bool {
			// a function of the package used as a value (e.g. the
			// ESig / DSig arguments of tlv.MakeStaticRecord)
			if id, ok := n.(*ast.Ident); ok && id.Obj == nil || ok && id.Obj != nil && id.Obj.Kind == ast.Fun {
				push(funcs[id.Name])
			}
			c, ok := n.(*ast.CallExpr)
			if !ok {
				return true
			}
			switch f := c.Fun.(type) {
			case *ast.Ident:
				push(funcs[f.Name])
			case *ast.SelectorExpr:
				// x.M(...): a method of this package with that name
				// (over-approximation), unless x is an imported package
				if id, ok := f.X.(*ast.Ident); ok && id.Obj == nil && !pkgVars[id.Name] && funcs[id.Name] == nil {
					// unresolved identifier that is no package-level
					// name of ours: an import
					if len(methods[f.Sel.Name]) == 0 {
						return true
					}
				}
				for _, m := range methods[f.Sel.Name] {
					push(m)
				}
			}
			return true
		})
	}

	// isPkgVar: the identifier denotes a package-level variable of this
	// package (not a local that shadows it)
	isPkgVar := func(id *ast.Ident) bool {
		if !pkgVars[id.Name] || id.Name == "_" {
			return false
		}
		if id.Obj == nil {
			return true // declared in another file of the package
		}
		if vs, ok := id.Obj.Decl.(*ast.ValueSpec); ok {
			return topSpecs[vs]
		}
		return false
	}
	// base returns the identifier an lvalue expression is rooted in
	var base func(e ast.Expr) *ast.Ident
	base = func(e ast.Expr) *ast.Ident {
		switch x := e.(type) {
		case *ast.Ident:
			return x
		case *ast.IndexExpr:
			return base(x.X)
		case *ast.SelectorExpr:
			return base(x.X)
		case *ast.StarExpr:
			return base(x.X)
		case *ast.ParenExpr:
			return base(x.X)
		}
		return nil
	}
	usedSet := map[string]bool{}
	for k, fd := range seen {
		reach = append(reach, k)
		ast.Inspect(fd.Body, func(n ast.Node) bool {
			// every package-level variable the function mentions at all
			if id, ok := n.(*ast.Ident); ok && isPkgVar(id) {
				usedSet[id.Name+" : "+varKind[id.Name]] = true
			}
			note := func(e ast.Expr, how string) {
				if id := base(e); id != nil && isPkgVar(id) {
					writes = append(writes, fmt.Sprintf("%s/%s: %s %s", dir, k, how, id.Name))
				}
			}
			switch x := n.(type) {
			case *ast.AssignStmt:
				if x.Tok == token.DEFINE {
					return true
				}
				for _, l := range x.Lhs {
					note(l, "assigns")
				}
			case *ast.IncDecStmt:
				note(x.X, "inc/dec")
			case *ast.CallExpr:
				if id, ok := x.Fun.(*ast.Ident); ok && (id.Name == "delete" || id.Name == "clear") && len(x.Args) > 0 {
					note(x.Args[0], id.Name)
				}
			case *ast.UnaryExpr:
				// &pkgVar handed to somebody: may be written elsewhere
				if x.Op == token.AND {
					note(x.X, "takes-address-of")
				}
			}
			return true
		})
	}
	for u := range usedSet {
		used = append(used, u)
	}
	sort.Strings(reach)
	sort.Strings(writes)
	sort.Strings(used)
	return
}

// genC19State: the decoders / parsers of C19 are functions of their input
// only - no function in their intra-package call graph writes package-level
// state (which would make concurrent calls from the two handler goroutines a
// data race).
func genC19State() {
	l := newLean("C19State", "order/rpc_parse.go and sidecar codec: intra-package call graph of the parsers / decoders "+
		"and the writes to package-level variables found in it.")
	l.p("namespace Pool.Gen.C19")
	orderReach, orderWrites, orderUsed := decPkgState("order", []string{"ParseRPCBatch", "ParseRPCMatchedOrders",
		"ParseRPCServerAsk", "ParseRPCServerBid", "ParseRPCServerOrder", "parseNodeAddrs", "ParseRPCSign"})
	sidecarReach, sidecarWrites, sidecarUsed := decPkgState("sidecar", []string{"DecodeString", "DeserializeTicket",
		"EncodeToString", "SerializeTicket"})
	l.p("def orderParseCallGraph : List String := %s", leanStrList(orderReach))
	l.p("def sidecarCodecCallGraph : List String := %s", leanStrList(sidecarReach))
	l.p("def orderParseVars : List String := %s", leanStrList(orderUsed))
	l.p("def sidecarCodecVars : List String := %s", leanStrList(sidecarUsed))
	l.p("def parserStateWrites : List String := %s", leanStrList(append(orderWrites, sidecarWrites...)))
	_ = strings.Join
	l.p("end Pool.Gen.C19")
}
