//go:build verif

package main

import (
	"fmt"
	"go/ast"
	"go/parser"
	"go/token"
	"os"
	"path/filepath"
	"regexp"
	"sort"
	"strings"
)

func init() { jobs = append(jobs, job{props: []string{"C07"}, fn: genAcctMod}) }

// acctmodSizeConst matches lnd's script size constants (P2WPKHSize, P2TRSize …)
// but not the output size constants (P2WKHOutputSize …).
var acctmodSizeConst = regexp.MustCompile(`^P2[A-Z]+Size$`)

// acctmodModDir resolves the directory of a third-party module at the version pinned
// in /repo/go.mod inside the module cache.
func acctmodModDir(mod string) string {
	b, err := os.ReadFile(filepath.Join(repo, "go.mod"))
	if err != nil {
		fail("read go.mod: %v", err)
		return ""
	}
	re := regexp.MustCompile(`(?m)^\s*` + regexp.QuoteMeta(mod) + `\s+(v\S+)`)
	m := re.FindSubmatch(b)
	if m == nil {
		fail("module %s not pinned in go.mod", mod)
		return ""
	}
	cache := os.Getenv("GOMODCACHE")
	if cache == "" {
		home, _ := os.UserHomeDir()
		cache = filepath.Join(home, "go", "pkg", "mod")
	}
	return filepath.Join(cache, mod+"@"+string(m[1]))
}

// acctmodAbsFiles parses the given absolute file paths.
func acctmodAbsFiles(paths ...string) []*ast.File {
	var files []*ast.File
	for _, p := range paths {
		f, err := parser.ParseFile(fset, p, nil, 0)
		if err != nil {
			fail("parse %s: %v", p, err)
			continue
		}
		files = append(files, f)
	}
	return files
}

// genAcctMod emits the constants, witness-size table and output-type switch
// tables of account/manager.go + account/interfaces.go consumed by the C07
// model, plus the lnd input/chainfee constants they are computed from (read
// from the module cache at the version pinned in go.mod; the harness
// cross-checks them against the compiled values with `C07 consts`).
func genAcctMod() {
	acct := pkgFiles("account")
	ace := newConstEnv(acct)
	ps := newConstEnv(pkgFiles("poolscript"))

	lnd := acctmodModDir("github.com/lightningnetwork/lnd")
	if lnd == "" {
		return
	}
	externConsts["blockchain.WitnessScaleFactor"] = 4
	sizeFiles := acctmodAbsFiles(filepath.Join(lnd, "input", "size.go"))
	ice := newConstEnv(sizeFiles)
	fce := newConstEnv(acctmodAbsFiles(filepath.Join(lnd, "lnwallet", "chainfee", "rates.go")))

	l := newLean("AcctModFacts", "Constants, witness-size table and output-type switch tables of "+
		"account/manager.go, account/interfaces.go, poolscript/script.go and lnd input/size.go, chainfee/rates.go.")
	l.p("namespace Pool.Gen.C07")
	for _, n := range []string{"MinAccountValue", "minAccountExpiry", "maxAccountExpiry"} {
		l.p("def %s : Nat := %s", n, intConst(ace, "account", n))
	}
	for _, n := range []string{"expiryWitness", "multiSigWitness", "expiryTaproot", "muSig2Taproot"} {
		l.p("def wt_%s : Nat := %s", n, intConst(ace, "account", n))
	}
	for _, n := range []string{"StateInitiated", "StatePendingOpen", "StatePendingUpdate", "StateOpen",
		"StateExpired", "StatePendingClosed", "StateClosed", "StateCanceledAfterRecovery",
		"StatePendingBatch", "StateExpiredPendingUpdate", "VersionInitialNoVersion",
		"VersionTaprootEnabled", "VersionMuSig2V100RC2"} {
		l.p("def %s : Nat := %s", n, intConst(ace, "account", n))
	}
	for _, n := range []string{"MultiSigWitnessSize", "ExpiryWitnessSize", "TaprootMultiSigWitnessSize",
		"TaprootExpiryWitnessSize"} {
		l.p("def %s : Nat := %s", n, intConst(ps, "poolscript", n))
	}
	lndConsts := []string{"InputSize", "BaseTxSize", "WitnessHeaderSize", "witnessScaleFactor",
		"P2PKHOutputSize", "P2WKHOutputSize", "P2WSHOutputSize", "P2SHOutputSize", "P2TROutputSize",
		"P2PKHSize", "P2WPKHSize", "P2WSHSize", "P2SHSize", "P2TRSize", "P2WKHWitnessSize"}
	for _, n := range lndConsts {
		l.p("def %s : Nat := %s", n, intConst(ice, "lnd/input", n))
	}
	l.p("def FeePerKwFloor : Nat := %s", intConst(fce, "lnd/chainfee", "FeePerKwFloor"))

	isRecvOrWt := func(n *acctmodNorm, tag ast.Expr) bool {
		t := n.s(tag)
		return t == "$recv" || t == "$wt"
	}
	isClass := func(n *acctmodNorm, tag ast.Expr) bool {
		t := n.s(tag)
		return strings.HasSuffix(t, ".Class()") || t == "$class"
	}

	// witnessType.witnessSize: witness type value -> size.
	var rows []string
	wsCases, _ := acctmodFindCases(acct, findFunc(acct, "witnessType.witnessSize"), 1, isRecvOrWt)
	for _, cc := range wsCases {
		var size ast.Expr
		for _, st := range cc.body {
			if ret, ok := st.(*ast.ReturnStmt); ok && len(ret.Results) == 2 &&
				exprString(ret.Results[1]) == "nil" {

				size = ret.Results[0]
			}
		}
		if size == nil {
			fail("witnessSize: case without `return <size>, nil`")
			continue
		}
		for _, e := range cc.consts {
			rows = append(rows, fmt.Sprintf("(%s, %s)", intConst(ace, "account", acctmodConstName(e)),
				intConst(ps, "poolscript", acctmodConstName(size))))
		}
	}
	sort.Strings(rows)
	if len(rows) == 0 {
		fail("witnessSize case list not found")
	}
	l.p("/-- `witnessType.witnessSize`: witness type -> estimated witness size -/")
	l.p("def witnessSizeTable : List (Nat × Nat) := [%s]", strings.Join(rows, ", "))

	// witnessType.IsExpirySpend: the witness types taking the expiry path.
	rows = nil
	ieCases, _ := acctmodFindCases(acct, findFunc(acct, "witnessType.IsExpirySpend"), 1, isRecvOrWt)
	for _, cc := range ieCases {
		for _, st := range cc.body {
			if ret, ok := st.(*ast.ReturnStmt); ok && len(ret.Results) == 1 &&
				exprString(ret.Results[0]) == "true" {

				for _, e := range cc.consts {
					rows = append(rows, intConst(ace, "account", acctmodConstName(e)))
				}
			}
		}
	}
	sort.Strings(rows)
	l.p("def expirySpendTypes : List Nat := [%s]", strings.Join(rows, ", "))

	// lnd estimator method -> constant added to outputSize.
	addSize := func(method string) string {
		fd := findFunc(sizeFiles, "TxWeightEstimator."+method)
		if fd == nil {
			fail("lnd TxWeightEstimator.%s not found", method)
			return "0"
		}
		for _, st := range fd.Body.List {
			as, ok := st.(*ast.AssignStmt)
			if ok && as.Tok == token.ADD_ASSIGN && exprString(as.Lhs[0]) == "twe.outputSize" {
				return intConst(ice, "lnd/input", exprString(as.Rhs[0]))
			}
		}
		fail("lnd TxWeightEstimator.%s: no outputSize += const", method)
		return "0"
	}
	outputAdds := func(stmts []ast.Stmt) []string {
		var r []string
		for _, c := range acctmodAddCalls(stmts) {
			if strings.HasSuffix(c, "Output") {
				r = append(r, c)
			}
		}
		return r
	}

	// valueAfterAccountUpdate (or a helper it calls): output script class ->
	// output size added.
	rows = nil
	vauCases, _ := acctmodFindCases(acct, findFunc(acct, "valueAfterAccountUpdate"), 2, isClass)
	for _, cc := range vauCases {
		calls := outputAdds(cc.body)
		if len(calls) != 1 {
			fail("valueAfterAccountUpdate: case without exactly one estimator call")
			continue
		}
		for _, e := range cc.consts {
			rows = append(rows, fmt.Sprintf("(%q, %s)", acctmodConstName(e), addSize(calls[0])))
		}
	}
	sort.Strings(rows)
	if len(rows) == 0 {
		fail("valueAfterAccountUpdate: per-class output weights not found")
	}
	l.p("/-- `valueAfterAccountUpdate`: supported output class -> size added to the estimator -/")
	l.p("def vauOutputSwitch : List (String × Nat) := [%s]", strings.Join(rows, ", "))

	// OutputWithFee.CloseOutputs: class -> (output size added, dust script size).
	rows = nil
	coCases, _ := acctmodFindCases(acct, findFunc(acct, "OutputWithFee.CloseOutputs"), 2, isClass)
	for _, cc := range coCases {
		calls := outputAdds(cc.body)
		// the script size the dust limit is derived from: the single lnd
		// `P2…Size` constant named in the case (argument of
		// DustLimitForSize or a field of the data the helper returns)
		dust := ""
		nDust := 0
		for _, st := range cc.body {
			ast.Inspect(st, func(n ast.Node) bool {
				if sel, ok := n.(*ast.SelectorExpr); ok && acctmodSizeConst.MatchString(sel.Sel.Name) {
					dust = intConst(ice, "lnd/input", sel.Sel.Name)
					nDust++
				}
				return true
			})
		}
		if nDust != 1 {
			dust = ""
		}
		if len(calls) != 1 || dust == "" {
			fail("CloseOutputs: case without one estimator call and a dust limit")
			continue
		}
		for _, e := range cc.consts {
			rows = append(rows, fmt.Sprintf("(%q, %s, %s)", acctmodConstName(e), addSize(calls[0]), dust))
		}
	}
	sort.Strings(rows)
	if len(rows) == 0 {
		fail("CloseOutputs: per-class output weights not found")
	}
	if co := findFunc(acct, "OutputWithFee.CloseOutputs"); co != nil {
		found := false
		fns := append([]*ast.FuncDecl{co}, acctmodCallees(acct, co)...)
		for _, g := range fns {
			ast.Inspect(g.Body, func(n ast.Node) bool {
				if c, ok := n.(*ast.CallExpr); ok && acctmodConstName(c.Fun) == "DustLimitForSize" {
					found = true
				}
				return true
			})
		}
		if !found {
			fail("CloseOutputs: no DustLimitForSize call")
		}
	}
	l.p("/-- `OutputWithFee.CloseOutputs`: class -> (output size added, script size handed to DustLimitForSize) -/")
	l.p("def closeOutputSwitch : List (String × Nat × Nat) := [%s]", strings.Join(rows, ", "))

	// addBaseAccountModificationWeight: one witness input + one output of ...
	base := findFunc(acct, "addBaseAccountModificationWeight")
	baseOut := "0"
	if base != nil {
		calls := acctmodAddCalls(base.Body.List)
		sort.Strings(calls)
		if len(calls) == 2 && calls[1] == "AddWitnessInput" {
			baseOut = addSize(calls[0])
		} else {
			fail("addBaseAccountModificationWeight: unexpected estimator calls %v", calls)
		}
	} else {
		fail("addBaseAccountModificationWeight not found")
	}
	l.p("/-- size of the re-created account output added by `addBaseAccountModificationWeight` -/")
	l.p("def baseAccountOutputSize : Nat := %s", baseOut)

	// validateAccountExpiry: the two window comparisons, normalised; wide =
	// both bounds are computed after widening to 64 bits.
	ve := findFunc(acct, "validateAccountExpiry")
	wide := false
	if ve == nil {
		fail("validateAccountExpiry not found")
	} else {
		n := acctmodNewNorm(ve)
		var cs []string
		for _, d := range acctmodDecisions(ve.Body) {
			if acctmodReturnsError(d.body) {
				cs = append(cs, n.s(d.cond))
			}
		}
		strip := strings.NewReplacer("(", "", ")", "", "uint64", "w64", "int64", "w64")
		for i := range cs {
			cs[i] = strip.Replace(cs[i])
		}
		sort.Strings(cs)
		got := strings.Join(cs, " ; ")
		switch got {
		case "$u32_1 < $u32_2 + minAccountExpiry ; $u32_2 + maxAccountExpiry < $u32_1":
			wide = false
		case "maxAccountExpiry + w64$u32_2 < w64$u32_1 ; w64$u32_1 < minAccountExpiry + w64$u32_2":
			wide = true
		default:
			fail("validateAccountExpiry: unexpected window comparisons: %s", got)
		}
	}
	l.p("/-- `validateAccountExpiry` computes `bestHeight + min/maxAccountExpiry` in 64 bits (no uint32 wrap) -/")
	l.p("def expiryWindowWide : Bool := %s", leanBool(wide))

	// DepositAccount: is the new value checked against MinAccountValue?
	dep := findFunc(acct, "manager.DepositAccount")
	depMin := false
	if dep == nil {
		fail("DepositAccount not found")
	} else {
		n := acctmodNewNorm(dep)
		for _, d := range acctmodDecisions(dep.Body) {
			c := n.s(d.cond)
			if strings.HasSuffix(c, " < MinAccountValue") && strings.Contains(c, ".Value") &&
				strings.Contains(c, "$amt") &&
				acctmodReturnsError(d.body) {

				depMin = true
			}
		}
	}
	l.p("/-- `DepositAccount` refuses a new value below `MinAccountValue` -/")
	l.p("def depositChecksMin : Bool := %s", leanBool(depMin))

	// WithdrawAccount: are outputs paying to the new account script refused?
	// (a loop over the requested outputs refusing when bytes.Equal of two
	// PkScripts holds)
	wd := findFunc(acct, "manager.WithdrawAccount")
	own := false
	if wd == nil {
		fail("WithdrawAccount not found")
	} else {
		n := acctmodNewNorm(wd)
		ast.Inspect(wd.Body, func(x ast.Node) bool {
			rs, ok := x.(*ast.RangeStmt)
			if !ok || n.s(rs.X) != "$outs" {
				return true
			}
			for _, d := range acctmodDecisions(rs.Body) {
				c, ok := d.cond.(*ast.CallExpr)
				if ok && exprString(c.Fun) == "bytes.Equal" && len(c.Args) == 2 &&
					strings.HasSuffix(exprString(c.Args[0]), ".PkScript") &&
					strings.HasSuffix(exprString(c.Args[1]), ".PkScript") &&
					acctmodReturnsError(d.body) {

					own = true
				}
			}
			return true
		})
	}
	l.p("/-- `WithdrawAccount` refuses a requested output that pays to the new account script -/")
	l.p("def withdrawRefusesOwnScript : Bool := %s", leanBool(own))

	// determineWitnessType: the distinct conditions (normalised, locals
	// inlined) under which an expiry witness type is returned.
	dw := findFunc(acct, "determineWitnessType")
	var conds []string
	if dw == nil {
		fail("determineWitnessType not found")
	} else {
		n := acctmodNewNorm(dw)
		seen := map[string]bool{}
		for _, d := range acctmodDecisions(dw.Body) {
			exp := false
			for _, st := range d.body {
				if r, ok := st.(*ast.ReturnStmt); ok && len(r.Results) == 1 &&
					strings.HasPrefix(exprString(r.Results[0]), "expiry") {

					exp = true
				}
			}
			// the expiry condition proper: the conjuncts that do not merely
			// select the account version (script family)
			var parts []string
			for _, part := range n.conjuncts(d.cond, 0) {
				ps := n.s(part)
				if strings.Contains(ps, ".Version") && !strings.Contains(ps, ".Expiry") &&
					!strings.Contains(ps, ".State") {

					continue
				}
				parts = append(parts, ps)
			}
			sort.Strings(parts)
			c := strings.Join(parts, " && ")
			if exp && !seen[c] {
				seen[c] = true
				conds = append(conds, c)
			}
		}
		sort.Strings(conds)
	}
	l.p("/-- `determineWitnessType`: the distinct conditions selecting the expiry witness -/")
	l.p("def expiredConds : List String := %s", leanStrList(conds))

	// spendAccount: lock time per witness type: "best" (the height parameter),
	// "zero", or the normalised expression.
	sp := findFunc(acct, "manager.spendAccount")
	var lrows []string
	ltCases, owner := acctmodFindCases(acct, sp, 1, isRecvOrWt)
	if owner != nil {
		n := acctmodNewNorm(owner)
		for _, cc := range ltCases {
			lt := ""
			for _, st := range cc.body {
				if as, ok := st.(*ast.AssignStmt); ok && as.Tok == token.ASSIGN &&
					len(as.Lhs) == 1 && len(as.Rhs) == 1 {

					switch v := n.s(as.Rhs[0]); v {
					case "$u32":
						lt = "best"
					case "0":
						lt = "zero"
					default:
						lt = v
					}
				}
			}
			for _, e := range cc.consts {
				lrows = append(lrows, fmt.Sprintf("(%s, %q)", intConst(ace, "account", acctmodConstName(e)), lt))
			}
		}
	}
	anyLt := false
	for _, r := range lrows {
		if !strings.HasSuffix(r, `, "")`) {
			anyLt = true
		}
	}
	if !anyLt {
		lrows = nil // a case list over the witness type, but not the lock time one
	}
	if len(lrows) == 0 && sp != nil {
		// the lock time may be computed by a helper written as early-return
		// ifs: evaluate it for each witness type constant
		expSet := map[string]bool{}
		for _, cc := range ieCases {
			for _, st := range cc.body {
				if ret, ok := st.(*ast.ReturnStmt); ok && len(ret.Results) == 1 &&
					exprString(ret.Results[0]) == "true" {

					for _, e := range cc.consts {
						expSet[acctmodConstName(e)] = true
					}
				}
			}
		}
		for _, g := range acctmodCallees(acct, sp) {
			n := acctmodNewNorm(g)
			hasWt := false
			for _, v := range n.params {
				if v == "$wt" {
					hasWt = true
				}
			}
			if g.Recv != nil && len(g.Recv.List) == 1 && exprString(g.Recv.List[0].Type) == "witnessType" {
				hasWt = true
			}
			if !hasWt || g.Type.Results == nil || len(g.Type.Results.List) != 2 ||
				exprString(g.Type.Results.List[0].Type) != "uint32" {

				continue
			}
			var rowsG []string
			good := true
			for _, c := range []string{"expiryWitness", "multiSigWitness", "expiryTaproot", "muSig2Taproot"} {
				v, ok := acctmodEvalPerWt(g, c, expSet)
				if !ok {
					good = false
					break
				}
				switch v {
				case "$u32":
					v = "best"
				case "0":
					v = "zero"
				}
				rowsG = append(rowsG, fmt.Sprintf("(%s, %q)", intConst(ace, "account", c), v))
			}
			if good {
				lrows = rowsG
				break
			}
		}
	}
	sort.Strings(lrows)
	if len(lrows) == 0 {
		fail("spendAccount: lock time per witness type not found")
	}
	l.p("/-- `spendAccount`: witness type -> lock time (`best` = the best-height parameter, `zero`) -/")
	l.p("def lockTimeSwitch : List (Nat × String) := [%s]", strings.Join(lrows, ", "))
	// terms in force: the manager keeps no copy of the auctioneer's terms
	// (no struct field whose type mentions AuctioneerTerms) and
	// DepositAccount (or a same-package helper it calls) asks the
	// auctioneer for them.
	var termFields []string
	for _, f := range acct {
		ast.Inspect(f, func(x ast.Node) bool {
			ts, ok := x.(*ast.TypeSpec)
			if !ok || ts.Name.Name != "manager" {
				return true
			}
			if st, ok := ts.Type.(*ast.StructType); ok {
				for _, fld := range st.Fields.List {
					if strings.Contains(exprString(fld.Type), "AuctioneerTerms") {
						for _, id := range fld.Names {
							termFields = append(termFields, id.Name)
						}
						if len(fld.Names) == 0 {
							termFields = append(termFields, exprString(fld.Type))
						}
					}
				}
			}
			return false
		})
	}
	sort.Strings(termFields)
	l.p("/-- fields of `manager` holding auctioneer terms (a cache would make a deposit be judged against stale terms) -/")
	l.p("def managerTermsFields : List String := %s", leanStrList(termFields))
	queries := false
	if dep != nil {
		fns := append([]*ast.FuncDecl{dep}, acctmodCallees(acct, dep)...)
		for _, g := range fns {
			ast.Inspect(g.Body, func(x ast.Node) bool {
				if c, ok := x.(*ast.CallExpr); ok && strings.HasSuffix(exprString(c.Fun), ".Auctioneer.Terms") {
					queries = true
				}
				return true
			})
		}
	}
	l.p("/-- `DepositAccount` (or a helper it calls) queries `Auctioneer.Terms` -/")
	l.p("def depositQueriesTerms : Bool := %s", leanBool(queries))
	l.p("end Pool.Gen.C07")
}
