//go:build verif

package main

import (
	"fmt"
	"go/ast"
	"go/parser"
	"go/token"
	"os"
	"path/filepath"
	"regexp"
	"sort"
	"strings"
)

func init() { jobs = append(jobs, job{props: []string{"C07"}, fn: genAcctMod}) }

// acctmodModDir resolves the directory of a third-party module at the version pinned
// in /repo/go.mod inside the module cache.
func acctmodModDir(mod string) string {
	b, err := os.ReadFile(filepath.Join(repo, "go.mod"))
	if err != nil {
		fail("read go.mod: %v", err)
		return ""
	}
	re := regexp.MustCompile(`(?m)^\s*` + regexp.QuoteMeta(mod) + `\s+(v\S+)`)
	m := re.FindSubmatch(b)
	if m == nil {
		fail("module %s not pinned in go.mod", mod)
		return ""
	}
	cache := os.Getenv("GOMODCACHE")
	if cache == "" {
		home, _ := os.UserHomeDir()
		cache = filepath.Join(home, "go", "pkg", "mod")
	}
	return filepath.Join(cache, mod+"@"+string(m[1]))
}

// acctmodAbsFiles parses the given absolute file paths.
func acctmodAbsFiles(paths ...string) []*ast.File {
	var files []*ast.File
	for _, p := range paths {
		f, err := parser.ParseFile(fset, p, nil, 0)
		if err != nil {
			fail("parse %s: %v", p, err)
			continue
		}
		files = append(files, f)
	}
	return files
}

// switchTable extracts `case A, B: <body>` clauses of the first switch in fd
// whose tag prints as tag; body statements are handed to f.
func acctmodSwitchClauses(fd *ast.FuncDecl, tag string) []*ast.CaseClause {
	var res []*ast.CaseClause
	if fd == nil {
		return nil
	}
	ast.Inspect(fd.Body, func(n ast.Node) bool {
		sw, ok := n.(*ast.SwitchStmt)
		if !ok || res != nil || sw.Tag == nil || exprString(sw.Tag) != tag {
			return true
		}
		for _, st := range sw.Body.List {
			res = append(res, st.(*ast.CaseClause))
		}
		return false
	})
	return res
}

// acctmodEstimatorCalls lists the `weightEstimator.AddXxx()` methods called in stmts.
func acctmodEstimatorCalls(stmts []ast.Stmt) []string {
	var res []string
	for _, st := range stmts {
		ast.Inspect(st, func(n ast.Node) bool {
			if c, ok := n.(*ast.CallExpr); ok {
				if s, ok := c.Fun.(*ast.SelectorExpr); ok &&
					exprString(s.X) == "weightEstimator" {

					res = append(res, s.Sel.Name)
				}
			}
			return true
		})
	}
	return res
}

// genAcctMod emits the constants, witness-size table and output-type switch
// tables of account/manager.go + account/interfaces.go consumed by the C07
// model, plus the lnd input/chainfee constants they are computed from (read
// from the module cache at the version pinned in go.mod; the harness
// cross-checks them against the compiled values with `C07 consts`).
func genAcctMod() {
	acct := pkgFiles("account")
	ace := newConstEnv(acct)
	ps := newConstEnv(pkgFiles("poolscript"))

	lnd := acctmodModDir("github.com/lightningnetwork/lnd")
	if lnd == "" {
		return
	}
	externConsts["blockchain.WitnessScaleFactor"] = 4
	sizeFiles := acctmodAbsFiles(filepath.Join(lnd, "input", "size.go"))
	ice := newConstEnv(sizeFiles)
	fce := newConstEnv(acctmodAbsFiles(filepath.Join(lnd, "lnwallet", "chainfee", "rates.go")))

	l := newLean("AcctModFacts", "Constants, witness-size table and output-type switch tables of "+
		"account/manager.go, account/interfaces.go, poolscript/script.go and lnd input/size.go, chainfee/rates.go.")
	l.p("namespace Pool.Gen.C07")
	for _, n := range []string{"MinAccountValue", "minAccountExpiry", "maxAccountExpiry"} {
		l.p("def %s : Nat := %s", n, intConst(ace, "account", n))
	}
	for _, n := range []string{"expiryWitness", "multiSigWitness", "expiryTaproot", "muSig2Taproot"} {
		l.p("def wt_%s : Nat := %s", n, intConst(ace, "account", n))
	}
	for _, n := range []string{"StateInitiated", "StatePendingOpen", "StatePendingUpdate", "StateOpen",
		"StateExpired", "StatePendingClosed", "StateClosed", "StateCanceledAfterRecovery",
		"StatePendingBatch", "StateExpiredPendingUpdate", "VersionInitialNoVersion",
		"VersionTaprootEnabled", "VersionMuSig2V100RC2"} {
		l.p("def %s : Nat := %s", n, intConst(ace, "account", n))
	}
	for _, n := range []string{"MultiSigWitnessSize", "ExpiryWitnessSize", "TaprootMultiSigWitnessSize",
		"TaprootExpiryWitnessSize"} {
		l.p("def %s : Nat := %s", n, intConst(ps, "poolscript", n))
	}
	lndConsts := []string{"InputSize", "BaseTxSize", "WitnessHeaderSize", "witnessScaleFactor",
		"P2PKHOutputSize", "P2WKHOutputSize", "P2WSHOutputSize", "P2SHOutputSize", "P2TROutputSize",
		"P2PKHSize", "P2WPKHSize", "P2WSHSize", "P2SHSize", "P2TRSize", "P2WKHWitnessSize"}
	for _, n := range lndConsts {
		l.p("def %s : Nat := %s", n, intConst(ice, "lnd/input", n))
	}
	l.p("def FeePerKwFloor : Nat := %s", intConst(fce, "lnd/chainfee", "FeePerKwFloor"))

	// witnessType.witnessSize switch: witness type value -> size.
	var rows []string
	for _, cc := range acctmodSwitchClauses(findFunc(acct, "witnessType.witnessSize"), "wt") {
		if cc.List == nil {
			continue
		}
		if len(cc.Body) != 1 {
			fail("witnessSize: unexpected case body")
			continue
		}
		ret, ok := cc.Body[0].(*ast.ReturnStmt)
		if !ok || len(ret.Results) != 2 || exprString(ret.Results[1]) != "nil" {
			fail("witnessSize: unexpected return")
			continue
		}
		sel, ok := ret.Results[0].(*ast.SelectorExpr)
		if !ok || exprString(sel.X) != "poolscript" {
			fail("witnessSize: unexpected size expression %s", exprString(ret.Results[0]))
			continue
		}
		for _, e := range cc.List {
			rows = append(rows, fmt.Sprintf("(%s, %s)", intConst(ace, "account", exprString(e)),
				intConst(ps, "poolscript", sel.Sel.Name)))
		}
	}
	sort.Strings(rows)
	if len(rows) == 0 {
		fail("witnessSize switch not found")
	}
	l.p("/-- `witnessType.witnessSize`: witness type -> estimated witness size -/")
	l.p("def witnessSizeTable : List (Nat × Nat) := [%s]", strings.Join(rows, ", "))

	// witnessType.IsExpirySpend: the witness types taking the expiry path.
	rows = nil
	for _, cc := range acctmodSwitchClauses(findFunc(acct, "witnessType.IsExpirySpend"), "wt") {
		if cc.List == nil || len(cc.Body) != 1 {
			continue
		}
		if ret, ok := cc.Body[0].(*ast.ReturnStmt); ok && len(ret.Results) == 1 &&
			exprString(ret.Results[0]) == "true" {

			for _, e := range cc.List {
				rows = append(rows, intConst(ace, "account", exprString(e)))
			}
		}
	}
	sort.Strings(rows)
	l.p("def expirySpendTypes : List Nat := [%s]", strings.Join(rows, ", "))

	// lnd estimator method -> constant added to outputSize.
	addSize := func(method string) string {
		fd := findFunc(sizeFiles, "TxWeightEstimator."+method)
		if fd == nil {
			fail("lnd TxWeightEstimator.%s not found", method)
			return "0"
		}
		for _, st := range fd.Body.List {
			as, ok := st.(*ast.AssignStmt)
			if ok && as.Tok == token.ADD_ASSIGN && exprString(as.Lhs[0]) == "twe.outputSize" {
				return intConst(ice, "lnd/input", exprString(as.Rhs[0]))
			}
		}
		fail("lnd TxWeightEstimator.%s: no outputSize += const", method)
		return "0"
	}

	// valueAfterAccountUpdate: output script class -> output size added.
	rows = nil
	for _, cc := range acctmodSwitchClauses(findFunc(acct, "valueAfterAccountUpdate"), "pkScript.Class()") {
		if cc.List == nil {
			continue
		}
		calls := acctmodEstimatorCalls(cc.Body)
		if len(calls) != 1 {
			fail("valueAfterAccountUpdate: case without exactly one estimator call")
			continue
		}
		for _, e := range cc.List {
			rows = append(rows, fmt.Sprintf("(%q, %s)", strings.TrimPrefix(exprString(e), "txscript."),
				addSize(calls[0])))
		}
	}
	sort.Strings(rows)
	if len(rows) == 0 {
		fail("valueAfterAccountUpdate switch not found")
	}
	l.p("/-- `valueAfterAccountUpdate`: supported output class -> size added to the estimator -/")
	l.p("def vauOutputSwitch : List (String × Nat) := [%s]", strings.Join(rows, ", "))

	// OutputWithFee.CloseOutputs: class -> (output size added, dust script size).
	rows = nil
	for _, cc := range acctmodSwitchClauses(findFunc(acct, "OutputWithFee.CloseOutputs"), "pkScript.Class()") {
		if cc.List == nil {
			continue
		}
		calls := acctmodEstimatorCalls(cc.Body)
		dust := ""
		for _, st := range cc.Body {
			ast.Inspect(st, func(n ast.Node) bool {
				if c, ok := n.(*ast.CallExpr); ok &&
					exprString(c.Fun) == "lnwallet.DustLimitForSize" && len(c.Args) == 1 {

					if s, ok := c.Args[0].(*ast.SelectorExpr); ok {
						dust = intConst(ice, "lnd/input", s.Sel.Name)
					}
				}
				return true
			})
		}
		if len(calls) != 1 || dust == "" {
			fail("CloseOutputs: case without one estimator call and a dust limit")
			continue
		}
		for _, e := range cc.List {
			rows = append(rows, fmt.Sprintf("(%q, %s, %s)", strings.TrimPrefix(exprString(e), "txscript."),
				addSize(calls[0]), dust))
		}
	}
	sort.Strings(rows)
	if len(rows) == 0 {
		fail("CloseOutputs switch not found")
	}
	l.p("/-- `OutputWithFee.CloseOutputs`: class -> (output size added, script size handed to DustLimitForSize) -/")
	l.p("def closeOutputSwitch : List (String × Nat × Nat) := [%s]", strings.Join(rows, ", "))

	// addBaseAccountModificationWeight: the account output is added as ...
	base := findFunc(acct, "addBaseAccountModificationWeight")
	baseOut := "0"
	if base != nil {
		calls := []string{}
		ast.Inspect(base.Body, func(n ast.Node) bool {
			if c, ok := n.(*ast.CallExpr); ok {
				if s, ok := c.Fun.(*ast.SelectorExpr); ok && exprString(s.X) == "weightEstimator" {
					calls = append(calls, s.Sel.Name)
				}
			}
			return true
		})
		if len(calls) == 2 && calls[0] == "AddWitnessInput" {
			baseOut = addSize(calls[1])
		} else {
			fail("addBaseAccountModificationWeight: unexpected estimator calls %v", calls)
		}
	} else {
		fail("addBaseAccountModificationWeight not found")
	}
	l.p("/-- size of the re-created account output added by `addBaseAccountModificationWeight` -/")
	l.p("def baseAccountOutputSize : Nat := %s", baseOut)

	// validateAccountExpiry: is the window arithmetic widened to 64 bits?
	ve := findFunc(acct, "validateAccountExpiry")
	wide := true
	nCmp, nAdd := 0, 0
	if ve != nil {
		ast.Inspect(ve.Body, func(n ast.Node) bool {
			switch x := n.(type) {
			case *ast.IfStmt:
				if b, ok := x.Cond.(*ast.BinaryExpr); ok &&
					(b.Op == token.LSS || b.Op == token.GTR) {

					nCmp++
				}
			case *ast.BinaryExpr:
				// every sum involving bestHeight must be taken
				// after widening it to 64 bits
				if x.Op == token.ADD && strings.Contains(exprString(x), "bestHeight") {
					nAdd++
					if !strings.Contains(exprString(x), "int64(bestHeight)") {
						wide = false
					}
				}
			}
			return true
		})
	}
	if nAdd < 2 {
		fail("validateAccountExpiry: window sums not found")
	}
	if ve == nil || nCmp != 2 {
		fail("validateAccountExpiry: expected two window comparisons")
	}
	l.p("/-- `validateAccountExpiry` computes `bestHeight + min/maxAccountExpiry` in 64 bits (no uint32 wrap) -/")
	l.p("def expiryWindowWide : Bool := %s", leanBool(wide))
	// DepositAccount: is the new value checked against MinAccountValue?
	dep := findFunc(acct, "manager.DepositAccount")
	depMin := false
	if dep == nil {
		fail("DepositAccount not found")
	} else {
		ast.Inspect(dep.Body, func(n ast.Node) bool {
			if is, ok := n.(*ast.IfStmt); ok {
				c := canonCmp(is.Cond)
				if c == "newAccountValue < MinAccountValue" {
					depMin = true
				}
			}
			return true
		})
	}
	l.p("/-- `DepositAccount` refuses a new value below `MinAccountValue` -/")
	l.p("def depositChecksMin : Bool := %s", leanBool(depMin))
	// WithdrawAccount: are outputs paying to the new account script refused?
	wd := findFunc(acct, "manager.WithdrawAccount")
	own := false
	if wd == nil {
		fail("WithdrawAccount not found")
	} else {
		ast.Inspect(wd.Body, func(n ast.Node) bool {
			rs, ok := n.(*ast.RangeStmt)
			if !ok || exprString(rs.X) != "outputs" {
				return true
			}
			ast.Inspect(rs.Body, func(m ast.Node) bool {
				if is, ok := m.(*ast.IfStmt); ok &&
					exprString(is.Cond) == "bytes.Equal(out.PkScript, newAccountOutput.PkScript)" &&
					len(is.Body.List) == 1 {

					if _, ok := is.Body.List[0].(*ast.ReturnStmt); ok {
						own = true
					}
				}
				return true
			})
			return true
		})
	}
	l.p("/-- `WithdrawAccount` refuses a requested output that pays to the new account script -/")
	l.p("def withdrawRefusesOwnScript : Bool := %s", leanBool(own))

	// determineWitnessType: the condition under which the expiry path is
	// taken (all `if`s of the function, canonicalised, deduplicated).
	dw := findFunc(acct, "determineWitnessType")
	var conds []string
	if dw == nil {
		fail("determineWitnessType not found")
	} else {
		seen := map[string]bool{}
		ast.Inspect(dw.Body, func(n ast.Node) bool {
			if is, ok := n.(*ast.IfStmt); ok {
				c := canonCmp(is.Cond)
				if !seen[c] {
					seen[c] = true
					conds = append(conds, c)
				}
			}
			return true
		})
		nAssign := 0
		ast.Inspect(dw.Body, func(n ast.Node) bool {
			if _, ok := n.(*ast.AssignStmt); ok {
				nAssign++
			}
			return true
		})
		if nAssign > 0 {
			conds = append(conds, "<local variables>")
		}
	}
	l.p("/-- `determineWitnessType`: the distinct `if` conditions selecting the expiry witness -/")
	l.p("def expiredConds : List String := %s", leanStrList(conds))

	// spendAccount: lock time per witness type (`lockTime = X` in each case).
	sp := findFunc(acct, "manager.spendAccount")
	var lrows []string
	for _, cc := range acctmodSwitchClauses(sp, "witnessType") {
		if cc.List == nil {
			continue
		}
		lt := ""
		for _, st := range cc.Body {
			if as, ok := st.(*ast.AssignStmt); ok && len(as.Lhs) == 1 &&
				exprString(as.Lhs[0]) == "lockTime" {

				lt = exprString(as.Rhs[0])
			}
		}
		for _, e := range cc.List {
			lrows = append(lrows, fmt.Sprintf("(%s, %q)", intConst(ace, "account", exprString(e)), lt))
		}
	}
	sort.Strings(lrows)
	if len(lrows) == 0 {
		fail("spendAccount lock time switch not found")
	}
	l.p("/-- `spendAccount`: witness type -> expression assigned to the lock time -/")
	l.p("def lockTimeSwitch : List (Nat × String) := [%s]", strings.Join(lrows, ", "))
	l.p("end Pool.Gen.C07")
}
