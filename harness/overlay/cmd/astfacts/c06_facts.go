//go:build verif

package main

import (
	"fmt"
	"go/ast"
	"go/token"
	"sort"
	"strings"
)

func init() {
	jobs = append(jobs, job{props: []string{"C06", "C13"}, fn: genC06})
}

// modifierCtors lists the exported constructors of a package that return the
// package's `Modifier` type together with the struct field their closure
// assigns: `func X(...) Modifier { return func(o *T) { o.F = ... } }`.
func modifierCtors(files []*ast.File, pkg string) [][2]string {
	var res [][2]string
	for _, f := range files {
		for _, d := range f.Decls {
			fd, ok := d.(*ast.FuncDecl)
			if !ok || fd.Recv != nil || fd.Type.Results == nil ||
				len(fd.Type.Results.List) != 1 {
				continue
			}
			id, ok := fd.Type.Results.List[0].Type.(*ast.Ident)
			if !ok || id.Name != "Modifier" {
				continue
			}
			// body: a single return of a func literal with one
			// assignment statement to a field of its parameter.
			field := ""
			if len(fd.Body.List) == 1 {
				if rs, ok := fd.Body.List[0].(*ast.ReturnStmt); ok && len(rs.Results) == 1 {
					if fl, ok := rs.Results[0].(*ast.FuncLit); ok && len(fl.Body.List) == 1 {
						if as, ok := fl.Body.List[0].(*ast.AssignStmt); ok &&
							as.Tok == token.ASSIGN && len(as.Lhs) == 1 {
							if se, ok := as.Lhs[0].(*ast.SelectorExpr); ok {
								field = se.Sel.Name
							}
						}
					}
				}
			}
			if field == "" {
				fail("%s.%s: Modifier constructor body is not `return func(x){x.F = ...}`",
					pkg, fd.Name.Name)
				continue
			}
			res = append(res, [2]string{fd.Name.Name, field})
		}
	}
	sort.Slice(res, func(i, j int) bool { return res[i][0] < res[j][0] })
	return res
}

// ifaceMethods returns the sorted method names of a named interface type.
func ifaceMethods(files []*ast.File, pkg, name string) []string {
	for _, f := range files {
		for _, d := range f.Decls {
			gd, ok := d.(*ast.GenDecl)
			if !ok || gd.Tok != token.TYPE {
				continue
			}
			for _, s := range gd.Specs {
				ts := s.(*ast.TypeSpec)
				if ts.Name.Name != name {
					continue
				}
				it, ok := ts.Type.(*ast.InterfaceType)
				if !ok {
					fail("%s.%s is not an interface", pkg, name)
					return nil
				}
				var ms []string
				for _, m := range it.Methods.List {
					if len(m.Names) == 0 {
						ms = append(ms, "embedded:"+exprString(m.Type))
						continue
					}
					for _, n := range m.Names {
						ms = append(ms, n.Name)
					}
				}
				sort.Strings(ms)
				return ms
			}
		}
	}
	fail("interface %s.%s not found", pkg, name)
	return nil
}

// noLatestTxStates extracts the states of the `switch a.State` in
// serializeAccount / deserializeAccount whose (empty) case skips LatestTx.
func noLatestTxStates(files []*ast.File, fn string, ce *constEnv) []string {
	fd := findFunc(files, fn)
	if fd == nil {
		fail("clientdb.%s not found", fn)
		return nil
	}
	var res []string
	found := false
	ast.Inspect(fd.Body, func(n ast.Node) bool {
		sw, ok := n.(*ast.SwitchStmt)
		if !ok || sw.Tag == nil || exprString(sw.Tag) != "a.State" {
			return true
		}
		for _, c := range sw.Body.List {
			cc := c.(*ast.CaseClause)
			if cc.List == nil {
				// default: must touch LatestTx
				if !strings.Contains(c06CaseBodyString(cc), "LatestTx") {
					fail("clientdb.%s: default case does not handle LatestTx", fn)
				}
				continue
			}
			if len(cc.Body) != 0 {
				fail("clientdb.%s: non-default case of switch a.State has a body", fn)
			}
			for _, e := range cc.List {
				name := exprString(e)
				name = strings.TrimPrefix(name, "account.")
				res = append(res, intConst(ce, "account", name))
			}
		}
		found = true
		return false
	})
	if !found {
		fail("clientdb.%s: switch a.State not found", fn)
	}
	return res
}

func c06CaseBodyString(n ast.Node) string {
	var sb strings.Builder
	for _, s := range n.(*ast.CaseClause).Body {
		sb.WriteString(stmtString(s))
	}
	return sb.String()
}

func stmtString(s ast.Stmt) string {
	var sb strings.Builder
	ast.Inspect(s, func(n ast.Node) bool {
		if id, ok := n.(*ast.Ident); ok {
			sb.WriteString(id.Name + " ")
		}
		return true
	})
	return sb.String()
}

// c06Roles identifies the values used inside one function by ROLE instead of
// by the spelling of local names: parameters of the function are `$i`,
// parameters of a function literal inside it are `cb$i`, and a local that has
// one defining expression (possibly repeated identically) is replaced by that
// expression (`#i` selects the i-th result of a multi-value definition);
// locals with several different definitions (err, ok) render as `?`.
type c06Roles struct {
	params map[string]string
	defs   map[string]string // local name -> rendered defining expression
	multi  map[string]bool
	raw    map[string]c06Def
	all    map[string][]c06Def
	// table-driven code: locals that denote one element of a composite-literal table, and the entry in force
	tables map[string][]map[string]ast.Expr
	alias  map[string]string
	entry  map[string]ast.Expr
}

type c06Def struct {
	e   ast.Expr
	idx int
	typ string
}

func c06NewRoles(fd *ast.FuncDecl) *c06Roles {
	r := &c06Roles{params: map[string]string{}, defs: map[string]string{}, multi: map[string]bool{},
		raw: map[string]c06Def{}, all: map[string][]c06Def{}}
	i := 0
	for _, fl := range fd.Type.Params.List {
		for _, n := range fl.Names {
			r.params[n.Name] = fmt.Sprintf("$%d", i)
			i++
		}
	}
	var defsSeen = map[string][]c06Def{}
	add := func(name string, d c06Def) {
		if name == "_" {
			return
		}
		defsSeen[name] = append(defsSeen[name], d)
	}
	ast.Inspect(fd.Body, func(n ast.Node) bool {
		switch x := n.(type) {
		case *ast.FuncLit:
			j := 0
			for _, fl := range x.Type.Params.List {
				for _, nm := range fl.Names {
					if nm.Name != "_" {
						r.params[nm.Name] = fmt.Sprintf("cb$%d", j)
					}
					j++
				}
			}
		case *ast.AssignStmt:
			if len(x.Rhs) == 1 {
				for k, l := range x.Lhs {
					if id, ok := l.(*ast.Ident); ok {
						idx := -1
						if len(x.Lhs) > 1 {
							idx = k
						}
						add(id.Name, c06Def{e: x.Rhs[0], idx: idx})
					}
				}
			} else if len(x.Rhs) == len(x.Lhs) {
				for k, l := range x.Lhs {
					if id, ok := l.(*ast.Ident); ok {
						add(id.Name, c06Def{e: x.Rhs[k], idx: -1})
					}
				}
			}
		case *ast.ValueSpec:
			for k, nm := range x.Names {
				switch {
				case len(x.Values) == len(x.Names):
					add(nm.Name, c06Def{e: x.Values[k], idx: -1})
				case len(x.Values) == 0 && x.Type != nil:
					add(nm.Name, c06Def{typ: exprString(x.Type), idx: -1})
				}
			}
		case *ast.RangeStmt:
			for _, l := range []ast.Expr{x.Key, x.Value} {
				if id, ok := l.(*ast.Ident); ok && id != nil {
					add(id.Name, c06Def{typ: "range", idx: -1})
					add(id.Name, c06Def{typ: "range2", idx: -1})
				}
			}
		}
		return true
	})
	// a declaration without value followed by exactly one kind of
	// assignment (var o T … o, err = f()) is defined by the assignment
	for name, ds := range defsSeen {
		var vals []c06Def
		for _, d := range ds {
			if d.e != nil {
				vals = append(vals, d)
			}
		}
		if len(vals) == 0 {
			r.raw[name] = ds[0]
			if len(ds) > 1 {
				r.multi[name] = true
			}
			continue
		}
		r.raw[name] = vals[0]
		r.all[name] = vals
		first := exprString(vals[0].e) + fmt.Sprint(vals[0].idx)
		for _, d := range vals[1:] {
			if exprString(d.e)+fmt.Sprint(d.idx) != first {
				r.multi[name] = true
			}
		}
	}
	return r
}

// scanTables finds `T := [...]S{{f: v, …}, …}` tables and the locals that
// denote one of their elements (`x := &T[i]`, `x := T[i]`, `for _, x := range T`).
func (r *c06Roles) scanTables(fd *ast.FuncDecl) {
	r.tables = map[string][]map[string]ast.Expr{}
	r.alias = map[string]string{}
	elemOf := func(e ast.Expr) string {
		if u, ok := e.(*ast.UnaryExpr); ok {
			e = u.X
		}
		if ix, ok := e.(*ast.IndexExpr); ok {
			if id, ok := ix.X.(*ast.Ident); ok {
				return id.Name
			}
		}
		return ""
	}
	ast.Inspect(fd.Body, func(n ast.Node) bool {
		switch x := n.(type) {
		case *ast.AssignStmt:
			if len(x.Lhs) == 1 && len(x.Rhs) == 1 {
				id, ok := x.Lhs[0].(*ast.Ident)
				if !ok {
					return true
				}
				if cl, ok := x.Rhs[0].(*ast.CompositeLit); ok {
					var entries []map[string]ast.Expr
					for _, el := range cl.Elts {
						ecl, ok := el.(*ast.CompositeLit)
						if !ok {
							return true
						}
						m := map[string]ast.Expr{}
						for _, kv := range ecl.Elts {
							if p, ok := kv.(*ast.KeyValueExpr); ok {
								if k, ok := p.Key.(*ast.Ident); ok {
									m[k.Name] = p.Value
								}
							}
						}
						entries = append(entries, m)
					}
					if len(entries) > 0 {
						r.tables[id.Name] = entries
					}
				} else if t := elemOf(x.Rhs[0]); t != "" {
					r.alias[id.Name] = t
				}
			}
		case *ast.RangeStmt:
			if v, ok := x.Value.(*ast.Ident); ok {
				if t, ok := x.X.(*ast.Ident); ok {
					r.alias[v.Name] = t.Name
				}
			}
		}
		return true
	})
}

func (r *c06Roles) renderDef(d c06Def, depth int) string {
	s := c06AbstractOrder(r.render(d.e, depth+1))
	switch d.e.(type) {
	case *ast.BinaryExpr, *ast.UnaryExpr, *ast.StarExpr, *ast.TypeAssertExpr:
		s = "(" + s + ")"
	}
	if d.idx >= 0 {
		s = c06AbstractOrder("(" + s + ")" + fmt.Sprintf("#%d", d.idx))
	}
	return s
}

func (r *c06Roles) render(e ast.Expr, depth int) string {
	switch x := e.(type) {
	case *ast.Ident:
		if p, ok := r.params[x.Name]; ok {
			return p
		}
		if r.multi[x.Name] {
			// several textually different definitions: the same value if
			// they all RENDER the same (e.g. both are the decoded order)
			if depth >= 6 {
				return "?"
			}
			seen := ""
			for _, d := range r.all[x.Name] {
				one := r.renderDef(d, depth)
				if seen != "" && one != seen {
					return "?"
				}
				seen = one
			}
			if seen == "" {
				return "?"
			}
			return seen
		}
		if d, ok := r.raw[x.Name]; ok && depth < 8 {
			if d.e == nil {
				return "var:" + d.typ
			}
			s := r.render(d.e, depth+1)
			switch d.e.(type) {
			case *ast.BinaryExpr, *ast.UnaryExpr, *ast.StarExpr, *ast.TypeAssertExpr:
				s = "(" + s + ")"
			}
			if d.idx >= 0 {
				s = "(" + s + ")" + fmt.Sprintf("#%d", d.idx)
			}
			return s
		}
		return x.Name
	case *ast.SelectorExpr:
		if id, ok := x.X.(*ast.Ident); ok && r.entry != nil {
			if _, isAlias := r.alias[id.Name]; isAlias {
				if v, ok := r.entry[x.Sel.Name]; ok {
					return r.render(v, depth+1)
				}
			}
		}
		return r.render(x.X, depth) + "." + x.Sel.Name
	case *ast.CallExpr:
		var as []string
		for _, a := range x.Args {
			as = append(as, r.render(a, depth))
		}
		return r.render(x.Fun, depth) + "(" + strings.Join(as, ",") + ")"
	case *ast.UnaryExpr:
		return x.Op.String() + r.render(x.X, depth)
	case *ast.TypeAssertExpr:
		return r.render(x.X, depth) + ".(" + exprString(x.Type) + ")"
	case *ast.SliceExpr:
		return r.render(x.X, depth) + "[:]"
	case *ast.ParenExpr:
		return r.render(x.X, depth)
	case *ast.StarExpr:
		return "*" + r.render(x.X, depth)
	}
	return exprString(e)
}

// c06Call is one call found in a function or in a same-package helper it
// calls (helpers are inlined: their parameters stand for the rendered
// arguments of the call site, so an extracted helper yields the same fact).
type c06Call struct {
	name   string
	args   []string
	inLit  bool // inside a function literal of the root function
}

var c06PkgFiles []*ast.File

func c06Reach(fd *ast.FuncDecl, bind map[string]string, depth int, inLit bool, visit func(c06Call)) {
	roles := c06NewRoles(fd)
	roles.scanTables(fd)
	for k, v := range bind {
		roles.params[k] = v
	}
	var walk func(n ast.Node, lit bool)
	walk = func(n ast.Node, lit bool) {
		ast.Inspect(n, func(m ast.Node) bool {
			if fl, ok := m.(*ast.FuncLit); ok && m != n {
				walk(fl.Body, true)
				return false
			}
			ce, ok := m.(*ast.CallExpr)
			if !ok {
				return true
			}
			if se, ok := ce.Fun.(*ast.SelectorExpr); ok {
				// a call through a function-valued field of a table
				// element: instantiate it for every entry of the table
				if xid, ok := se.X.(*ast.Ident); ok {
					if entries := roles.tables[roles.alias[xid.Name]]; len(entries) > 0 && depth < 2 {
						for _, e := range entries {
							hid, ok := e[se.Sel.Name].(*ast.Ident)
							if !ok {
								continue
							}
							h := findFunc(c06PkgFiles, hid.Name)
							if h == nil || h.Body == nil {
								continue
							}
							roles.entry = e
							b := map[string]string{}
							i := 0
							for _, fl := range h.Type.Params.List {
								for _, nm := range fl.Names {
									if i < len(ce.Args) {
										b[nm.Name] = c06AbstractOrder(roles.render(ce.Args[i], 0))
									}
									i++
								}
							}
							roles.entry = nil
							c06Reach(h, b, depth+1, lit || inLit, visit)
						}
					}
				}
				return true
			}
			id, ok := ce.Fun.(*ast.Ident)
			if !ok {
				return true
			}
			var args []string
			for _, a := range ce.Args {
				args = append(args, c06AbstractOrder(roles.render(a, 0)))
			}
			visit(c06Call{name: id.Name, args: args, inLit: lit || inLit})
			if h := findFunc(c06PkgFiles, id.Name); h != nil && h.Body != nil && depth < 2 &&
				!c06Leaf[id.Name] {
				b := map[string]string{}
				i := 0
				for _, fl := range h.Type.Params.List {
					for _, nm := range fl.Names {
						if i < len(args) {
							b[nm.Name] = args[i]
						}
						i++
					}
				}
				c06Reach(h, b, depth+1, lit || inLit, visit)
			}
			return true
		})
	}
	walk(fd.Body, false)
}

// functions whose calls are the facts themselves (never inlined)
var c06Leaf = map[string]bool{
	"updateOrder": true, "updateAccount": true, "copyOrder": true, "getBucket": true, "getNestedBucket": true,
	"storeEventTX": true, "storeOrderTX": true, "storeOrderMinUnitsMatchTX": true, "storeOrderTlvTX": true,
	"storeOrderMinNoderTierTX": true, "fetchOrderTX": true, "DeserializeOrder": true,
	"deserializeOrderTlvData": true, "SerializeOrder": true, "NewUpdatedEvent": true, "storeAccount": true,
	"readAccount": true, "NewSnapshot": true, "storePendingBatchSnapshot": true,
}

// c06OrderDecoders: DeserializeOrder and every same-package helper that
// returns what DeserializeOrder returned (its body calls a decoder).
func c06OrderDecoders() []string {
	res := []string{"DeserializeOrder"}
	for _, f := range c06PkgFiles {
		for _, d := range f.Decls {
			fd, ok := d.(*ast.FuncDecl)
			if !ok || fd.Body == nil || fd.Recv != nil || c06Leaf[fd.Name.Name] {
				continue
			}
			if fd.Type.Results == nil || len(fd.Type.Results.List) == 0 ||
				exprString(fd.Type.Results.List[0].Type) != "order.Order" {
				continue
			}
			calls := false
			ast.Inspect(fd.Body, func(n ast.Node) bool {
				if ce, ok := n.(*ast.CallExpr); ok {
					if id, ok := ce.Fun.(*ast.Ident); ok && id.Name == "DeserializeOrder" {
						calls = true
					}
				}
				return true
			})
			if calls {
				res = append(res, fd.Name.Name)
			}
		}
	}
	return res
}

var c06Decoders = []string{"DeserializeOrder"}

// c06AbstractOrder replaces every rendered "result 0 of DeserializeOrder(…)"
// by the token ORDER: the order decoded from the fixed-size encoding.
func c06AbstractOrder(s string) string {
	for {
		i := -1
		for _, dname := range c06Decoders {
			if j := strings.Index(s, "("+dname+"("); j >= 0 && (i < 0 || j < i) {
				i = j
			}
		}
		if i < 0 {
			return s
		}
		depth, j := 0, i
		for ; j < len(s); j++ {
			if s[j] == '(' {
				depth++
			} else if s[j] == ')' {
				depth--
				if depth == 0 {
					break
				}
			}
		}
		if j >= len(s) || !strings.HasPrefix(s[j+1:], "#0") {
			return s
		}
		s = s[:i] + "ORDER" + s[j+3:]
	}
}

// callArgs returns, for every call of `callee` inside function `fn`, the
// first `n` arguments identified by role (c06Roles).
func callArgs(files []*ast.File, pkg, fn, callee string, n int) [][]string {
	fd := findFunc(files, fn)
	if fd == nil {
		fail("%s.%s not found", pkg, fn)
		return nil
	}
	var res [][]string
	c06Reach(fd, nil, 0, false, func(c c06Call) {
		if c.name == callee && len(c.args) >= n {
			res = append(res, c.args[:n])
		}
	})
	if len(res) == 0 {
		fail("%s.%s: no call of %s", pkg, fn, callee)
	}
	return res
}

// spendSwitch extracts HandleAccountSpend's `switch err` that follows
// `err := m.cfg.Store.PendingBatch()`: per case, its labels and whether its
// body calls MarkBatchComplete.
func spendSwitch(files []*ast.File) [][2]string {
	fd := findFunc(files, "manager.HandleAccountSpend")
	if fd == nil {
		fail("account.manager.HandleAccountSpend not found")
		return nil
	}
	var res [][2]string
	sawAssign := false
	done := false
	ast.Inspect(fd.Body, func(n ast.Node) bool {
		if done {
			return false
		}
		if as, ok := n.(*ast.AssignStmt); ok && len(as.Rhs) == 1 &&
			exprString(as.Rhs[0]) == "m.cfg.Store.PendingBatch()" && exprString(as.Lhs[0]) == "err" {
			sawAssign = true
		}
		sw, ok := n.(*ast.SwitchStmt)
		if !ok || !sawAssign || sw.Tag == nil || exprString(sw.Tag) != "err" {
			return true
		}
		for _, c := range sw.Body.List {
			cc := c.(*ast.CaseClause)
			label := "default"
			if cc.List != nil {
				var ls []string
				for _, e := range cc.List {
					ls = append(ls, exprString(e))
				}
				label = strings.Join(ls, ",")
			}
			calls := "no"
			for _, st := range cc.Body {
				ast.Inspect(st, func(m ast.Node) bool {
					if ce, ok := m.(*ast.CallExpr); ok &&
						exprString(ce.Fun) == "m.cfg.Store.MarkBatchComplete" {
						calls = "MarkBatchComplete"
					}
					return true
				})
			}
			res = append(res, [2]string{label, calls})
		}
		done = true
		return false
	})
	if !done {
		fail("account.manager.HandleAccountSpend: `switch err` after Store.PendingBatch() not found")
	}
	return res
}

// methodCalls lists the selector calls inside a method body.
func methodCalls(files []*ast.File, pkg, fn string) []string {
	fd := findFunc(files, fn)
	if fd == nil {
		fail("%s.%s not found", pkg, fn)
		return nil
	}
	var res []string
	ast.Inspect(fd.Body, func(n ast.Node) bool {
		if ce, ok := n.(*ast.CallExpr); ok {
			res = append(res, exprString(ce.Fun))
		}
		return true
	})
	return res
}

// c06StoreCalls lists, in source order, every call of a `store…TX` helper in
// the given function as [callee, destination bucket argument, value argument].
func c06StoreCalls(files []*ast.File, fn string) [][]string {
	fd := findFunc(files, fn)
	if fd == nil {
		fail("clientdb.%s not found", fn)
		return nil
	}
	var res [][]string
	c06Reach(fd, nil, 0, false, func(c c06Call) {
		if !strings.HasPrefix(c.name, "store") || !strings.HasSuffix(c.name, "TX") || len(c.args) == 0 {
			return
		}
		// destination bucket, then every value argument (the nonce is skipped)
		var vals []string
		for _, rv := range c.args[1:] {
			if rv != "$2" && rv != "cb$0" {
				vals = append(vals, rv)
			}
		}
		res = append(res, []string{c.name, c.args[0], strings.Join(vals, " | ")})
	})
	if len(res) == 0 {
		fail("clientdb.%s: no store…TX calls", fn)
	}
	return res
}

// c06CallbackDecodes lists the decode helpers called inside the function
// literal(s) of the given function (the fetchOrderTX callback).
func c06CallbackDecodes(files []*ast.File, fn string) []string {
	fd := findFunc(files, fn)
	if fd == nil {
		fail("clientdb.%s not found", fn)
		return nil
	}
	var res []string
	c06Reach(fd, nil, 0, false, func(c c06Call) {
		if c.inLit && strings.Contains(strings.ToLower(c.name), "deserialize") && len(c.args) > 0 {
			res = append(res, c.name+"("+c.args[len(c.args)-1]+")")
		}
	})
	return res
}

// c06StreamCreators lists every function of auctioneer/client.go that calls
// connectServerStream (i.e. (re-)creates the stream to the auctioneer) with
// what it does next: "check-before-subscribe" when a call of
// c.checkPendingBatch() follows the connectServerStream call and precedes
// every account (re-)subscription (errChanSwitch.Divert /
// StartAccountSubscription) of that function, else "no-check".
func c06StreamCreators(files []*ast.File) [][2]string {
	var res [][2]string
	for _, f := range files {
		for _, d := range f.Decls {
			fd, ok := d.(*ast.FuncDecl)
			if !ok || fd.Body == nil || fd.Name.Name == "connectServerStream" {
				continue
			}
			connect, check, subscribe := token.NoPos, token.NoPos, token.NoPos
			ast.Inspect(fd.Body, func(n ast.Node) bool {
				ce, ok := n.(*ast.CallExpr)
				if !ok {
					return true
				}
				switch name := exprString(ce.Fun); {
				case name == "c.connectServerStream" && connect == token.NoPos:
					connect = ce.Pos()
				case name == "c.checkPendingBatch" && connect != token.NoPos && check == token.NoPos:
					check = ce.Pos()
				case (name == "c.errChanSwitch.Divert" || name == "c.StartAccountSubscription") &&
					connect != token.NoPos && subscribe == token.NoPos:
					subscribe = ce.Pos()
				}
				return true
			})
			if connect == token.NoPos {
				continue
			}
			verdict := "no-check"
			if check != token.NoPos && check > connect && (subscribe == token.NoPos || check < subscribe) {
				verdict = "check-before-subscribe"
			}
			res = append(res, [2]string{fd.Name.Name, verdict})
		}
	}
	sort.Slice(res, func(i, j int) bool { return res[i][0] < res[j][0] })
	if len(res) == 0 {
		fail("auctioneer: no caller of connectServerStream found")
	}
	return res
}

// c06TxShape describes how an exported DB mutator uses bbolt: the calls made
// in its top-level statements BEFORE the statement holding db.Update (reads,
// modifier applications or stores there would escape the transaction), and
// the number of db.Update / db.View / db.Account… calls in the whole body.
func c06TxShape(files []*ast.File, fn string) []string {
	fd := findFunc(files, fn)
	if fd == nil {
		fail("clientdb.%s not found", fn)
		return nil
	}
	calls := func(n ast.Node) []string {
		var res []string
		ast.Inspect(n, func(m ast.Node) bool {
			if ce, ok := m.(*ast.CallExpr); ok {
				res = append(res, exprString(ce.Fun))
			}
			return true
		})
		return res
	}
	has := func(xs []string, x string) bool {
		for _, y := range xs {
			if y == x {
				return true
			}
		}
		return false
	}
	var pre []string
	seen := false
	for _, st := range fd.Body.List {
		cs := calls(st)
		if has(cs, "db.Update") {
			seen = true
			break
		}
		pre = append(pre, cs...)
	}
	if !seen {
		fail("clientdb.%s: no top-level statement with db.Update", fn)
	}
	updates, reads := 0, 0
	for _, c := range calls(fd.Body) {
		switch c {
		case "db.Update":
			updates++
		case "db.View", "db.Account", "db.Accounts", "db.GetOrder", "db.GetOrders":
			reads++
		}
	}
	return []string{fn, strings.Join(pre, ","), fmt.Sprintf("updates=%d reads=%d", updates, reads)}
}

func leanPairList(xs [][2]string) string {
	var q []string
	for _, x := range xs {
		q = append(q, "("+leanStr(x[0])+", "+leanStr(x[1])+")")
	}
	return "[" + strings.Join(q, ", ") + "]"
}

func leanStr(s string) string { return `"` + strings.ReplaceAll(s, `"`, `\"`) + `"` }

func leanArgLists(xs [][]string) string {
	var q []string
	for _, x := range xs {
		q = append(q, leanStrList(x))
	}
	return "[" + strings.Join(q, ", ") + "]"
}

// genC06 emits the facts the C06/C13 model consumes: persisted state
// constants, the Modifier constructor tables, the method sets of the
// interfaces checkPendingBatch can act through, the serializer's LatestTx
// rule and the (source, destination) bucket arguments of every
// updateOrder/updateAccount/copyOrder call of the staging code.
func genC06() {
	l := newLean("C06", "Facts for C06/C13: states, Modifier constructors, interface method sets, bucket routing.")
	l.p("namespace Pool.Gen.C06")
	acctFiles := pkgFiles("account")
	orderFiles := pkgFiles("order")
	dbFiles := pkgFiles("clientdb")
	c06PkgFiles = dbFiles
	c06Decoders = c06OrderDecoders()
	aucFiles := pkgFiles("auctioneer")
	acct := newConstEnv(acctFiles)
	ord := newConstEnv(orderFiles)
	for _, n := range []string{"StateInitiated", "StateCanceledAfterRecovery",
		"StatePendingBatch", "StatePendingClosed", "StateClosed"} {
		l.p("def acct%s : Nat := %s", n, intConst(acct, "account", n))
	}
	for _, n := range []string{"StatePartiallyFilled", "StateExecuted"} {
		l.p("def order%s : Nat := %s", n, intConst(ord, "order", n))
	}
	rpc := newConstEnv(pkgFiles("auctioneerrpc"))
	for _, n := range []string{"OUTPUT_RECREATED", "OUTPUT_DUST_EXTENDED_OFFCHAIN",
		"OUTPUT_DUST_ADDED_TO_FEES", "OUTPUT_FULLY_SPENT"} {
		l.p("def diff_%s : Nat := %s", n, intConst(rpc, "auctioneerrpc", "AccountDiff_"+n))
	}
	l.p("def orderModifierCtors : List (String × String) := %s",
		leanPairList(modifierCtors(orderFiles, "order")))
	l.p("def acctModifierCtors : List (String × String) := %s",
		leanPairList(modifierCtors(acctFiles, "account")))
	l.p("def batchCleanerMethods : List String := %s",
		leanStrList(ifaceMethods(aucFiles, "auctioneer", "BatchCleaner")))
	l.p("def batchSourceMethods : List String := %s",
		leanStrList(ifaceMethods(aucFiles, "auctioneer", "BatchSource")))
	l.p("def serializeNoLatestTx : List Nat := [%s]",
		strings.Join(noLatestTxStates(dbFiles, "serializeAccount", acct), ", "))
	l.p("def deserializeNoLatestTx : List Nat := [%s]",
		strings.Join(noLatestTxStates(dbFiles, "deserializeAccount", acct), ", "))
	// bucket routing: (src, dst) of every helper call
	l.p("def stageUpdateOrderArgs : List (List String) := %s",
		leanArgLists(callArgs(dbFiles, "clientdb", "DB.StorePendingBatch", "updateOrder", 2)))
	l.p("def stageUpdateAccountArgs : List (List String) := %s",
		leanArgLists(callArgs(dbFiles, "clientdb", "DB.StorePendingBatch", "updateAccount", 2)))
	l.p("def applyUpdateAccountArgs : List (List String) := %s",
		leanArgLists(callArgs(dbFiles, "clientdb", "applyBatchUpdates", "updateAccount", 2)))
	l.p("def applyCopyOrderArgs : List (List String) := %s",
		leanArgLists(callArgs(dbFiles, "clientdb", "applyBatchUpdates", "copyOrder", 2)))
	l.p("def directUpdateOrderArgs : List (List String) := %s",
		leanArgLists(callArgs(dbFiles, "clientdb", "DB.UpdateOrder", "updateOrder", 2)))
	l.p("def directUpdateOrdersArgs : List (List String) := %s",
		leanArgLists(callArgs(dbFiles, "clientdb", "DB.UpdateOrders", "updateOrder", 2)))
	l.p("def directUpdateAccountArgs : List (List String) := %s",
		leanArgLists(callArgs(dbFiles, "clientdb", "DB.UpdateAccount", "updateAccount", 2)))
	// key-level writes of the two order movers: every key of the order
	// sub-bucket is decoded and rewritten into the destination
	l.p("def updateOrderStores : List (List String) := %s", leanArgLists(c06StoreCalls(dbFiles, "updateOrder")))
	l.p("def copyOrderStores : List (List String) := %s", leanArgLists(c06StoreCalls(dbFiles, "copyOrder")))
	l.p("def updateOrderDecodes : List String := %s", leanStrList(c06CallbackDecodes(dbFiles, "updateOrder")))
	l.p("def copyOrderDecodes : List String := %s", leanStrList(c06CallbackDecodes(dbFiles, "copyOrder")))
	l.p("def getOrderDecodes : List String := %s", leanStrList(c06CallbackDecodes(dbFiles, "DB.GetOrder")))
	var shapes [][]string
	for _, fn := range []string{"DB.StorePendingBatch", "DB.MarkBatchComplete", "DB.DeletePendingBatch",
		"DB.UpdateAccount", "DB.UpdateOrder", "DB.UpdateOrders", "DB.AddAccount", "DB.SubmitOrder", "DB.DeleteOrder"} {
		shapes = append(shapes, c06TxShape(dbFiles, fn))
	}
	l.p("def txShapes : List (List String) := %s", leanArgLists(shapes))
	l.p("def streamCreators : List (String × String) := %s", leanPairList(c06StreamCreators(aucFiles)))
	l.p("def spendSwitch : List (String × String) := %s", leanPairList(spendSwitch(acctFiles)))
	l.p("def accountStorePendingBatchCalls : List String := %s",
		leanStrList(methodCalls(pkgFiles("."), "pool", "accountStore.PendingBatch")))
	l.p("def fundingDeletePendingBatchCalls : List String := %s",
		leanStrList(methodCalls(pkgFiles("funding"), "funding", "Manager.DeletePendingBatch")))
	l.p("end Pool.Gen.C06")
}
