//go:build verif

package main

import (
	"fmt"
	"go/ast"
	"go/printer"
	"go/token"
	"sort"
	"strings"
)

// Facts for C12 (order digests, SubmitOrder field mapping) and C14 (sidecar
// ticket digests): the ORDERED argument list of codec.WriteElements per case of
// the version switch, with the static Go type of every argument resolved from
// the declarations, the statements around the call, and the type switch of
// codec.WriteElement. The Lean model builds the hashed preimage from these
// lists; nothing about the field order is restated by hand.

func init() {
	jobs = append(jobs,
		job{props: []string{"C14"}, fn: digGenTicketDigestFacts},
		job{props: []string{"C12"}, fn: digGenOrderDigestFacts},
		job{props: []string{"C12", "C14"}, fn: digGenCodecFacts},
	)
}

// ---------------------------------------------------------------- helpers

// digNodeString prints any AST node on one line (whitespace collapsed).
func digNodeString(n ast.Node) string {
	var s string
	switch x := n.(type) {
	case ast.Expr:
		s = exprString(x)
	default:
		var sb strings.Builder
		printer.Fprint(&sb, fset, n)
		s = sb.String()
	}
	return strings.Join(strings.Fields(s), " ")
}

// digTypeEnv resolves the static type of simple expressions (identifiers,
// selector chains with embedded-field promotion, conversions, full slices of
// arrays) from the struct and type declarations of one package.
type digTypeEnv struct {
	types  map[string]ast.Expr // named type -> its declared type expression
	locals map[string]string   // identifier -> type string
}

func digNewTypeEnv(files []*ast.File) *digTypeEnv {
	te := &digTypeEnv{types: map[string]ast.Expr{}, locals: map[string]string{}}
	for _, f := range files {
		for _, d := range f.Decls {
			gd, ok := d.(*ast.GenDecl)
			if !ok || gd.Tok != token.TYPE {
				continue
			}
			for _, s := range gd.Specs {
				ts := s.(*ast.TypeSpec)
				te.types[ts.Name.Name] = ts.Type
			}
		}
	}
	return te
}

// fieldType finds field `name` in struct type `tn` (directly or promoted
// through embedded structs of the same package).
func (te *digTypeEnv) fieldType(tn, name string, depth int) (string, bool) {
	tn = strings.TrimPrefix(tn, "*")
	st, ok := te.types[tn].(*ast.StructType)
	if !ok || depth > 4 {
		return "", false
	}
	for _, f := range st.Fields.List {
		for _, n := range f.Names {
			if n.Name == name {
				return exprString(f.Type), true
			}
		}
	}
	for _, f := range st.Fields.List {
		if len(f.Names) == 0 {
			if t, ok := te.fieldType(exprString(f.Type), name, depth+1); ok {
				return t, true
			}
		}
	}
	return "", false
}

// underlying follows named types of the package to a non-identifier type.
func (te *digTypeEnv) underlying(t string) ast.Expr {
	for i := 0; i < 4; i++ {
		e, ok := te.types[t]
		if !ok {
			return nil
		}
		if id, ok := e.(*ast.Ident); ok {
			t = id.Name
			continue
		}
		return e
	}
	return nil
}

func (te *digTypeEnv) typeOf(e ast.Expr) (string, bool) {
	switch x := e.(type) {
	case *ast.Ident:
		t, ok := te.locals[x.Name]
		return t, ok
	case *ast.ParenExpr:
		return te.typeOf(x.X)
	case *ast.SelectorExpr:
		tx, ok := te.typeOf(x.X)
		if !ok {
			return "", false
		}
		return te.fieldType(tx, x.Sel.Name, 0)
	case *ast.CallExpr:
		// conversion T(x) to a builtin numeric type
		if id, ok := x.Fun.(*ast.Ident); ok && len(x.Args) == 1 {
			switch id.Name {
			case "uint8", "uint16", "uint32", "uint64", "int8", "int16",
				"int32", "int64", "bool", "byte":
				return id.Name, true
			}
		}
		return "", false
	case *ast.SliceExpr:
		if x.Low != nil || x.High != nil || x.Max != nil {
			return "", false
		}
		tx, ok := te.typeOf(x.X)
		if !ok {
			return "", false
		}
		var at *ast.ArrayType
		if u := te.underlying(tx); u != nil {
			at, _ = u.(*ast.ArrayType)
		} else if strings.HasPrefix(tx, "[") {
			// literal array type such as [8]byte
			return tx + "[:]", true
		}
		if at == nil || at.Len == nil {
			return "", false
		}
		return "[" + exprString(at.Len) + "]" + exprString(at.Elt) + "[:]", true
	}
	return "", false
}

type digDigestArg struct{ expr, goType string }

type digDigestCase struct {
	labels   []string
	versions []string
	pre      []string
	args     []digDigestArg
	post     []string
}

type digDigestFn struct {
	name  string
	head  []string
	tag   string
	cases []digDigestCase
	dflt  []string
	tail  []string
}

// ---- symbolic evaluation of a digest function --------------------------------
//
// The facts are the per-version ELEMENT LIST handed to codec.WriteElements, not
// the spelling of the function: the evaluator follows element slices
// (`x := []interface{}{…}`, `x = append(x, …)`), one or several WriteElements
// calls before, inside and after the version switch (also in an `if err := …`
// header), simple local definitions, and `return recv.helper(list)` into a
// helper method of the same receiver. Guards (`if cond { return …, err }` before
// anything is written), the switch tag, whether the default clause is an error
// and whether the result is SHA-256 of the written buffer are facts as well.

type digState struct {
	lists   map[string][]ast.Expr
	defs    map[string]ast.Expr
	locals  map[string]string
	written []ast.Expr
	pre     []string
	guards  []string
}

func (st *digState) clone() *digState {
	c := &digState{lists: map[string][]ast.Expr{}, defs: map[string]ast.Expr{}, locals: map[string]string{}}
	for k, v := range st.lists {
		c.lists[k] = append([]ast.Expr(nil), v...)
	}
	for k, v := range st.defs {
		c.defs[k] = v
	}
	for k, v := range st.locals {
		c.locals[k] = v
	}
	c.written = append([]ast.Expr(nil), st.written...)
	c.pre = append([]string(nil), st.pre...)
	c.guards = append([]string(nil), st.guards...)
	return c
}

type digCaseInfo struct {
	labels, versions []string
	isDefault        bool
}

type digEval struct {
	files     []*ast.File
	te        *digTypeEnv
	ce        *constEnv
	pkg, name string
	recv      string
	res       *digDigestFn
	finals    map[string]bool
	depth     int
	broken    bool
}

func (ev *digEval) failf(format string, a ...interface{}) {
	ev.broken = true
	fail("%s.%s: %s", ev.pkg, ev.name, fmt.Sprintf(format, a...))
}

func digIsNil(e ast.Expr) bool {
	id, ok := e.(*ast.Ident)
	return ok && id.Name == "nil"
}

// digWriteCall recognises codec.WriteElements(&buf, args…).
func digWriteCall(e ast.Expr) *ast.CallExpr {
	call, ok := e.(*ast.CallExpr)
	if !ok || exprString(call.Fun) != "codec.WriteElements" || len(call.Args) < 1 {
		return nil
	}
	return call
}

func (ev *digEval) write(st *digState, call *ast.CallExpr) {
	args := call.Args[1:]
	for i, a := range args {
		if call.Ellipsis.IsValid() && i == len(args)-1 {
			id, ok := a.(*ast.Ident)
			if !ok || st.lists[id.Name] == nil {
				ev.failf("WriteElements(%s...): element list not recoverable", digNodeString(a))
				return
			}
			st.written = append(st.written, st.lists[id.Name]...)
			continue
		}
		st.written = append(st.written, a)
	}
}

// returnsError: the statement list ends in a return whose last result is not nil.
func digReturnsError(body []ast.Stmt) bool {
	if len(body) == 0 {
		return false
	}
	r, ok := body[len(body)-1].(*ast.ReturnStmt)
	return ok && len(r.Results) >= 1 && !digIsNil(r.Results[len(r.Results)-1]) &&
		digWriteCall(r.Results[len(r.Results)-1]) == nil && len(r.Results) >= 2
}

func digIsErrCheck(cond ast.Expr) bool {
	b, ok := cond.(*ast.BinaryExpr)
	if !ok || b.Op != token.NEQ {
		return false
	}
	x, y := digNodeString(b.X), digNodeString(b.Y)
	return (x == "err" && y == "nil") || (x == "nil" && y == "err")
}

func (ev *digEval) finish(st *digState, ci *digCaseInfo, kind string) {
	if ci == nil {
		ev.failf("no version switch on the path to a result (%s)", kind)
		return
	}
	if ci.isDefault {
		if kind == "error" {
			ev.res.dflt = []string{"error"}
		} else {
			ev.res.dflt = []string{kind}
		}
		return
	}
	ev.finals[kind] = true
	dc := digDigestCase{labels: ci.labels, versions: ci.versions, pre: st.pre}
	saved := ev.te.locals
	ev.te.locals = st.locals
	for _, a := range st.written {
		expr := a
		if id, ok := a.(*ast.Ident); ok && st.defs[id.Name] != nil {
			expr = st.defs[id.Name]
		}
		t, ok := ev.te.typeOf(expr)
		if !ok {
			ev.failf("case %v: static type of %s not resolvable", ci.labels, digNodeString(expr))
			t = "?"
		}
		dc.args = append(dc.args, digDigestArg{digNodeString(expr), t})
	}
	ev.te.locals = saved
	if ev.res.head == nil {
		ev.res.head = st.guards
	} else if strings.Join(ev.res.head, ";") != strings.Join(st.guards, ";") {
		ev.failf("guards differ between version cases")
	}
	ev.res.cases = append(ev.res.cases, dc)
}

func (ev *digEval) run(stmts []ast.Stmt, st *digState, ci *digCaseInfo) {
	for i, s := range stmts {
		if ev.broken {
			return
		}
		switch x := s.(type) {
		case *ast.DeclStmt:
			gd, ok := x.Decl.(*ast.GenDecl)
			if !ok || gd.Tok != token.VAR {
				st.pre = append(st.pre, digNodeString(s))
				continue
			}
			for _, sp := range gd.Specs {
				vs := sp.(*ast.ValueSpec)
				if vs.Type == nil {
					// var x = expr: a simple definition
					for k, n := range vs.Names {
						if k < len(vs.Values) {
							st.defs[n.Name] = vs.Values[k]
						}
					}
					continue
				}
				ts := exprString(vs.Type)
				for _, n := range vs.Names {
					st.locals[n.Name] = ts
				}
				// the buffer and the result array are plumbing
				if ts == "bytes.Buffer" || (strings.HasPrefix(ts, "[") && strings.HasSuffix(ts, "]byte")) {
					continue
				}
				for _, n := range vs.Names {
					st.pre = append(st.pre, "var "+n.Name+" "+ts)
				}
			}

		case *ast.AssignStmt:
			if len(x.Rhs) == 1 {
				if call := digWriteCall(x.Rhs[0]); call != nil {
					ev.write(st, call)
					continue
				}
				if len(x.Lhs) == 1 {
					if id, ok := x.Lhs[0].(*ast.Ident); ok {
						if cl, ok := x.Rhs[0].(*ast.CompositeLit); ok &&
							digNodeString(cl.Type) == "[]interface{}" {

							st.lists[id.Name] = append([]ast.Expr(nil), cl.Elts...)
							continue
						}
						if call, ok := x.Rhs[0].(*ast.CallExpr); ok && exprString(call.Fun) == "append" &&
							len(call.Args) >= 1 && !call.Ellipsis.IsValid() {

							if src, ok := call.Args[0].(*ast.Ident); ok && st.lists[src.Name] != nil {
								st.lists[id.Name] = append(append([]ast.Expr(nil),
									st.lists[src.Name]...), call.Args[1:]...)
								continue
							}
						}
						if x.Tok == token.DEFINE {
							st.defs[id.Name] = x.Rhs[0]
							continue
						}
					}
				}
			}
			st.pre = append(st.pre, digNodeString(s))

		case *ast.ExprStmt:
			if call := digWriteCall(x.X); call != nil {
				ev.write(st, call)
				continue
			}
			st.pre = append(st.pre, digNodeString(s))

		case *ast.IfStmt:
			if x.Init != nil {
				if as, ok := x.Init.(*ast.AssignStmt); ok && len(as.Rhs) == 1 {
					if call := digWriteCall(as.Rhs[0]); call != nil && digIsErrCheck(x.Cond) {
						ev.write(st, call)
						continue
					}
				}
			}
			if digIsErrCheck(x.Cond) && x.Else == nil {
				continue // error plumbing of a preceding write
			}
			if x.Else == nil && x.Init == nil && digReturnsError(x.Body.List) &&
				len(st.written) == 0 && ci == nil {

				st.guards = append(st.guards, digNodeString(x.Cond))
				continue
			}
			st.pre = append(st.pre, digNodeString(s))

		case *ast.SwitchStmt:
			if ci != nil || x.Tag == nil || x.Init != nil {
				ev.failf("unexpected switch statement")
				return
			}
			tag := x.Tag
			if id, ok := tag.(*ast.Ident); ok && st.defs[id.Name] != nil {
				tag = st.defs[id.Name]
			}
			if ev.res.tag != "" && ev.res.tag != digNodeString(tag) {
				ev.failf("two different version switches")
				return
			}
			ev.res.tag = digNodeString(tag)
			seenDefault := false
			for _, c := range x.Body.List {
				cc := c.(*ast.CaseClause)
				info := &digCaseInfo{isDefault: cc.List == nil}
				seenDefault = seenDefault || info.isDefault
				for _, l := range cc.List {
					info.labels = append(info.labels, digNodeString(l))
					id, ok := l.(*ast.Ident)
					if !ok {
						ev.failf("case label %s is not a constant name", digNodeString(l))
						return
					}
					info.versions = append(info.versions, intConst(ev.ce, ev.pkg, id.Name))
				}
				rest := append(append([]ast.Stmt(nil), cc.Body...), stmts[i+1:]...)
				ev.run(rest, st.clone(), info)
			}
			if !seenDefault {
				ev.failf("version switch has no default clause")
			}
			return

		case *ast.ReturnStmt:
			n := len(x.Results)
			switch {
			case n >= 2 && !digIsNil(x.Results[n-1]):
				ev.finish(st, ci, "error")
			case n >= 2:
				// success: what is returned?
				r0 := digNodeString(x.Results[0])
				if strings.HasPrefix(r0, "sha256.Sum256(") && strings.HasSuffix(r0, ".Bytes())") {
					ev.finish(st, ci, "sha256")
				} else {
					ev.finish(st, ci, "other:"+r0)
				}
			case n == 1:
				// return recv.helper(list…): follow a helper of the same receiver
				call, ok := x.Results[0].(*ast.CallExpr)
				sel, ok2 := (ast.Expr)(nil), false
				if ok {
					var se *ast.SelectorExpr
					se, ok2 = call.Fun.(*ast.SelectorExpr)
					if ok2 {
						sel = se.X
					}
				}
				if !ok || !ok2 || digNodeString(sel) != ev.recv || ev.depth >= 2 {
					ev.failf("result %s not understood", digNodeString(x.Results[0]))
					return
				}
				recvT := strings.TrimPrefix(ev.te.locals[ev.recv], "*")
				if recvT == "" {
					recvT = strings.TrimPrefix(st.locals[ev.recv], "*")
				}
				h := findFunc(ev.files, recvT+"."+call.Fun.(*ast.SelectorExpr).Sel.Name)
				if h == nil || h.Body == nil || h.Recv == nil || len(h.Recv.List[0].Names) != 1 ||
					h.Recv.List[0].Names[0].Name != ev.recv {

					ev.failf("helper %s not found / different receiver name", digNodeString(call.Fun))
					return
				}
				st2 := st.clone()
				k := 0
				for _, f := range h.Type.Params.List {
					for _, pn := range f.Names {
						if k < len(call.Args) {
							if id, ok := call.Args[k].(*ast.Ident); ok && st.lists[id.Name] != nil {
								st2.lists[pn.Name] = append([]ast.Expr(nil), st.lists[id.Name]...)
							} else {
								st2.defs[pn.Name] = call.Args[k]
							}
						}
						k++
					}
				}
				ev.depth++
				ev.run(h.Body.List, st2, ci)
				ev.depth--
			default:
				ev.failf("bare return")
			}
			return

		default:
			st.pre = append(st.pre, digNodeString(s))
		}
	}
	ev.failf("function end reached without a return")
}

// digExtractDigestFn evaluates one `Digest`-style method symbolically.
func digExtractDigestFn(files []*ast.File, te *digTypeEnv, ce *constEnv,
	pkg, name string) *digDigestFn {

	fd := findFunc(files, name)
	if fd == nil || fd.Body == nil {
		fail("%s.%s not found", pkg, name)
		return nil
	}
	ev := &digEval{files: files, te: te, ce: ce, pkg: pkg, name: name, finals: map[string]bool{},
		res: &digDigestFn{name: name}}
	st := &digState{lists: map[string][]ast.Expr{}, defs: map[string]ast.Expr{}, locals: map[string]string{}}
	te.locals = map[string]string{}
	if fd.Recv != nil && len(fd.Recv.List) == 1 && len(fd.Recv.List[0].Names) == 1 {
		ev.recv = fd.Recv.List[0].Names[0].Name
		st.locals[ev.recv] = exprString(fd.Recv.List[0].Type)
		te.locals[ev.recv] = st.locals[ev.recv]
	}
	ev.run(fd.Body.List, st, nil)
	if ev.broken {
		return nil
	}
	if len(ev.res.cases) == 0 {
		fail("%s.%s: no version case found", pkg, name)
		return nil
	}
	if ev.res.head == nil {
		ev.res.head = []string{}
	}
	if ev.res.dflt == nil {
		ev.res.dflt = []string{"missing"}
	}
	for k := range ev.finals {
		ev.res.tail = append(ev.res.tail, k)
	}
	sort.Strings(ev.res.tail)
	return ev.res
}

// digNewLeanImporting is newLean for a generated file that imports a (hand-written,
// data-only) module: the import has to precede the module doc comment.
func digNewLeanImporting(name, imp, doc string) *leanFile {
	l := &leanFile{name: name}
	l.p("/- GENERATED by /verif/harness/overlay/cmd/astfacts from the source of /repo. Do not edit. -/")
	l.p("import %s", imp)
	l.p("/-! %s -/", doc)
	outputs = append(outputs, l)
	return l
}

func digLeanNatList(xs []string) string { return "[" + strings.Join(xs, ", ") + "]" }

func digEmitDigestFn(l *leanFile, leanName string, f *digDigestFn) {
	l.p("def %s : DigestFn := {", leanName)
	l.p("  name := %q,", f.name)
	l.p("  head := %s,", leanStrList(f.head))
	l.p("  tag := %q,", f.tag)
	l.p("  cases := [")
	for i, c := range f.cases {
		var as []string
		for _, a := range c.args {
			as = append(as, fmt.Sprintf("⟨%q, %q⟩", a.expr, a.goType))
		}
		sep := ","
		if i == len(f.cases)-1 {
			sep = ""
		}
		l.p("    { labels := %s, versions := %s,", leanStrList(c.labels), digLeanNatList(c.versions))
		l.p("      pre := %s,", leanStrList(c.pre))
		l.p("      args := [%s],", strings.Join(as, ", "))
		l.p("      post := %s }%s", leanStrList(c.post), sep)
	}
	l.p("  ],")
	l.p("  dflt := %s,", leanStrList(f.dflt))
	l.p("  tail := %s }", leanStrList(f.tail))
}

// ---------------------------------------------------------------- C14

func digGenTicketDigestFacts() {
	files := pkgFiles("sidecar")
	te := digNewTypeEnv(files)
	ce := newConstEnv(files)
	offer := digExtractDigestFn(files, te, ce, "sidecar", "Ticket.OfferDigest")
	order := digExtractDigestFn(files, te, ce, "sidecar", "Ticket.OrderDigest")
	if offer == nil || order == nil {
		return
	}
	// every argument expression must be one the model knows how to encode
	known := map[string]bool{
		"t.ID[:]": true, "uint8(t.Version)": true, "t.Offer.Capacity": true,
		"t.Offer.PushAmt": true, "t.Offer.Auto": true,
		"t.Offer.UnannouncedChannel": true, "t.Offer.ZeroConfChannel": true,
		"t.Order.BidNonce[:]": true, "t.Offer.LeaseDurationBlocks": true,
		"uint8(t.State)": true,
	}
	for _, f := range []*digDigestFn{offer, order} {
		for _, c := range f.cases {
			for _, a := range c.args {
				if !known[a.expr] {
					fail("sidecar.%s case %v: argument %q has no encoder in the model",
						f.name, c.labels, a.expr)
				}
			}
		}
	}
	l := digNewLeanImporting("TicketDigestFacts", "PoolModel.DigestTypes", "Ordered codec.WriteElements argument lists of "+
		"sidecar.Ticket.OfferDigest / OrderDigest per version case, sidecar state and version constants.")
	l.p("namespace Pool.Gen.C14")
	digEmitDigestFn(l, "ticketOfferDigest", offer)
	digEmitDigestFn(l, "ticketOrderDigest", order)
	for _, n := range []string{"StateCreated", "StateOffered", "StateRegistered",
		"StateOrdered", "StateExpectingChannel", "StateCompleted", "StateCanceled"} {

		l.p("def sidecar%s : Nat := %s", n, intConst(ce, "sidecar", n))
	}
	for _, n := range []string{"VersionDefault", "VersionUnannouncedZeroConf"} {
		l.p("def sidecar%s : Nat := %s", n, intConst(ce, "sidecar", n))
	}
	ofiles := pkgFiles("order")
	oce := newConstEnv(ofiles)
	l.p("def orderBaseSupplyUnit : Nat := %s", intConst(oce, "order", "BaseSupplyUnit"))
	l.p("def orderBTCInboundLiquidity : Nat := %s", intConst(oce, "order", "BTCInboundLiquidity"))
	l.p("def orderBTCOutboundLiquidity : Nat := %s", intConst(oce, "order", "BTCOutboundLiquidity"))
	l.p("end Pool.Gen.C14")
}

// ---------------------------------------------------------------- codec

// digGenCodecFacts emits the type switch of codec.WriteElement: case type ->
// statement(s) executed.
func digGenCodecFacts() {
	files := pkgFiles("codec")
	fd := findFunc(files, "WriteElement")
	if fd == nil || fd.Body == nil {
		fail("codec.WriteElement not found")
		return
	}
	var ts *ast.TypeSwitchStmt
	for _, s := range fd.Body.List {
		if x, ok := s.(*ast.TypeSwitchStmt); ok {
			ts = x
		}
	}
	if ts == nil {
		fail("codec.WriteElement: type switch not found")
		return
	}
	l := newLean("CodecFacts", "Type switch of codec.WriteElement: (case type, statements).")
	l.p("namespace Pool.Gen.Codec")
	l.p("def codecCases : List (String × String) := [")
	var rows []string
	for _, c := range ts.Body.List {
		cc := c.(*ast.CaseClause)
		var body []string
		for _, s := range cc.Body {
			body = append(body, digNodeString(s))
		}
		if cc.List == nil {
			rows = append(rows, fmt.Sprintf("  (%q, %q)", "default", strings.Join(body, "; ")))
			continue
		}
		for _, t := range cc.List {
			rows = append(rows, fmt.Sprintf("  (%q, %q)", digNodeString(t), strings.Join(body, "; ")))
		}
	}
	l.p("%s", strings.Join(rows, ",\n"))
	l.p("]")
	l.p("end Pool.Gen.Codec")
}
