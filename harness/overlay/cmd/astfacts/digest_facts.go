//go:build verif

package main

import (
	"fmt"
	"go/ast"
	"go/printer"
	"go/token"
	"strings"
)

// Facts for C12 (order digests, SubmitOrder field mapping) and C14 (sidecar
// ticket digests): the ORDERED argument list of codec.WriteElements per case of
// the version switch, with the static Go type of every argument resolved from
// the declarations, the statements around the call, and the type switch of
// codec.WriteElement. The Lean model builds the hashed preimage from these
// lists; nothing about the field order is restated by hand.

func init() {
	jobs = append(jobs,
		job{props: []string{"C14"}, fn: digGenTicketDigestFacts},
		job{props: []string{"C12"}, fn: digGenOrderDigestFacts},
		job{props: []string{"C12", "C14"}, fn: digGenCodecFacts},
	)
}

// ---------------------------------------------------------------- helpers

// digNodeString prints any AST node on one line (whitespace collapsed).
func digNodeString(n ast.Node) string {
	var s string
	switch x := n.(type) {
	case ast.Expr:
		s = exprString(x)
	default:
		var sb strings.Builder
		printer.Fprint(&sb, fset, n)
		s = sb.String()
	}
	return strings.Join(strings.Fields(s), " ")
}

// digTypeEnv resolves the static type of simple expressions (identifiers,
// selector chains with embedded-field promotion, conversions, full slices of
// arrays) from the struct and type declarations of one package.
type digTypeEnv struct {
	types  map[string]ast.Expr // named type -> its declared type expression
	locals map[string]string   // identifier -> type string
}

func digNewTypeEnv(files []*ast.File) *digTypeEnv {
	te := &digTypeEnv{types: map[string]ast.Expr{}, locals: map[string]string{}}
	for _, f := range files {
		for _, d := range f.Decls {
			gd, ok := d.(*ast.GenDecl)
			if !ok || gd.Tok != token.TYPE {
				continue
			}
			for _, s := range gd.Specs {
				ts := s.(*ast.TypeSpec)
				te.types[ts.Name.Name] = ts.Type
			}
		}
	}
	return te
}

// fieldType finds field `name` in struct type `tn` (directly or promoted
// through embedded structs of the same package).
func (te *digTypeEnv) fieldType(tn, name string, depth int) (string, bool) {
	tn = strings.TrimPrefix(tn, "*")
	st, ok := te.types[tn].(*ast.StructType)
	if !ok || depth > 4 {
		return "", false
	}
	for _, f := range st.Fields.List {
		for _, n := range f.Names {
			if n.Name == name {
				return exprString(f.Type), true
			}
		}
	}
	for _, f := range st.Fields.List {
		if len(f.Names) == 0 {
			if t, ok := te.fieldType(exprString(f.Type), name, depth+1); ok {
				return t, true
			}
		}
	}
	return "", false
}

// underlying follows named types of the package to a non-identifier type.
func (te *digTypeEnv) underlying(t string) ast.Expr {
	for i := 0; i < 4; i++ {
		e, ok := te.types[t]
		if !ok {
			return nil
		}
		if id, ok := e.(*ast.Ident); ok {
			t = id.Name
			continue
		}
		return e
	}
	return nil
}

func (te *digTypeEnv) typeOf(e ast.Expr) (string, bool) {
	switch x := e.(type) {
	case *ast.Ident:
		t, ok := te.locals[x.Name]
		return t, ok
	case *ast.ParenExpr:
		return te.typeOf(x.X)
	case *ast.SelectorExpr:
		tx, ok := te.typeOf(x.X)
		if !ok {
			return "", false
		}
		return te.fieldType(tx, x.Sel.Name, 0)
	case *ast.CallExpr:
		// conversion T(x) to a builtin numeric type
		if id, ok := x.Fun.(*ast.Ident); ok && len(x.Args) == 1 {
			switch id.Name {
			case "uint8", "uint16", "uint32", "uint64", "int8", "int16",
				"int32", "int64", "bool", "byte":
				return id.Name, true
			}
		}
		return "", false
	case *ast.SliceExpr:
		if x.Low != nil || x.High != nil || x.Max != nil {
			return "", false
		}
		tx, ok := te.typeOf(x.X)
		if !ok {
			return "", false
		}
		var at *ast.ArrayType
		if u := te.underlying(tx); u != nil {
			at, _ = u.(*ast.ArrayType)
		} else if strings.HasPrefix(tx, "[") {
			// literal array type such as [8]byte
			return tx + "[:]", true
		}
		if at == nil || at.Len == nil {
			return "", false
		}
		return "[" + exprString(at.Len) + "]" + exprString(at.Elt) + "[:]", true
	}
	return "", false
}

type digDigestArg struct{ expr, goType string }

type digDigestCase struct {
	labels   []string
	versions []string
	pre      []string
	args     []digDigestArg
	post     []string
}

type digDigestFn struct {
	name  string
	head  []string
	tag   string
	cases []digDigestCase
	dflt  []string
	tail  []string
}

// digIsWriteElementsCall recognises `err := codec.WriteElements(&msg, …)`.
func digIsWriteElementsCall(s ast.Stmt) *ast.CallExpr {
	as, ok := s.(*ast.AssignStmt)
	if !ok || len(as.Rhs) != 1 || len(as.Lhs) != 1 {
		return nil
	}
	call, ok := as.Rhs[0].(*ast.CallExpr)
	if !ok || exprString(call.Fun) != "codec.WriteElements" {
		return nil
	}
	return call
}

// digExtractDigestFn reads one `Digest`-style method: statements before the
// version switch, the switch with one codec.WriteElements call per case, the
// default clause and the statements after the switch.
func digExtractDigestFn(files []*ast.File, te *digTypeEnv, ce *constEnv,
	pkg, name string) *digDigestFn {

	fd := findFunc(files, name)
	if fd == nil || fd.Body == nil {
		fail("%s.%s not found", pkg, name)
		return nil
	}
	res := &digDigestFn{name: name}
	te.locals = map[string]string{}
	if fd.Recv != nil && len(fd.Recv.List) == 1 && len(fd.Recv.List[0].Names) == 1 {
		te.locals[fd.Recv.List[0].Names[0].Name] = exprString(fd.Recv.List[0].Type)
	}
	var sw *ast.SwitchStmt
	for _, s := range fd.Body.List {
		if x, ok := s.(*ast.SwitchStmt); ok {
			if sw != nil {
				fail("%s.%s: more than one switch", pkg, name)
				return nil
			}
			sw = x
			continue
		}
		if sw == nil {
			res.head = append(res.head, digNodeString(s))
		} else {
			res.tail = append(res.tail, digNodeString(s))
		}
	}
	if sw == nil || sw.Tag == nil || sw.Init != nil {
		fail("%s.%s: version switch not found", pkg, name)
		return nil
	}
	res.tag = digNodeString(sw.Tag)
	seenDefault := false
	for _, c := range sw.Body.List {
		cc := c.(*ast.CaseClause)
		if cc.List == nil {
			seenDefault = true
			for _, s := range cc.Body {
				res.dflt = append(res.dflt, digNodeString(s))
			}
			continue
		}
		dc := digDigestCase{}
		for _, l := range cc.List {
			dc.labels = append(dc.labels, digNodeString(l))
			id, ok := l.(*ast.Ident)
			if !ok {
				fail("%s.%s: case label %s is not a constant name", pkg,
					name, digNodeString(l))
				return nil
			}
			dc.versions = append(dc.versions, intConst(ce, pkg, id.Name))
		}
		// local variable declarations of the clause (`var isSidecar uint8`)
		locals := map[string]string{}
		for k, v := range te.locals {
			locals[k] = v
		}
		var call *ast.CallExpr
		for _, s := range cc.Body {
			if c := digIsWriteElementsCall(s); c != nil {
				if call != nil {
					fail("%s.%s case %v: two WriteElements calls", pkg,
						name, dc.labels)
					return nil
				}
				call = c
				continue
			}
			if call == nil {
				dc.pre = append(dc.pre, digNodeString(s))
				if ds, ok := s.(*ast.DeclStmt); ok {
					if gd, ok := ds.Decl.(*ast.GenDecl); ok && gd.Tok == token.VAR {
						for _, sp := range gd.Specs {
							vs := sp.(*ast.ValueSpec)
							if vs.Type != nil {
								for _, n := range vs.Names {
									locals[n.Name] = exprString(vs.Type)
								}
							}
						}
					}
				}
			} else {
				dc.post = append(dc.post, digNodeString(s))
			}
		}
		if call == nil || len(call.Args) < 1 || digNodeString(call.Args[0]) != "&msg" ||
			call.Ellipsis.IsValid() {

			fail("%s.%s case %v: no `err := codec.WriteElements(&msg, …)`",
				pkg, name, dc.labels)
			return nil
		}
		saved := te.locals
		te.locals = locals
		for _, a := range call.Args[1:] {
			t, ok := te.typeOf(a)
			if !ok {
				fail("%s.%s case %v: static type of %s not resolvable", pkg,
					name, dc.labels, digNodeString(a))
				t = "?"
			}
			dc.args = append(dc.args, digDigestArg{digNodeString(a), t})
		}
		te.locals = saved
		res.cases = append(res.cases, dc)
	}
	if !seenDefault {
		fail("%s.%s: version switch has no default clause", pkg, name)
	}
	return res
}

// digNewLeanImporting is newLean for a generated file that imports a (hand-written,
// data-only) module: the import has to precede the module doc comment.
func digNewLeanImporting(name, imp, doc string) *leanFile {
	l := &leanFile{name: name}
	l.p("/- GENERATED by /verif/harness/overlay/cmd/astfacts from the source of /repo. Do not edit. -/")
	l.p("import %s", imp)
	l.p("/-! %s -/", doc)
	outputs = append(outputs, l)
	return l
}

func digLeanNatList(xs []string) string { return "[" + strings.Join(xs, ", ") + "]" }

func digEmitDigestFn(l *leanFile, leanName string, f *digDigestFn) {
	l.p("def %s : DigestFn := {", leanName)
	l.p("  name := %q,", f.name)
	l.p("  head := %s,", leanStrList(f.head))
	l.p("  tag := %q,", f.tag)
	l.p("  cases := [")
	for i, c := range f.cases {
		var as []string
		for _, a := range c.args {
			as = append(as, fmt.Sprintf("⟨%q, %q⟩", a.expr, a.goType))
		}
		sep := ","
		if i == len(f.cases)-1 {
			sep = ""
		}
		l.p("    { labels := %s, versions := %s,", leanStrList(c.labels), digLeanNatList(c.versions))
		l.p("      pre := %s,", leanStrList(c.pre))
		l.p("      args := [%s],", strings.Join(as, ", "))
		l.p("      post := %s }%s", leanStrList(c.post), sep)
	}
	l.p("  ],")
	l.p("  dflt := %s,", leanStrList(f.dflt))
	l.p("  tail := %s }", leanStrList(f.tail))
}

// ---------------------------------------------------------------- C14

func digGenTicketDigestFacts() {
	files := pkgFiles("sidecar")
	te := digNewTypeEnv(files)
	ce := newConstEnv(files)
	offer := digExtractDigestFn(files, te, ce, "sidecar", "Ticket.OfferDigest")
	order := digExtractDigestFn(files, te, ce, "sidecar", "Ticket.OrderDigest")
	if offer == nil || order == nil {
		return
	}
	// every argument expression must be one the model knows how to encode
	known := map[string]bool{
		"t.ID[:]": true, "uint8(t.Version)": true, "t.Offer.Capacity": true,
		"t.Offer.PushAmt": true, "t.Offer.Auto": true,
		"t.Offer.UnannouncedChannel": true, "t.Offer.ZeroConfChannel": true,
		"t.Order.BidNonce[:]": true, "t.Offer.LeaseDurationBlocks": true,
		"uint8(t.State)": true,
	}
	for _, f := range []*digDigestFn{offer, order} {
		for _, c := range f.cases {
			for _, a := range c.args {
				if !known[a.expr] {
					fail("sidecar.%s case %v: argument %q has no encoder in the model",
						f.name, c.labels, a.expr)
				}
			}
		}
	}
	l := digNewLeanImporting("TicketDigestFacts", "PoolModel.DigestTypes", "Ordered codec.WriteElements argument lists of "+
		"sidecar.Ticket.OfferDigest / OrderDigest per version case, sidecar state and version constants.")
	l.p("namespace Pool.Gen.C14")
	digEmitDigestFn(l, "ticketOfferDigest", offer)
	digEmitDigestFn(l, "ticketOrderDigest", order)
	for _, n := range []string{"StateCreated", "StateOffered", "StateRegistered",
		"StateOrdered", "StateExpectingChannel", "StateCompleted", "StateCanceled"} {

		l.p("def sidecar%s : Nat := %s", n, intConst(ce, "sidecar", n))
	}
	for _, n := range []string{"VersionDefault", "VersionUnannouncedZeroConf"} {
		l.p("def sidecar%s : Nat := %s", n, intConst(ce, "sidecar", n))
	}
	ofiles := pkgFiles("order")
	oce := newConstEnv(ofiles)
	l.p("def orderBaseSupplyUnit : Nat := %s", intConst(oce, "order", "BaseSupplyUnit"))
	l.p("def orderBTCInboundLiquidity : Nat := %s", intConst(oce, "order", "BTCInboundLiquidity"))
	l.p("def orderBTCOutboundLiquidity : Nat := %s", intConst(oce, "order", "BTCOutboundLiquidity"))
	l.p("end Pool.Gen.C14")
}

// ---------------------------------------------------------------- codec

// digGenCodecFacts emits the type switch of codec.WriteElement: case type ->
// statement(s) executed.
func digGenCodecFacts() {
	files := pkgFiles("codec")
	fd := findFunc(files, "WriteElement")
	if fd == nil || fd.Body == nil {
		fail("codec.WriteElement not found")
		return
	}
	var ts *ast.TypeSwitchStmt
	for _, s := range fd.Body.List {
		if x, ok := s.(*ast.TypeSwitchStmt); ok {
			ts = x
		}
	}
	if ts == nil {
		fail("codec.WriteElement: type switch not found")
		return
	}
	l := newLean("CodecFacts", "Type switch of codec.WriteElement: (case type, statements).")
	l.p("namespace Pool.Gen.Codec")
	l.p("def codecCases : List (String × String) := [")
	var rows []string
	for _, c := range ts.Body.List {
		cc := c.(*ast.CaseClause)
		var body []string
		for _, s := range cc.Body {
			body = append(body, digNodeString(s))
		}
		if cc.List == nil {
			rows = append(rows, fmt.Sprintf("  (%q, %q)", "default", strings.Join(body, "; ")))
			continue
		}
		for _, t := range cc.List {
			rows = append(rows, fmt.Sprintf("  (%q, %q)", digNodeString(t), strings.Join(body, "; ")))
		}
	}
	l.p("%s", strings.Join(rows, ",\n"))
	l.p("]")
	l.p("end Pool.Gen.Codec")
}
