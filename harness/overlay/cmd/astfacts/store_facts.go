//go:build verif

package main

import (
	"fmt"
	"go/ast"
	"go/token"
	"sort"
	"strings"
)

func init() { jobs = append(jobs, job{props: []string{"C10"}, fn: storeGenFacts}) }

// storeFuncs are the serialisers / deserialisers of the trader database whose
// ordered element lists the C10 model consumes.
var storeFuncs = []string{
	"serializeAccount", "deserializeAccount",
	"serializeAccountTlvData", "deserializeAccountTlvData",
	"SerializeOrder", "DeserializeOrder",
	"serializeOrderTlvData", "deserializeOrderTlvData",
	"storeOrderMinNoderTierTX", "storeOrderMinUnitsMatchTX", "fetchOrderTX",
	"fetchLocalBatchSnapshot",
	"serializeLocalBatchSnapshot", "deserializeLocalBatchSnapshot",
	"serializeAccounts", "deserializeAccounts",
	"serializeOrders", "deserializeOrders",
	"serializeMatchedOrder", "deserializeMatchedOrder",
}

func storeStripAmp(s string) string { return strings.TrimPrefix(s, "&") }

// elemCalls returns, in source order, the element lists of every
// codec.WriteElement(s) ("W") / ReadElement(s) ("R") call of a function body.
func storeElemCalls(fd *ast.FuncDecl) [][2]interface{} {
	var res [][2]interface{}
	ast.Inspect(fd.Body, func(n ast.Node) bool {
		ce, ok := n.(*ast.CallExpr)
		if !ok {
			return true
		}
		name := exprString(ce.Fun)
		kind := ""
		switch name {
		case "codec.WriteElements", "codec.WriteElement":
			kind = "W"
		case "ReadElements", "ReadElement":
			kind = "R"
		default:
			return true
		}
		if len(ce.Args) < 2 {
			return true
		}
		var args []string
		for _, a := range ce.Args[1:] {
			args = append(args, storeStripAmp(exprString(a)))
		}
		res = append(res, [2]interface{}{kind, args})
		return true
	})
	return res
}

// tlvRecords returns (type constant, value variable) of every
// tlv.MakePrimitiveRecord call of a function body, in source order.
func storeTlvRecords(fd *ast.FuncDecl) [][2]string {
	var res [][2]string
	ast.Inspect(fd.Body, func(n ast.Node) bool {
		ce, ok := n.(*ast.CallExpr)
		if !ok || exprString(ce.Fun) != "tlv.MakePrimitiveRecord" || len(ce.Args) != 2 {
			return true
		}
		res = append(res, [2]string{exprString(ce.Args[0]), storeStripAmp(exprString(ce.Args[1]))})
		return true
	})
	return res
}

// emptyStateCases returns the case expressions of the empty clauses of the
// `switch a.State` statement of a function (the states that carry no LatestTx).
func storeEmptyStateCases(fd *ast.FuncDecl) ([]string, bool) {
	var res []string
	found := false
	ast.Inspect(fd.Body, func(n ast.Node) bool {
		sw, ok := n.(*ast.SwitchStmt)
		if !ok || sw.Tag == nil || exprString(sw.Tag) != "a.State" {
			return true
		}
		found = true
		for _, st := range sw.Body.List {
			cc := st.(*ast.CaseClause)
			if cc.List != nil && len(cc.Body) == 0 {
				for _, e := range cc.List {
					res = append(res, exprString(e))
				}
			}
		}
		return false
	})
	return res, found
}

// typedConsts lists the constants declared with the given named type.
func storeTypedConsts(files []*ast.File, ce *constEnv, pkg, typ string) [][2]string {
	var res [][2]string
	for _, f := range files {
		for _, d := range f.Decls {
			gd, ok := d.(*ast.GenDecl)
			if !ok || gd.Tok != token.CONST {
				continue
			}
			cur := ""
			for _, s := range gd.Specs {
				vs := s.(*ast.ValueSpec)
				if vs.Type != nil {
					cur = exprString(vs.Type)
				} else if len(vs.Values) != 0 {
					cur = ""
				}
				if cur != typ {
					continue
				}
				for _, n := range vs.Names {
					if n.Name == "_" {
						continue
					}
					res = append(res, [2]string{n.Name, intConst(ce, pkg, n.Name)})
				}
			}
		}
	}
	if len(res) == 0 {
		fail("no constants of type %s.%s found", pkg, typ)
	}
	return res
}

func storeLeanPairs(ps [][2]string, num bool) string {
	q := make([]string, len(ps))
	for i, p := range ps {
		if num {
			q[i] = fmt.Sprintf("(%q, %s)", p[0], p[1])
		} else {
			q[i] = fmt.Sprintf("(%q, %q)", p[0], p[1])
		}
	}
	return "[" + strings.Join(q, ", ") + "]"
}

func storeGenFacts() {
	l := newLean("StoreFacts", "C10: ordered element lists of the trader-database (de)serialisers, TLV type "+
		"numbers and record lists, state tables; read from clientdb/*.go, account/, order/.")
	l.p("namespace Pool.Gen.Store")
	files := pkgFiles("clientdb")
	cdb := newConstEnv(files)
	acctFiles := pkgFiles("account")
	acct := newConstEnv(acctFiles)
	ordFiles := pkgFiles("order")
	ord := newConstEnv(ordFiles)

	// 1. element lists
	l.p("/-- function ↦ its `codec.WriteElement(s)` (\"W\") / `ReadElement(s)` (\"R\") calls in source order, each")
	l.p("with the ordered argument expressions (a leading `&` stripped) -/")
	l.p("def elemCalls : List (String × List (String × List String)) := [")
	for i, fn := range storeFuncs {
		fd := findFunc(files, fn)
		if fd == nil {
			fail("clientdb.%s not found", fn)
			continue
		}
		var cs []string
		for _, c := range storeElemCalls(fd) {
			cs = append(cs, fmt.Sprintf("(%q, %s)", c[0].(string), leanStrList(c[1].([]string))))
		}
		sep := ","
		if i == len(storeFuncs)-1 {
			sep = ""
		}
		l.p("  (%q, [%s])%s", fn, strings.Join(cs, ", "), sep)
	}
	l.p("]")

	// 2. TLV records per function + the type numbers they name
	tlvFuncs := []string{"serializeAccountTlvData", "deserializeAccountTlvData",
		"serializeOrderTlvData", "deserializeOrderTlvData"}
	seen := map[string]bool{}
	var typeNames [][2]string
	l.p("/-- function ↦ `tlv.MakePrimitiveRecord(type, &var)` calls in source order -/")
	l.p("def tlvRecords : List (String × List (String × String)) := [")
	for i, fn := range tlvFuncs {
		fd := findFunc(files, fn)
		if fd == nil {
			fail("clientdb.%s not found", fn)
			continue
		}
		recs := storeTlvRecords(fd)
		if len(recs) == 0 {
			fail("clientdb.%s: no tlv.MakePrimitiveRecord calls", fn)
		}
		for _, r := range recs {
			if !seen[r[0]] {
				seen[r[0]] = true
				typeNames = append(typeNames, [2]string{r[0], intConst(cdb, "clientdb", r[0])})
			}
		}
		sep := ","
		if i == len(tlvFuncs)-1 {
			sep = ""
		}
		l.p("  (%q, %s)%s", fn, storeLeanPairs(recs, false), sep)
	}
	l.p("]")
	l.p("def tlvTypes : List (String × Nat) := %s", storeLeanPairs(typeNames, true))
	l.p("def accountStateVersionedMask : Nat := %s", intConst(cdb, "clientdb", "accountStateVersionedMask"))

	// 3. states without LatestTx
	for _, fn := range []string{"serializeAccount", "deserializeAccount"} {
		fd := findFunc(files, fn)
		if fd == nil {
			continue
		}
		cases, ok := storeEmptyStateCases(fd)
		if !ok {
			fail("clientdb.%s: `switch a.State` not found", fn)
		}
		var ps [][2]string
		for _, c := range cases {
			name := strings.TrimPrefix(c, "account.")
			ps = append(ps, [2]string{name, intConst(acct, "account", name)})
		}
		l.p("/-- states in the empty `case` of `switch a.State` in %s (no LatestTx stored) -/", fn)
		l.p("def noLatestTx_%s : List (String × Nat) := %s", fn, storeLeanPairs(ps, true))
	}

	// 4. enums
	l.p("def accountStates : List (String × Nat) := %s", storeLeanPairs(storeTypedConsts(acctFiles, acct, "account", "State"), true))
	l.p("def accountVersions : List (String × Nat) := %s", storeLeanPairs(storeTypedConsts(acctFiles, acct, "account", "Version"), true))
	l.p("def orderTypes : List (String × Nat) := %s", storeLeanPairs(storeTypedConsts(ordFiles, ord, "order", "Type"), true))
	l.p("def orderStates : List (String × Nat) := %s", storeLeanPairs(storeTypedConsts(ordFiles, ord, "order", "State"), true))
	l.p("def orderVersions : List (String × Nat) := %s", storeLeanPairs(storeTypedConsts(ordFiles, ord, "order", "Version"), true))
	l.p("def channelTypes : List (String × Nat) := %s", storeLeanPairs(storeTypedConsts(ordFiles, ord, "order", "ChannelType"), true))
	l.p("def auctionTypes : List (String × Nat) := %s", storeLeanPairs(storeTypedConsts(ordFiles, ord, "order", "AuctionType"), true))
	l.p("def announcementConstraints : List (String × Nat) := %s",
		storeLeanPairs(storeTypedConsts(ordFiles, ord, "order", "ChannelAnnouncementConstraints"), true))
	l.p("def confirmationConstraints : List (String × Nat) := %s",
		storeLeanPairs(storeTypedConsts(ordFiles, ord, "order", "ChannelConfirmationConstraints"), true))
	l.p("def nodeTiers : List (String × Nat) := %s", storeLeanPairs(storeTypedConsts(ordFiles, ord, "order", "NodeTier"), true))
	l.p("def legacyLeaseDurationBucket : Nat := %s", intConst(ord, "order", "LegacyLeaseDurationBucket"))
	// 4b. which of the four order-bucket keys each writer stores, and under which conditions: (callee, the
	// conditions of the enclosing if-bodies; the `if err := f(); err != nil` wrapper of a call is not a guard)
	l.p("/-- writer ↦ its `storeOrder…TX` calls in source order with the conditions guarding each call -/")
	l.p("def orderKeyWrites : List (String × List (String × List String)) := [")
	writers := []string{"storeBidTemplate", "SubmitOrder", "updateOrder", "copyOrder"}
	for wi, fn := range writers {
		fd := findFunc(files, fn)
		if fd == nil {
			fd = findFunc(files, "DB."+fn)
		}
		if fd == nil {
			fail("clientdb.%s not found", fn)
			continue
		}
		var items []string
		var visit func(n ast.Node, guards []string)
		visit = func(n ast.Node, guards []string) {
			if n == nil {
				return
			}
			switch x := n.(type) {
			case *ast.IfStmt:
				visit(x.Init, guards)
				visit(x.Cond, guards)
				g := exprString(x.Cond)
				if x.Init != nil {
					if as, ok := x.Init.(*ast.AssignStmt); ok && len(as.Rhs) == 1 {
						g = exprString(as.Rhs[0]) + "; " + g
					}
				}
				inner := append(append([]string{}, guards...), g)
				visit(x.Body, inner)
				if x.Else != nil {
					visit(x.Else, append(append([]string{}, guards...), "!("+g+")"))
				}
				return
			case *ast.CallExpr:
				name := exprString(x.Fun)
				if strings.HasPrefix(name, "storeOrder") {
					items = append(items, fmt.Sprintf("(%q, %s)", name, leanStrList(guards)))
				}
			}
			// generic descent over direct children
			ast.Inspect(n, func(m ast.Node) bool {
				if m == nil || m == n {
					return true
				}
				visit(m, guards)
				return false
			})
		}
		visit(fd.Body, nil)
		if len(items) == 0 {
			fail("clientdb.%s: no storeOrder…TX calls", fn)
		}
		sep := ","
		if wi == len(writers)-1 {
			sep = ""
		}
		l.p("  (%q, [%s])%s", fn, strings.Join(items, ", "), sep)
	}
	l.p("]")

	// 5. transaction discipline of the read methods: bbolt hands out slices into its memory map that are only
	// valid inside the transaction, so every decode call of a *DB method has to sit inside a function literal
	// (the View/Update closure or a callback invoked from it), never in the method body itself.
	decodeFns := map[string]bool{
		"DeserializeOrder": true, "deserializeOrderTlvData": true, "deserializeAccount": true,
		"deserializeAccountTlvData": true, "deserializeLocalBatchSnapshot": true, "ReadElement": true,
		"ReadElements": true, "readAccount": true, "fetchOrderTX": true, "readSidecar": true,
		"readBidTemplate": true, "fetchLocalBatchSnapshot": true, "fetchPendingBatchSnapshot": true,
		"sidecar.DeserializeTicket": true, "lnwire.ReadElement": true, "readAdditionalValue": true,
		"bytes.NewReader": true,
	}
	var viewMethods []string
	var outside [][2]string
	for _, f := range files {
		for _, d := range f.Decls {
			fd, ok := d.(*ast.FuncDecl)
			if !ok || fd.Recv == nil || fd.Body == nil || len(fd.Recv.List) != 1 {
				continue
			}
			if exprString(fd.Recv.List[0].Type) != "*DB" {
				continue
			}
			opensTx := false
			var walk func(n ast.Node, inLit bool)
			walk = func(n ast.Node, inLit bool) {
				ast.Inspect(n, func(m ast.Node) bool {
					switch x := m.(type) {
					case *ast.FuncLit:
						if m != n {
							walk(x.Body, true)
							return false
						}
					case *ast.CallExpr:
						name := exprString(x.Fun)
						if name == "db.View" || name == "db.Update" {
							opensTx = true
						}
						if decodeFns[name] && !inLit {
							outside = append(outside, [2]string{fd.Name.Name, name})
						}
					}
					return true
				})
			}
			walk(fd.Body, false)
			if opensTx {
				viewMethods = append(viewMethods, fd.Name.Name)
			}
		}
	}
	sort.Strings(viewMethods)
	if len(viewMethods) == 0 {
		fail("no *DB method opening a transaction found")
	}
	l.p("/-- exported/unexported `*DB` methods of clientdb that open a bbolt transaction (`db.View` / `db.Update`) -/")
	l.p("def dbTxMethods : List String := %s", leanStrList(viewMethods))
	l.p("/-- (method, callee): decode calls of `*DB` methods that are NOT inside a function literal, i.e. that run")
	l.p("after the transaction closure returned, on slices bbolt no longer keeps valid -/")
	l.p("def decodeOutsideTx : List (String × String) := %s", storeLeanPairs(outside, false))
	l.p("end Pool.Gen.Store")
}
