//go:build verif

package main

import (
	"fmt"
	"go/ast"
	"go/constant"
	"go/token"
	"sort"
	"strings"
)

func init() { jobs = append(jobs, job{props: []string{"C10"}, fn: storeGenFacts}) }

// storeFuncs are the serialisers / deserialisers of the trader database whose
// ordered element lists the C10 model consumes.
var storeFuncs = []string{
	"serializeAccount", "deserializeAccount",
	"serializeAccountTlvData", "deserializeAccountTlvData",
	"SerializeOrder", "DeserializeOrder",
	"serializeOrderTlvData", "deserializeOrderTlvData",
	"storeOrderMinNoderTierTX", "storeOrderMinUnitsMatchTX", "fetchOrderTX",
	"fetchLocalBatchSnapshot",
	"serializeLocalBatchSnapshot", "deserializeLocalBatchSnapshot",
	"serializeAccounts", "deserializeAccounts",
	"serializeOrders", "deserializeOrders",
	"serializeMatchedOrder", "deserializeMatchedOrder",
}

func storeStripAmp(s string) string { return strings.TrimPrefix(s, "&") }

// storePkg holds the parsed clientdb package for helper inlining.
var storePkg []*ast.File

// storeIsListed reports whether a function is one of the (de)serialisers that
// get their own entry (those are never inlined into their callers).
func storeIsListed(name string) bool {
	for _, f := range storeFuncs {
		if f == name {
			return true
		}
	}
	return false
}

// storeWalkCalls visits every call expression of a function body in source
// order and descends (two levels deep) into same-package helper functions that
// are not themselves listed serialisers, so that a fact survives the
// extraction of a code section into a helper.
func storeWalkCalls(body ast.Node, depth int, visit func(*ast.CallExpr)) {
	ast.Inspect(body, func(n ast.Node) bool {
		ce, ok := n.(*ast.CallExpr)
		if !ok {
			return true
		}
		visit(ce)
		if id, ok := ce.Fun.(*ast.Ident); ok && depth < 2 && !storeIsListed(id.Name) &&
			id.Name != "ReadElement" && id.Name != "ReadElements" {
			if fd := findFunc(storePkg, id.Name); fd != nil && fd.Body != nil {
				// arguments first (already visited by Inspect below), then the helper body
				storeWalkCalls(fd.Body, depth+1, visit)
			}
		}
		return true
	})
}

// elemCalls returns, in source order, the element lists of every
// codec.WriteElement(s) ("W") / ReadElement(s) ("R") call of a function body
// (helpers inlined).
func storeElemCalls(fd *ast.FuncDecl) [][2]interface{} {
	var res [][2]interface{}
	storeWalkCalls(fd.Body, 0, func(ce *ast.CallExpr) {
		name := exprString(ce.Fun)
		kind := ""
		switch name {
		case "codec.WriteElements", "codec.WriteElement":
			kind = "W"
		case "ReadElements", "ReadElement":
			kind = "R"
		default:
			return
		}
		if len(ce.Args) < 2 {
			return
		}
		var args []string
		for _, a := range ce.Args[1:] {
			args = append(args, storeStripAmp(exprString(a)))
		}
		res = append(res, [2]interface{}{kind, args})
	})
	return res
}

// storeLocalClosures collects `name := func(...) {...}` / `var name = func…`
// bindings of a function body.
func storeLocalClosures(body ast.Node) map[string]*ast.FuncLit {
	res := map[string]*ast.FuncLit{}
	ast.Inspect(body, func(n ast.Node) bool {
		switch t := n.(type) {
		case *ast.AssignStmt:
			for i, r := range t.Rhs {
				if fl, ok := r.(*ast.FuncLit); ok && i < len(t.Lhs) {
					if id, ok := t.Lhs[i].(*ast.Ident); ok {
						res[id.Name] = fl
					}
				}
			}
		case *ast.ValueSpec:
			for i, r := range t.Values {
				if fl, ok := r.(*ast.FuncLit); ok && i < len(t.Names) {
					res[t.Names[i].Name] = fl
				}
			}
		}
		return true
	})
	return res
}

// tlvRecords returns (type constant, value variable) of every
// tlv.MakePrimitiveRecord call a function performs, in source order. Calls made
// through a local closure or a same-package helper (`addRecord(T, &v)`) are
// resolved by substituting the call's arguments for the helper's parameters.
func storeTlvRecords(fd *ast.FuncDecl) [][2]string {
	var res [][2]string
	var collect func(body ast.Node, params []string, args []ast.Expr, depth int)
	collect = func(body ast.Node, params []string, args []ast.Expr, depth int) {
		closures := storeLocalClosures(body)
		subst := func(e ast.Expr) ast.Expr {
			x := e
			amp := false
			if u, ok := e.(*ast.UnaryExpr); ok && u.Op == token.AND {
				x, amp = u.X, true
			}
			if id, ok := x.(*ast.Ident); ok && !amp {
				for i, p := range params {
					if p == id.Name && i < len(args) {
						return args[i]
					}
				}
			}
			return e
		}
		ast.Inspect(body, func(n ast.Node) bool {
			// the body of a local closure is only looked at where it is called
			if fl, ok := n.(*ast.FuncLit); ok {
				for _, c := range closures {
					if c == fl {
						return false
					}
				}
			}
			ce, ok := n.(*ast.CallExpr)
			if !ok {
				return true
			}
			name := exprString(ce.Fun)
			if name == "tlv.MakePrimitiveRecord" && len(ce.Args) == 2 {
				res = append(res, [2]string{exprString(subst(ce.Args[0])),
					storeStripAmp(exprString(subst(ce.Args[1])))})
				return true
			}
			id, ok := ce.Fun.(*ast.Ident)
			if !ok || depth >= 2 {
				return true
			}
			var ftype *ast.FuncType
			var fbody *ast.BlockStmt
			if fl, ok := closures[id.Name]; ok {
				ftype, fbody = fl.Type, fl.Body
			} else if !storeIsListed(id.Name) {
				if hd := findFunc(storePkg, id.Name); hd != nil && hd.Body != nil {
					ftype, fbody = hd.Type, hd.Body
				}
			}
			if fbody == nil {
				return true
			}
			var ps []string
			if ftype.Params != nil {
				for _, f := range ftype.Params.List {
					for _, nm := range f.Names {
						ps = append(ps, nm.Name)
					}
				}
			}
			var as []ast.Expr
			for _, a := range ce.Args {
				as = append(as, subst(a))
			}
			collect(fbody, ps, as, depth+1)
			return true
		})
	}
	collect(fd.Body, nil, nil, 0)
	return res
}

// ---- semantic guard evaluation ----------------------------------------------
//
// Which account states skip LatestTx is a SET, however the code spells the
// decision: a `switch a.State`, an if / else-if chain, negations, or a
// same-package predicate helper. The extractor finds the (Write|Read)Element
// call on a.LatestTx, collects the guards on the path to it, and evaluates them
// for every defined account state.

type storeEnv struct {
	vals  map[string]int64 // expression text -> value (the state variable, helper params)
	acct  *constEnv
	depth int
}

func (e *storeEnv) intVal(x ast.Expr) (int64, bool) {
	switch t := x.(type) {
	case *ast.ParenExpr:
		return e.intVal(t.X)
	case *ast.CallExpr: // conversion T(x)
		if len(t.Args) == 1 {
			return e.intVal(t.Args[0])
		}
	}
	s := exprString(x)
	if v, ok := e.vals[s]; ok {
		return v, true
	}
	name := strings.TrimPrefix(s, "account.")
	if v, ok := e.acct.get(name); ok {
		if i, ok2 := constant.Int64Val(constant.ToInt(v)); ok2 {
			return i, true
		}
	}
	if bl, ok := x.(*ast.BasicLit); ok {
		v := constant.MakeFromLiteral(bl.Value, bl.Kind, 0)
		if i, ok2 := constant.Int64Val(constant.ToInt(v)); ok2 {
			return i, true
		}
	}
	return 0, false
}

func (e *storeEnv) boolVal(x ast.Expr) (bool, bool) {
	switch t := x.(type) {
	case *ast.ParenExpr:
		return e.boolVal(t.X)
	case *ast.UnaryExpr:
		if t.Op == token.NOT {
			v, ok := e.boolVal(t.X)
			return !v, ok
		}
	case *ast.BinaryExpr:
		switch t.Op {
		case token.LAND, token.LOR:
			a, ok1 := e.boolVal(t.X)
			b, ok2 := e.boolVal(t.Y)
			if t.Op == token.LAND {
				return a && b, ok1 && ok2
			}
			return a || b, ok1 && ok2
		case token.EQL, token.NEQ, token.LSS, token.LEQ, token.GTR, token.GEQ:
			a, ok1 := e.intVal(t.X)
			b, ok2 := e.intVal(t.Y)
			if !ok1 || !ok2 {
				return false, false
			}
			switch t.Op {
			case token.EQL:
				return a == b, true
			case token.NEQ:
				return a != b, true
			case token.LSS:
				return a < b, true
			case token.LEQ:
				return a <= b, true
			case token.GTR:
				return a > b, true
			default:
				return a >= b, true
			}
		}
	case *ast.CallExpr:
		// same-package predicate helper: `return <expr>` or a switch/if returning literals
		id, ok := t.Fun.(*ast.Ident)
		if !ok || e.depth > 2 {
			return false, false
		}
		fd := findFunc(storePkg, id.Name)
		if fd == nil || fd.Body == nil || fd.Type.Params == nil {
			return false, false
		}
		inner := &storeEnv{vals: map[string]int64{}, acct: e.acct, depth: e.depth + 1}
		i := 0
		for _, f := range fd.Type.Params.List {
			for _, n := range f.Names {
				if i < len(t.Args) {
					if v, ok := e.intVal(t.Args[i]); ok {
						inner.vals[n.Name] = v
					}
				}
				i++
			}
		}
		return inner.evalReturn(fd.Body.List)
	case *ast.Ident:
		if t.Name == "true" {
			return true, true
		}
		if t.Name == "false" {
			return false, true
		}
	}
	return false, false
}

// evalReturn evaluates a predicate body made of returns, ifs and switches.
func (e *storeEnv) evalReturn(stmts []ast.Stmt) (bool, bool) {
	for _, st := range stmts {
		switch t := st.(type) {
		case *ast.ReturnStmt:
			if len(t.Results) == 1 {
				return e.boolVal(t.Results[0])
			}
			return false, false
		case *ast.IfStmt:
			c, ok := e.boolVal(t.Cond)
			if !ok {
				return false, false
			}
			if c {
				if v, ok := e.evalReturn(t.Body.List); ok {
					return v, true
				}
			} else if t.Else != nil {
				if blk, ok := t.Else.(*ast.BlockStmt); ok {
					if v, ok := e.evalReturn(blk.List); ok {
						return v, true
					}
				} else if v, ok := e.evalReturn([]ast.Stmt{t.Else}); ok {
					return v, true
				}
			}
		case *ast.SwitchStmt:
			cc, ok := e.pickClause(t)
			if !ok {
				return false, false
			}
			if cc != nil {
				if v, ok := e.evalReturn(cc.Body); ok {
					return v, true
				}
			}
		}
	}
	return false, false
}

// pickClause selects the clause a switch executes under the environment.
func (e *storeEnv) pickClause(sw *ast.SwitchStmt) (*ast.CaseClause, bool) {
	var def *ast.CaseClause
	for _, st := range sw.Body.List {
		cc := st.(*ast.CaseClause)
		if cc.List == nil {
			def = cc
			continue
		}
		for _, x := range cc.List {
			if sw.Tag != nil {
				a, ok1 := e.intVal(sw.Tag)
				b, ok2 := e.intVal(x)
				if !ok1 || !ok2 {
					return nil, false
				}
				if a == b {
					return cc, true
				}
			} else {
				v, ok := e.boolVal(x)
				if !ok {
					return nil, false
				}
				if v {
					return cc, true
				}
			}
		}
	}
	return def, true
}

// storeReaches decides whether `target` is executed inside stmts under env;
// found=false when the target is not in this subtree.
func (e *storeEnv) reaches(n ast.Node, target ast.Node) (found, runs, ok bool) {
	if n == nil {
		return false, false, true
	}
	if n == target {
		return true, true, true
	}
	contains := func(m ast.Node) bool {
		return m != nil && m.Pos() <= target.Pos() && target.End() <= m.End()
	}
	if !contains(n) {
		return false, false, true
	}
	switch t := n.(type) {
	case *ast.IfStmt:
		if contains(t.Init) {
			return e.reaches(t.Init, target)
		}
		if contains(t.Cond) {
			return true, true, true
		}
		c, okc := e.boolVal(t.Cond)
		if contains(t.Body) {
			if !okc {
				// a guard that does not depend on the state (e.g. `err != nil` wrappers
				// never contain the call in their body in this code) cannot be decided
				return true, false, false
			}
			if !c {
				return true, false, true
			}
			return e.reaches(t.Body, target)
		}
		if contains(t.Else) {
			if !okc {
				return true, false, false
			}
			if c {
				return true, false, true
			}
			return e.reaches(t.Else, target)
		}
	case *ast.SwitchStmt:
		for _, st := range t.Body.List {
			cc := st.(*ast.CaseClause)
			if contains(cc) {
				pick, okp := e.pickClause(t)
				if !okp {
					return true, false, false
				}
				if pick != cc {
					return true, false, true
				}
				for _, b := range cc.Body {
					if contains(b) {
						return e.reaches(b, target)
					}
				}
			}
		}
	}
	// generic: descend into the child that contains the target
	var res [3]bool
	res[2] = true
	done := false
	ast.Inspect(n, func(m ast.Node) bool {
		if done || m == nil || m == n {
			return !done
		}
		if contains(m) {
			f, r, o := e.reaches(m, target)
			res = [3]bool{f, r, o}
			done = true
		}
		return false
	})
	if !done {
		return true, true, true
	}
	return res[0], res[1], res[2]
}

// storeNoLatestTxStates returns the defined account states for which the
// LatestTx element call of the function is NOT executed.
func storeNoLatestTxStates(fd *ast.FuncDecl, acct *constEnv, states [][2]string) ([][2]string, bool) {
	var target *ast.CallExpr
	ast.Inspect(fd.Body, func(n ast.Node) bool {
		ce, ok := n.(*ast.CallExpr)
		if !ok || target != nil {
			return true
		}
		name := exprString(ce.Fun)
		if (name == "codec.WriteElement" || name == "ReadElement" || name == "codec.WriteElements" ||
			name == "ReadElements") && len(ce.Args) == 2 && storeStripAmp(exprString(ce.Args[1])) == "a.LatestTx" {
			target = ce
		}
		return true
	})
	if target == nil {
		return nil, false
	}
	var res [][2]string
	for _, st := range states {
		var v int64
		fmt.Sscan(st[1], &v)
		env := &storeEnv{vals: map[string]int64{"a.State": v}, acct: acct}
		_, runs, ok := env.reaches(fd.Body, target)
		if !ok {
			return nil, false
		}
		if !runs {
			res = append(res, st)
		}
	}
	return res, true
}

// typedConsts lists the constants declared with the given named type.
func storeTypedConsts(files []*ast.File, ce *constEnv, pkg, typ string) [][2]string {
	var res [][2]string
	for _, f := range files {
		for _, d := range f.Decls {
			gd, ok := d.(*ast.GenDecl)
			if !ok || gd.Tok != token.CONST {
				continue
			}
			cur := ""
			for _, s := range gd.Specs {
				vs := s.(*ast.ValueSpec)
				if vs.Type != nil {
					cur = exprString(vs.Type)
				} else if len(vs.Values) != 0 {
					cur = ""
				}
				if cur != typ {
					continue
				}
				for _, n := range vs.Names {
					if n.Name == "_" {
						continue
					}
					res = append(res, [2]string{n.Name, intConst(ce, pkg, n.Name)})
				}
			}
		}
	}
	if len(res) == 0 {
		fail("no constants of type %s.%s found", pkg, typ)
	}
	return res
}

func storeLeanPairs(ps [][2]string, num bool) string {
	q := make([]string, len(ps))
	for i, p := range ps {
		if num {
			q[i] = fmt.Sprintf("(%q, %s)", p[0], p[1])
		} else {
			q[i] = fmt.Sprintf("(%q, %q)", p[0], p[1])
		}
	}
	return "[" + strings.Join(q, ", ") + "]"
}

func storeGenFacts() {
	l := newLean("StoreFacts", "C10: ordered element lists of the trader-database (de)serialisers, TLV type "+
		"numbers and record lists, state tables; read from clientdb/*.go, account/, order/.")
	l.p("namespace Pool.Gen.Store")
	files := pkgFiles("clientdb")
	storePkg = files
	cdb := newConstEnv(files)
	acctFiles := pkgFiles("account")
	acct := newConstEnv(acctFiles)
	ordFiles := pkgFiles("order")
	ord := newConstEnv(ordFiles)

	// 1. element lists
	l.p("/-- function ↦ its `codec.WriteElement(s)` (\"W\") / `ReadElement(s)` (\"R\") calls in source order, each")
	l.p("with the ordered argument expressions (a leading `&` stripped) -/")
	l.p("def elemCalls : List (String × List (String × List String)) := [")
	for i, fn := range storeFuncs {
		fd := findFunc(files, fn)
		if fd == nil {
			fail("clientdb.%s not found", fn)
			continue
		}
		var cs []string
		for _, c := range storeElemCalls(fd) {
			cs = append(cs, fmt.Sprintf("(%q, %s)", c[0].(string), leanStrList(c[1].([]string))))
		}
		sep := ","
		if i == len(storeFuncs)-1 {
			sep = ""
		}
		l.p("  (%q, [%s])%s", fn, strings.Join(cs, ", "), sep)
	}
	l.p("]")

	// 2. TLV records per function + the type numbers they name
	tlvFuncs := []string{"serializeAccountTlvData", "deserializeAccountTlvData",
		"serializeOrderTlvData", "deserializeOrderTlvData"}
	seen := map[string]bool{}
	var typeNames [][2]string
	l.p("/-- function ↦ `tlv.MakePrimitiveRecord(type, &var)` calls in source order -/")
	l.p("def tlvRecords : List (String × List (String × String)) := [")
	for i, fn := range tlvFuncs {
		fd := findFunc(files, fn)
		if fd == nil {
			fail("clientdb.%s not found", fn)
			continue
		}
		recs := storeTlvRecords(fd)
		if len(recs) == 0 {
			fail("clientdb.%s: no tlv.MakePrimitiveRecord calls", fn)
		}
		for _, r := range recs {
			if !seen[r[0]] {
				seen[r[0]] = true
				typeNames = append(typeNames, [2]string{r[0], intConst(cdb, "clientdb", r[0])})
			}
		}
		sep := ","
		if i == len(tlvFuncs)-1 {
			sep = ""
		}
		l.p("  (%q, %s)%s", fn, storeLeanPairs(recs, false), sep)
	}
	l.p("]")
	l.p("def tlvTypes : List (String × Nat) := %s", storeLeanPairs(typeNames, true))
	// 2b. which tlv.Stream methods move the bytes (the P2P variants cap a record at 65535 bytes, the plain ones do not)
	l.p("/-- function ↦ the `tlv.Stream` encode / decode methods it calls, in source order -/")
	l.p("def tlvStreamCalls : List (String × List String) := [")
	for i, fn := range tlvFuncs {
		var ms []string
		if fd := findFunc(files, fn); fd != nil {
			ast.Inspect(fd, func(n ast.Node) bool {
				if c, ok := n.(*ast.CallExpr); ok {
					if sel, ok := c.Fun.(*ast.SelectorExpr); ok &&
						(strings.HasPrefix(sel.Sel.Name, "Decode") || strings.HasPrefix(sel.Sel.Name, "Encode")) {
						ms = append(ms, sel.Sel.Name)
					}
				}
				return true
			})
		}
		sep := ","
		if i == len(tlvFuncs)-1 {
			sep = ""
		}
		l.p("  (%q, %s)%s", fn, leanStrList(ms), sep)
	}
	l.p("]")
	l.p("def accountStateVersionedMask : Nat := %s", intConst(cdb, "clientdb", "accountStateVersionedMask"))

	// 3. states without LatestTx: evaluated semantically for every defined account state
	acctStates := storeTypedConsts(acctFiles, acct, "account", "State")
	for _, fn := range []string{"serializeAccount", "deserializeAccount"} {
		fd := findFunc(files, fn)
		if fd == nil {
			continue
		}
		ps, ok := storeNoLatestTxStates(fd, acct, acctStates)
		if !ok {
			fail("clientdb.%s: cannot decide for which states a.LatestTx is (de)serialised", fn)
		}
		l.p("/-- defined account states for which %s does not touch LatestTx (guards evaluated per state) -/", fn)
		l.p("def noLatestTx_%s : List (String × Nat) := %s", fn, storeLeanPairs(ps, true))
	}

	// 4. enums
	l.p("def accountStates : List (String × Nat) := %s", storeLeanPairs(storeTypedConsts(acctFiles, acct, "account", "State"), true))
	l.p("def accountVersions : List (String × Nat) := %s", storeLeanPairs(storeTypedConsts(acctFiles, acct, "account", "Version"), true))
	l.p("def orderTypes : List (String × Nat) := %s", storeLeanPairs(storeTypedConsts(ordFiles, ord, "order", "Type"), true))
	l.p("def orderStates : List (String × Nat) := %s", storeLeanPairs(storeTypedConsts(ordFiles, ord, "order", "State"), true))
	l.p("def orderVersions : List (String × Nat) := %s", storeLeanPairs(storeTypedConsts(ordFiles, ord, "order", "Version"), true))
	l.p("def channelTypes : List (String × Nat) := %s", storeLeanPairs(storeTypedConsts(ordFiles, ord, "order", "ChannelType"), true))
	l.p("def auctionTypes : List (String × Nat) := %s", storeLeanPairs(storeTypedConsts(ordFiles, ord, "order", "AuctionType"), true))
	l.p("def announcementConstraints : List (String × Nat) := %s",
		storeLeanPairs(storeTypedConsts(ordFiles, ord, "order", "ChannelAnnouncementConstraints"), true))
	l.p("def confirmationConstraints : List (String × Nat) := %s",
		storeLeanPairs(storeTypedConsts(ordFiles, ord, "order", "ChannelConfirmationConstraints"), true))
	l.p("def nodeTiers : List (String × Nat) := %s", storeLeanPairs(storeTypedConsts(ordFiles, ord, "order", "NodeTier"), true))
	l.p("def legacyLeaseDurationBucket : Nat := %s", intConst(ord, "order", "LegacyLeaseDurationBucket"))
	// 4b. which of the four order-bucket keys each writer stores, and under which conditions: (callee, the
	// conditions of the enclosing if-bodies; the `if err := f(); err != nil` wrapper of a call is not a guard)
	l.p("/-- writer ↦ its `storeOrder…TX` calls in source order with the conditions guarding each call -/")
	l.p("def orderKeyWrites : List (String × List (String × List String)) := [")
	writers := []string{"storeBidTemplate", "SubmitOrder", "updateOrder", "copyOrder"}
	for wi, fn := range writers {
		fd := findFunc(files, fn)
		if fd == nil {
			fd = findFunc(files, "DB."+fn)
		}
		if fd == nil {
			fail("clientdb.%s not found", fn)
			continue
		}
		var items []string
		var visit func(n ast.Node, guards []string)
		visit = func(n ast.Node, guards []string) {
			if n == nil {
				return
			}
			switch x := n.(type) {
			case *ast.IfStmt:
				visit(x.Init, guards)
				visit(x.Cond, guards)
				g := exprString(x.Cond)
				if x.Init != nil {
					if as, ok := x.Init.(*ast.AssignStmt); ok && len(as.Rhs) == 1 {
						g = exprString(as.Rhs[0]) + "; " + g
						// `if _, ok := <order>.(*order.Bid); ok` – whatever the variables are called
						if ta, ok := as.Rhs[0].(*ast.TypeAssertExpr); ok && ta.Type != nil &&
							exprString(ta.Type) == "*order.Bid" && len(as.Lhs) == 2 &&
							exprString(as.Lhs[1]) == exprString(x.Cond) {
							g = "is-bid"
						}
					}
				}
				inner := append(append([]string{}, guards...), g)
				visit(x.Body, inner)
				if x.Else != nil {
					visit(x.Else, append(append([]string{}, guards...), "!("+g+")"))
				}
				return
			case *ast.CallExpr:
				name := exprString(x.Fun)
				if strings.HasPrefix(name, "storeOrder") {
					items = append(items, fmt.Sprintf("(%q, %s)", name, leanStrList(guards)))
				}
			}
			// generic descent over direct children
			ast.Inspect(n, func(m ast.Node) bool {
				if m == nil || m == n {
					return true
				}
				visit(m, guards)
				return false
			})
		}
		visit(fd.Body, nil)
		if len(items) == 0 {
			fail("clientdb.%s: no storeOrder…TX calls", fn)
		}
		sep := ","
		if wi == len(writers)-1 {
			sep = ""
		}
		l.p("  (%q, [%s])%s", fn, strings.Join(items, ", "), sep)
	}
	l.p("]")

	// 5. transaction discipline of the read methods: bbolt hands out slices into its memory map that are only
	// valid inside the transaction, so every decode call of a *DB method has to sit inside a function literal
	// (the View/Update closure or a callback invoked from it), never in the method body itself.
	decodeFns := map[string]bool{
		"DeserializeOrder": true, "deserializeOrderTlvData": true, "deserializeAccount": true,
		"deserializeAccountTlvData": true, "deserializeLocalBatchSnapshot": true, "ReadElement": true,
		"ReadElements": true, "readAccount": true, "fetchOrderTX": true, "readSidecar": true,
		"readBidTemplate": true, "fetchLocalBatchSnapshot": true, "fetchPendingBatchSnapshot": true,
		"sidecar.DeserializeTicket": true, "lnwire.ReadElement": true, "readAdditionalValue": true,
		"bytes.NewReader": true,
	}
	var viewMethods []string
	var outside [][2]string
	for _, f := range files {
		for _, d := range f.Decls {
			fd, ok := d.(*ast.FuncDecl)
			if !ok || fd.Recv == nil || fd.Body == nil || len(fd.Recv.List) != 1 {
				continue
			}
			if exprString(fd.Recv.List[0].Type) != "*DB" {
				continue
			}
			opensTx := false
			var walk func(n ast.Node, inLit bool)
			walk = func(n ast.Node, inLit bool) {
				ast.Inspect(n, func(m ast.Node) bool {
					switch x := m.(type) {
					case *ast.FuncLit:
						if m != n {
							walk(x.Body, true)
							return false
						}
					case *ast.CallExpr:
						name := exprString(x.Fun)
						if name == "db.View" || name == "db.Update" {
							opensTx = true
						}
						if decodeFns[name] && !inLit {
							outside = append(outside, [2]string{fd.Name.Name, name})
						}
					}
					return true
				})
			}
			walk(fd.Body, false)
			if opensTx {
				viewMethods = append(viewMethods, fd.Name.Name)
			}
		}
	}
	sort.Strings(viewMethods)
	if len(viewMethods) == 0 {
		fail("no *DB method opening a transaction found")
	}
	l.p("/-- exported/unexported `*DB` methods of clientdb that open a bbolt transaction (`db.View` / `db.Update`) -/")
	l.p("def dbTxMethods : List String := %s", leanStrList(viewMethods))
	l.p("/-- (method, callee): decode calls of `*DB` methods that are NOT inside a function literal, i.e. that run")
	l.p("after the transaction closure returned, on slices bbolt no longer keeps valid -/")
	l.p("def decodeOutsideTx : List (String × String) := %s", storeLeanPairs(outside, false))
	l.p("end Pool.Gen.Store")
}
