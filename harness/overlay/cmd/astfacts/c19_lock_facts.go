//go:build verif

package main

import (
	"fmt"
	"go/ast"
	"go/token"
	"sort"
	"strings"
)

func init() {
	jobs = append(jobs, job{props: []string{"C19"}, fn: genC19Locks})
}

// decLockInfo describes one method: which mutexes of its receiver it locks
// itself, and the calls to sibling methods it makes while holding one.
type decLockInfo struct {
	locks map[string]bool // "recv.pendingSidecarOrdersMtx", "recv" (embedded mutex)
	held  []decHeldCall   // sibling calls made while a mutex is held
	calls map[string]bool // all sibling methods called (outside go statements)
}

type decHeldCall struct {
	mutex, callee string
	pos           token.Pos
}

// decMethodLocks analyses the methods of one receiver type in the root
// package. Mutex expressions are normalised by replacing the receiver name
// with "recv". A mutex counts as held from its Lock() call to the next
// non-deferred Unlock() of the same expression in source order, or to the end
// of the function when the Unlock is deferred. Function literals started with
// `go` are skipped (they do not run under the caller's lock).
func decMethodLocks(files []*ast.File, recvType string) map[string]*decLockInfo {
	res := map[string]*decLockInfo{}
	for _, f := range files {
		for _, d := range f.Decls {
			fd, ok := d.(*ast.FuncDecl)
			if !ok || fd.Recv == nil || fd.Body == nil || len(fd.Recv.List) != 1 {
				continue
			}
			t := fd.Recv.List[0].Type
			if st, ok := t.(*ast.StarExpr); ok {
				t = st.X
			}
			if id, ok := t.(*ast.Ident); !ok || id.Name != recvType {
				continue
			}
			recv := ""
			if len(fd.Recv.List[0].Names) == 1 {
				recv = fd.Recv.List[0].Names[0].Name
			}
			norm := func(e ast.Expr) string {
				s := exprString(e)
				if s == recv {
					return "recv"
				}
				if strings.HasPrefix(s, recv+".") {
					return "recv." + s[len(recv)+1:]
				}
				return s
			}
			info := &decLockInfo{locks: map[string]bool{}, calls: map[string]bool{}}
			type ev struct {
				pos      token.Pos
				kind     string // lock | unlock | call
				what     string
				deferred bool
			}
			var evs []ev
			var walk func(n ast.Node, deferred bool)
			walk = func(n ast.Node, deferred bool) {
				ast.Inspect(n, func(m ast.Node) bool {
					switch x := m.(type) {
					case *ast.GoStmt:
						return false
					case *ast.DeferStmt:
						walk(x.Call, true)
						return false
					case *ast.CallExpr:
						sel, ok := x.Fun.(*ast.SelectorExpr)
						if !ok {
							return true
						}
						switch sel.Sel.Name {
						case "Lock", "RLock":
							if recv != "" && (norm(sel.X) == "recv" || strings.HasPrefix(norm(sel.X), "recv.")) {
								evs = append(evs, ev{x.Pos(), "lock", norm(sel.X), deferred})
								return true
							}
						case "Unlock", "RUnlock":
							if recv != "" && (norm(sel.X) == "recv" || strings.HasPrefix(norm(sel.X), "recv.")) {
								evs = append(evs, ev{x.Pos(), "unlock", norm(sel.X), deferred})
								return true
							}
						}
						if id, ok := sel.X.(*ast.Ident); ok && id.Name == recv && recv != "" {
							evs = append(evs, ev{x.Pos(), "call", sel.Sel.Name, deferred})
						}
					}
					return true
				})
			}
			walk(fd.Body, false)
			sort.Slice(evs, func(i, j int) bool { return evs[i].pos < evs[j].pos })
			heldNow := map[string]bool{}
			for _, e := range evs {
				switch e.kind {
				case "lock":
					info.locks[e.what] = true
					heldNow[e.what] = true
				case "unlock":
					if !e.deferred {
						delete(heldNow, e.what)
					}
				case "call":
					info.calls[e.what] = true
					for m := range heldNow {
						info.held = append(info.held, decHeldCall{m, e.what, e.pos})
					}
				}
			}
			res[fd.Name.Name] = info
		}
	}
	return res
}

// genC19Locks: no method of SidecarAcceptor / rpcServer calls, while holding
// one of the receiver's mutexes, a method that (transitively) locks the same
// mutex again - sync.Mutex is not reentrant, so that would never return.
func genC19Locks() {
	l := newLean("C19Locks", "root package: mutexes locked by the methods of SidecarAcceptor and rpcServer and the "+
		"sibling calls made while they are held; relockSites lists every call that would lock a held mutex again.")
	l.p("namespace Pool.Gen.C19")
	root := pkgFiles(".")
	var relock, lockTable []string
	for _, typ := range []string{"SidecarAcceptor", "rpcServer"} {
		ms := decMethodLocks(root, typ)
		if len(ms) == 0 {
			fail("no methods of %s found", typ)
		}
		// transitive lock sets
		trans := map[string]map[string]bool{}
		for n, i := range ms {
			trans[n] = map[string]bool{}
			for m := range i.locks {
				trans[n][m] = true
			}
		}
		for changed := true; changed; {
			changed = false
			for n, i := range ms {
				for c := range i.calls {
					for m := range trans[c] {
						if !trans[n][m] {
							trans[n][m] = true
							changed = true
						}
					}
				}
			}
		}
		for n, i := range ms {
			var ls []string
			for m := range i.locks {
				ls = append(ls, m)
			}
			sort.Strings(ls)
			if len(ls) > 0 {
				lockTable = append(lockTable, fmt.Sprintf("%s.%s locks %s", typ, n, strings.Join(ls, ",")))
			}
			for _, h := range i.held {
				if trans[h.callee][h.mutex] {
					relock = append(relock, fmt.Sprintf("%s.%s holds %s and calls %s which locks it", typ, n, h.mutex, h.callee))
				}
			}
		}
	}
	sort.Strings(relock)
	sort.Strings(lockTable)
	// de-duplicate
	uniq := func(in []string) []string {
		var out []string
		for i, s := range in {
			if i == 0 || s != in[i-1] {
				out = append(out, s)
			}
		}
		return out
	}
	l.p("def methodLocks : List String := %s", leanStrList(uniq(lockTable)))
	l.p("def relockSites : List String := %s", leanStrList(uniq(relock)))
	l.p("end Pool.Gen.C19")
}
