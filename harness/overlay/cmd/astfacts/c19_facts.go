//go:build verif

package main

import (
	"fmt"
	"go/ast"
	"go/token"
	"sort"
	"strings"
)

func init() {
	jobs = append(jobs, job{props: []string{"C19"}, fn: genC19Pb})
}

// decPbKind classifies the Go type of a generated protobuf struct field:
// opt:<Msg> (singular message pointer, nil when absent on the wire),
// rep:<Msg>, map:<key>:<Msg|bytes|...>, bytes, string, rep:bytes, scalar.
func decPbKind(t ast.Expr) string {
	switch x := t.(type) {
	case *ast.StarExpr:
		return "opt:" + exprString(x.X)
	case *ast.ArrayType:
		if id, ok := x.Elt.(*ast.Ident); ok && id.Name == "byte" {
			return "bytes"
		}
		if st, ok := x.Elt.(*ast.StarExpr); ok {
			return "rep:" + exprString(st.X)
		}
		if at, ok := x.Elt.(*ast.ArrayType); ok {
			if id, ok := at.Elt.(*ast.Ident); ok && id.Name == "byte" {
				return "rep:bytes"
			}
		}
		return "rep:" + exprString(x.Elt)
	case *ast.MapType:
		v := exprString(x.Value)
		if st, ok := x.Value.(*ast.StarExpr); ok {
			v = exprString(st.X)
		} else if v == "[]byte" {
			v = "bytes"
		}
		return "map:" + exprString(x.Key) + ":" + v
	case *ast.Ident:
		if x.Name == "string" {
			return "string"
		}
		return "scalar"
	}
	return "other:" + exprString(t)
}

// decNilGuard reports whether the code in n - including the same-package
// functions / methods it calls, up to `depth` levels - compares with nil
// (`== nil` or `!= nil`, either operand order) a value that `match` accepts.
// A local name stands for the expression it was assigned from (`p :=
// a.pendingBatch; if p != nil`), so match sees both the name and its source.
func decNilGuard(files []*ast.File, n ast.Node, match func(string) bool, depth int) bool {
	alias := map[string]string{}
	ast.Inspect(n, func(m ast.Node) bool {
		if as, ok := m.(*ast.AssignStmt); ok && len(as.Lhs) == len(as.Rhs) {
			for i, l := range as.Lhs {
				if id, ok := l.(*ast.Ident); ok {
					alias[id.Name] = exprString(as.Rhs[i])
				}
			}
		}
		return true
	})
	found := false
	var callees []string
	ast.Inspect(n, func(m ast.Node) bool {
		switch x := m.(type) {
		case *ast.BinaryExpr:
			if x.Op != token.EQL && x.Op != token.NEQ {
				return true
			}
			var other ast.Expr
			if id, ok := x.Y.(*ast.Ident); ok && id.Name == "nil" {
				other = x.X
			} else if id, ok := x.X.(*ast.Ident); ok && id.Name == "nil" {
				other = x.Y
			}
			if other != nil {
				s := exprString(other)
				if match(s) || (alias[s] != "" && match(alias[s])) {
					found = true
				}
			}
		case *ast.CallExpr:
			callees = append(callees, decCallName(x))
		}
		return true
	})
	if found || depth == 0 {
		return found
	}
	for _, f := range files {
		for _, d := range f.Decls {
			fd, ok := d.(*ast.FuncDecl)
			if !ok || fd.Body == nil {
				continue
			}
			for _, c := range callees {
				if c == fd.Name.Name && decNilGuard(files, fd.Body, match, depth-1) {
					return true
				}
			}
		}
	}
	return false
}

// decParamName returns the name of the i-th parameter of fd.
func decParamName(fd *ast.FuncDecl, i int) string {
	k := 0
	for _, f := range fd.Type.Params.List {
		for _, n := range f.Names {
			if k == i {
				return n.Name
			}
			k++
		}
	}
	return ""
}

// decHasNilTest reports whether a statement list contains `if <expr> == nil`.
func decHasNilTest(n ast.Node, expr string) bool {
	found := false
	ast.Inspect(n, func(m ast.Node) bool {
		if is, ok := m.(*ast.IfStmt); ok {
			c := exprString(is.Cond)
			if c == expr+" == nil" || strings.HasPrefix(c, expr+" == nil ") {
				found = true
			}
		}
		return true
	})
	return found
}

// decTypeSwitchCase finds the case clause of `switch msg := X.Msg.(type)` in fd
// whose type ends in suffix.
func decTypeSwitchCase(fd *ast.FuncDecl, suffix string) *ast.CaseClause {
	var res *ast.CaseClause
	ast.Inspect(fd.Body, func(n ast.Node) bool {
		ts, ok := n.(*ast.TypeSwitchStmt)
		if !ok {
			return true
		}
		for _, s := range ts.Body.List {
			cc := s.(*ast.CaseClause)
			for _, e := range cc.List {
				if strings.HasSuffix(exprString(e), suffix) {
					res = cc
				}
			}
		}
		return true
	})
	return res
}

// genC19Pb emits (1) the field table of the protobuf structs of the prepare /
// sign message trees, (2) the channel-type case labels of
// ParseRPCServerOrder, (3) which nil tests and reject calls the current
// source of rpc_parse.go, rpcserver.go and sidecar_acceptor.go contains.
func genC19Pb() {
	l := newLean("C19Pb", "auctioneerrpc/*.pb.go field kinds of the OrderMatchPrepare / OrderMatchSignBegin trees; "+
		"nil tests and reject calls present in order/rpc_parse.go, rpcserver.go, sidecar_acceptor.go.")
	l.p("namespace Pool.Gen.C19")

	pb := pkgFiles("auctioneerrpc")
	want := map[string]bool{"OrderMatchPrepare": true, "MatchedMarket": true, "MatchedOrder": true,
		"MatchedAsk": true, "MatchedBid": true, "ServerAsk": true, "ServerBid": true, "ServerOrder": true,
		"NodeAddress": true, "AccountDiff": true, "ExecutionFee": true, "OrderMatchSignBegin": true,
		"TxOut": true}
	var rows []string
	seen := map[string]bool{}
	for _, f := range pb {
		for _, d := range f.Decls {
			gd, ok := d.(*ast.GenDecl)
			if !ok {
				continue
			}
			for _, s := range gd.Specs {
				ts, ok := s.(*ast.TypeSpec)
				if !ok || !want[ts.Name.Name] {
					continue
				}
				st, ok := ts.Type.(*ast.StructType)
				if !ok {
					continue
				}
				seen[ts.Name.Name] = true
				for _, fl := range st.Fields.List {
					if fl.Tag == nil || !strings.Contains(fl.Tag.Value, "protobuf:") {
						continue
					}
					for _, nm := range fl.Names {
						rows = append(rows, fmt.Sprintf("(%q, %q, %q)", ts.Name.Name, nm.Name, decPbKind(fl.Type)))
					}
				}
			}
		}
	}
	for n := range want {
		if !seen[n] {
			fail("auctioneerrpc struct %s not found", n)
		}
	}
	sort.Strings(rows)
	l.p("def pbFields : List (String × String × String) := [\n  %s]", strings.Join(rows, ",\n  "))

	// channel types accepted by ParseRPCServerOrder
	order := pkgFiles("order")
	pbEnv := newConstEnv(pb)
	var chanTypes []string
	if fd := findFunc(order, "ParseRPCServerOrder"); fd == nil {
		fail("order.ParseRPCServerOrder not found")
	} else {
		ast.Inspect(fd.Body, func(n ast.Node) bool {
			sw, ok := n.(*ast.SwitchStmt)
			if !ok || sw.Tag == nil || exprString(sw.Tag) != "details.ChannelType" {
				return true
			}
			for _, s := range sw.Body.List {
				for _, e := range s.(*ast.CaseClause).List {
					name := exprString(e)
					name = name[strings.LastIndex(name, ".")+1:]
					chanTypes = append(chanTypes, intConst(pbEnv, "auctioneerrpc", name))
				}
			}
			return true
		})
		if len(chanTypes) == 0 {
			fail("ParseRPCServerOrder: switch details.ChannelType not found")
		}
	}
	l.p("def serverOrderChannelTypes : List Int := [%s]", strings.Join(chanTypes, ", "))

	// nil tests of the three parsers
	nilChecks := true
	for _, fn := range []string{"ParseRPCServerOrder", "ParseRPCServerAsk", "ParseRPCServerBid"} {
		fd := findFunc(order, fn)
		if fd == nil {
			fail("order.%s not found", fn)
			continue
		}
		// the message argument is the only parameter of the Ask / Bid
		// parser and the second one of ParseRPCServerOrder, whatever it
		// is called
		idx := 0
		if fn == "ParseRPCServerOrder" {
			idx = 1
		}
		param := decParamName(fd, idx)
		has := param != "" && decNilGuard(order, fd.Body, func(s string) bool { return s == param }, 0)
		l.p("def %sNilTest : Bool := %s", fn, decLeanBool(has))
		nilChecks = nilChecks && has
	}

	// rpcserver.go: the call made when ParseRPCBatch fails, and the nil test
	// of the Sign branch
	root := pkgFiles(".")
	callee, arg0 := "", ""
	signTest := false
	if fd := findFunc(root, "rpcServer.handleServerMessage"); fd == nil {
		fail("rpcServer.handleServerMessage not found")
	} else {
		if cc := decTypeSwitchCase(fd, "ServerAuctionMessage_Prepare"); cc == nil {
			fail("rpcServer.handleServerMessage: Prepare case not found")
		} else {
			// first `if err != nil` after the ParseRPCBatch assignment
			for i, s := range cc.Body {
				as, ok := s.(*ast.AssignStmt)
				if !ok || len(as.Rhs) != 1 || !strings.Contains(exprString(as.Rhs[0]), "ParseRPCBatch") {
					continue
				}
				if i+1 < len(cc.Body) {
					if is, ok := cc.Body[i+1].(*ast.IfStmt); ok {
						ast.Inspect(is.Body, func(n ast.Node) bool {
							if rs, ok := n.(*ast.ReturnStmt); ok && len(rs.Results) == 1 {
								if c, ok := rs.Results[0].(*ast.CallExpr); ok && len(c.Args) > 0 {
									callee, arg0 = decCallName(c), exprString(c.Args[0])
								}
							}
							return true
						})
					}
				}
			}
			if callee == "" {
				fail("rpcServer.handleServerMessage: reject call after ParseRPCBatch not found")
			}
		}
		if cc := decTypeSwitchCase(fd, "ServerAuctionMessage_Sign"); cc == nil {
			fail("rpcServer.handleServerMessage: Sign case not found")
		} else {
			// the pending batch, under whatever local name
			signTest = decNilGuard(root, &ast.BlockStmt{List: cc.Body},
				func(e string) bool { return strings.HasSuffix(e, "PendingBatch()") }, 1)
		}
	}
	l.p("def prepareParseErrCallee : String := %q", callee)
	l.p("def prepareParseErrArg0 : String := %q", arg0)
	l.p("def rpcServerSignNilTest : Bool := %s", decLeanBool(signTest))

	// sidecar_acceptor.go: nil tests of the pending batch on the Sign path
	accSign, accMatch := false, false
	if fd := findFunc(root, "SidecarAcceptor.handleServerMessage"); fd == nil {
		fail("SidecarAcceptor.handleServerMessage not found")
	} else if cc := decTypeSwitchCase(fd, "ServerAuctionMessage_Sign"); cc == nil {
		fail("SidecarAcceptor.handleServerMessage: Sign case not found")
	} else {
		// tested in the case itself or in a helper it calls
		accSign = decNilGuard(root, &ast.BlockStmt{List: cc.Body},
			func(e string) bool { return strings.HasSuffix(e, ".pendingBatch") }, 2)
	}
	if fd := findFunc(root, "SidecarAcceptor.matchSign"); fd == nil {
		fail("SidecarAcceptor.matchSign not found")
	} else {
		accMatch = decNilGuard(root, fd.Body, func(e string) bool { return strings.HasSuffix(e, ".pendingBatch") }, 0)
	}
	l.p("def acceptorSignNilTest : Bool := %s", decLeanBool(accSign))
	l.p("def acceptorMatchSignNilTest : Bool := %s", decLeanBool(accMatch))
	l.p("end Pool.Gen.C19")
}

func decLeanBool(b bool) string {
	if b {
		return "true"
	}
	return "false"
}
