//go:build verif

package pool

import (
	"context"

	"github.com/lightninglabs/lndclient"
	"github.com/lightninglabs/pool/sidecar"
)

// VerifC14ValidateOrderedTicket exposes the unexported
// validateOrderedTicket to the verification harness (C14).
func VerifC14ValidateOrderedTicket(ctx context.Context, t *sidecar.Ticket,
	signer lndclient.SignerClient, db sidecar.Store) error {

	return validateOrderedTicket(ctx, t, signer, db)
}
